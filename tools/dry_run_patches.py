#!/usr/bin/env python3
"""Dry-run every stored patch (mutants, behaviour-preserving variants, seeded changes) against the
current /repo tree: patches rot when a repair touches the same lines. exit 0 if all apply."""
import json
import os
import shutil
import subprocess
import sys

VERIF = os.path.dirname(os.path.dirname(os.path.abspath(__file__)))
sys.path.insert(0, os.path.join(VERIF, 'tools'))
import mutant  # noqa: E402


def main():
    d = mutant.make_scratch()
    bad = []

    def try_patch(path):
        r = subprocess.run(['patch', '-p1', '--binary', '--dry-run', '--no-backup-if-mismatch', '-i', os.path.abspath(path)],
                           cwd=d, capture_output=True, text=True)
        return r.returncode == 0, (r.stdout + r.stderr)[-300:]
    try:
        for e in json.load(open(os.path.join(VERIF, 'mutants', 'catalogue.json')))['mutants']:
            ok, msg = try_patch(os.path.join(VERIF, 'mutants', e['patch']))
            if not ok:
                bad.append(('mutant', e['patch'], msg))
        for e in json.load(open(os.path.join(VERIF, 'mutants', 'equivalent', 'index.json')))['variants']:
            ok, msg = try_patch(os.path.join(VERIF, 'mutants', 'equivalent', e['patch']))
            if not ok:
                bad.append(('equivalent', e['patch'], msg))
        for e in json.load(open(os.path.join(VERIF, 'seeded', 'index.json')))['seeds']:
            ok, msg = try_patch(os.path.join(VERIF, 'seeded', e['seed'], 'patch.diff'))
            if not ok:
                bad.append(('seed', e['seed'], msg))
    finally:
        shutil.rmtree(d, ignore_errors=True)
    for b in bad:
        print(b[0], b[1], '::', b[2].replace('\n', ' | ')[:240])
    print('%d patches do not apply' % len(bad))
    return 1 if bad else 0


if __name__ == '__main__':
    sys.exit(main())
