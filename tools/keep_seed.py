#!/usr/bin/env python3
"""Store a confirmed seeded change under /verif/seeded/<id>/ (patch.diff, demo, meta.json).
usage: keep_seed.py <id> <out_dir> <property> <needs> <caught_by> <confirm_log> [note]"""
import json
import os
import shutil
import sys

sid, out, prop, needs, caught, log = sys.argv[1:7]
note = sys.argv[7] if len(sys.argv) > 7 else ''
d = os.path.join('/verif/seeded', sid)
os.makedirs(d, exist_ok=True)
shutil.copy(os.path.join(out, 'patch.diff'), os.path.join(d, 'patch.diff'))
demos = [f for f in os.listdir(out) if f.endswith('.rs')]
for f in demos:
    shutil.copy(os.path.join(out, f), os.path.join(d, f))
if os.path.exists(os.path.join(out, 'notes.md')):
    shutil.copy(os.path.join(out, 'notes.md'), os.path.join(d, 'agent_notes.md'))
ran = []
if os.path.exists(log):
    for line in open(log):
        if line.startswith(('exit_with', 'exit_without', 'test result', '==')):
            ran.append(line.strip())
meta = {
    'id': sid,
    'breaks_property': prop,
    'origin': 'independent sub-agent given only the property text and a scratch worktree',
    'needs_to_manifest': needs,
    'demonstration': demos,
    'confirmed': 'in the scratch worktree: demo fails with the change, the 124 existing tests pass with it '
                 '(run in a private network namespace because the ingestion tests bind fixed ports), demo '
                 'passes without it',
    'what_i_ran': ['tools/confirm_seed.sh (see lines below)', 'tools/mutant.py seeded/%s/patch.diff %s' % (sid, prop)] + ran,
    'caught_by': caught,
    'note': note,
}
json.dump(meta, open(os.path.join(d, 'meta.json'), 'w'), indent=1)
print('kept', d)
