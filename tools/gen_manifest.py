#!/usr/bin/env python3
"""Regenerate MANIFEST.json from the table below (keeps it valid against the schema)."""
import json
import os

VERIF = os.path.dirname(os.path.dirname(os.path.abspath(__file__)))

TB = ('Trusted: the MIR printed by the repository\'s pinned rustc is the MIR it compiles; the '
      'mirlib text parser (validated by structural invariants and body floors on every run); '
      'dyn/generic calls over-approximated by all impls in the three crates; exception tables in '
      'the checker (one named site + reason each, printed in evidence).')

CHECKS = {
    'C06': ('syntax-tree + MIR table/dataflow rules over the checked-arithmetic chain (CHK-1..8, ERV-1); '
            'partition abstract interpretation of the scalar division guards; decode-exactly-once typestate over compile_expr results (FLW-25); registry NULL-forwarding table (TBL-20)',
            'Decides the finite chain registry -> rewrite -> lowering -> factories -> operators -> scalar '
            'implementations -> SUM merge: a user-visible integer op can wrap only if a link maps checked to '
            'unchecked. Not decided: that operators compute the right number.', '5/C06'),
    'C08': ('MIR dominance / must-pass-through / dataflow rules on the write-ahead protocol '
            '(ORD-3/4/5/10/18, FLW-3/4/5/17/18, LCK-1/2, LIT-3, PAN-7) on anchors with their helpers spliced in (return-variant threading); call-graph reachability through spawned threads for the start-up replay (ORD-18)',
            'Decides on every CFG path the structural clauses acknowledged-data durability rests on: join before '
            'ack, atomic blob replace, no dropped storage error, flush order, cursor values, replay/delete split, '
            'ingestion/flush critical sections. Not decided: value equality of replayed content.', '5/C08'),
    'C09': ('MIR ordering + who-may-call rules over file effects (ORD-4/5/10/11, FLW-3/5/6, WHO-1/2, PAN-1, LIT-3), helpers spliced in',
            'Decides that every crash point lies between effects whose order leaves old-or-new catalogue '
            'consistent, that only the blob backend creates/removes files, that recovery replays only *.wal and '
            'its jobs report failures as values. Not decided: the behaviour of a recovery run.', '5/C09'),
    'C10': ('static lock analysis over MIR: guard tracking, must-hold sets (LCK-1,3..7), offset-origin dataflow (FLW-16), OPT-1, FLW-7, FLW-22, ORD-17, PAN-6, WHO-6; partition-map mutations followed into helpers',
            'Decides the lock discipline of the snapshot protocol for all interleavings (exclusion is proved, '
            'not sampled). Not decided: that results equal a prefix at value level.', '5/C10'),
    'C11': ('lock-order graph, blocking-under-lock, condvar pairing, pool-job reply rules, error-as-value '
            'and arithmetic rules over MIR (LCK-8/9/10, CND-1/2, JOB-1, ERV-1/2/4, FLW-1, FLW-7, FLW-22, OPT-1, CHK-7, ORD-13 limit-zero, PAN-4/5/6/7/8, LCK-11 worker-never-waits-for-its-own-pool over the call graph, CND-3 blocking-implies-flush)',
            'Decides deadlock-freedom clauses and the no-damage clauses of failing requests. Not decided: '
            'panic-freedom of the whole operator engine, running-time bounds.', '5/C11'),
    'C12': ('panic-source enumeration over MIR with recognised safe idioms + exception table (PAN-2/3), '
            'ERV-2, FLW-1, FLW-8, LCK-10, ORD-13 limit-zero, PAN-4, structural equality of the row-loop range and the slice_box window (FLW-26), checked range arithmetic of the grouping planner (PAN-8)',
            'Decides that the text -> task shell has no explicit panic source and produces one column per select '
            'item. Not decided: panics inside sqlparser, value well-formedness.', '5/C12'),
    'C18': ('MIR lock/dataflow/order rules: LCK-1, FLW-13/14/15/17/19, ORD-4/5, CND-1/2/3, LIT-3',
            'Decides reset+notify under the ingestion lock, that everything to delete reaches its delete call '
            'after the catalogue write, that store leaves no temp file, and the flush trigger. Not decided: the '
            'actual directory listing over long histories.', '5/C18'),
}

CHECKS.update({
    'C01': ('syntax-tree width/tag table rules over the column builders (WID-1/2, TBL-1, LIT-1), MIR cast/dataflow rule on the f32 narrowing test (FLT-2), null-map forwarding (NUL-1), bit-wise-only writes of the builder bitmap (NUL-5), one slot per element of a mixed buffer (NUL-6), no plain i64 difference of bounds / unchecked delta steps (FLW-24), panic-free path for a zero-row batch (PAN-7)',
            'Narrow claim: decides necessary structural conditions of the round trip (bound / element type / '
            'tag agreement per branch, identity tags, NULL markers, exact f32 round-trip test, null map never ignored by the builder). The round trip itself quantifies over '
            'runtime values and is NOT decided.', '5/C01'),
    'C03': ('MIR order rule + syntax-tree semantic tables (ORD-1, TBL-2, TBL-3, TBL-17, TBL-19), two-point typestate Unfiltered/Filtered over a flow-sensitive MIR slice (FLW-23), who-may-construct an in-place operator (WHO-5)',
            'Narrow claim: sorted dictionary before index assignment, codec-op property tables one-sidedly '
            'safe, comparison registry rows mutually consistent, WHERE constants translated by the inverse of the decode op, the filter applied exactly once to everything a partition plan reads, NULL operands of AND/OR handled per connective, no in-place operator on shared predicate buffers. Comparison results and three-valued logic beyond that NOT decided.', '5/C03'),
    'C02': ('syntax-tree + MIR structure rules on how partial results are put together (ORD-16, TBL-14, FLW-16, ORD-13), totality of the result-type lattice (PAN-5), NULL-marker translation in the unifying casts (NUL-3)',
            'Narrow claim: partial results are combined in partition order (ordered map keyed by range start, '
            'contiguous ranges only, left before right), partial aggregates merge with their own operation, '
            'buffer partitions follow persisted ones without gap/overlap, per-partition sort is stable. '
            'Equality of results across layouts at value level is NOT decided.', '5/C02'),
    'C04': ('syntax-tree table rules over the aggregator pipeline: SQL name -> aggregator -> planner arm '
            '(TBL-15), marker type operations and neutral elements (TBL-16), merge of partial aggregates and '
            'its plumbing (TBL-14), checked SUM (CHK-8), filter-exactly-once typestate (FLW-23), in-place null-map compaction (NUL-4), PAN-5, NUL-3, WHO-5, checked range arithmetic of the grouping planner (PAN-8)',
            'Narrow claim: every aggregate keeps its kind from the SQL text to the operator, accumulates / '
            'combines / merges across partitions with its own operation, NULL partial results yield the other '
            'side. Group identity and the per-group values are NOT decided.', '5/C04'),
    'C05': ('interprocedural MIR taint of LIMIT/OFFSET values (FLW-1), who-reads-offset (ORD-2), MIR structure of the multi-key sort and the top-n guard (ORD-13), abstract evaluation of the comparator syntax trees on all orderings of two keys (TBL-13), PAN-5, NUL-3',
            'Narrow claim: no unchecked arithmetic on the limit sentinel / offset and single application of the '
            'offset, stable last-to-first multi-key sort, top-n only for one key and never with n = 0, comparator impls mutually consistent incl. NULL placement for string keys. The order produced by the sort operators and the merge of sorted partial results NOT decided.', '5/C05'),
    'C07': ('sibling-table comparison of the decode routines incl. null-map and input-from-stack clauses (TBL-4/5), MIR coverage rule (FLW-2), OPT-1, LIT-2, NUL-1, NUL-2, NUL-5, FLW-11',
            'Narrow claim: the compaction-only decode routine handles what its siblings handle, compaction '
            'covers all names/parts/types, flush never unwraps an evictable payload, null maps survive decode and the column builder. Value preservation of '
            're-encoding NOT decided.', '5/C07'),
    'C13': ('MIR order/lock rules + literal agreement (ORD-7, ORD-12, TBL-6, WHO-3, LIT-2, FLW-2, FLW-21), PAN-5, registry NULL-forwarding table (TBL-20), who-may-remove column handles (WHO-6), FLW-27',
            'Narrow claim: catalogue rows travel in the same segment, ingestion siblings agree, only they '
            'write the name set, catalogue literals agree. Exactly-once listing over histories NOT decided.',
            '5/C13'),
    'C14': ('MIR dominance/dataflow on the blob envelope (FLW-9, WHO-4) + syntax-tree codec table comparison '
            'cross-checked with the capnp schemas (TBL-7/8/9), PAN-1, error-as-value on the cold-load path (PAN-6)',
            'Decides that the payload is returned only after length, version, total-length and SHA-256 checks '
            'over exactly the returned bytes, that every file goes through the envelope and that the three '
            'hand-written codecs compose to the identity on variants/members/fields. Structural equality for '
            'all values NOT decided.', '5/C14'),
    'C15': ('MIR dataflow on path construction and key derivation (FLW-10/11), constant folding of the name predicates on the '
            'forbidden characters (SET-1/2), routing-table siblings (ORD-8), loaded-mark-after-handles ordering over the call graph (ORD-17)',
            'Narrow claim: paths are built only from sanitised parts, predicates exclude separators/NUL and '
            'bound the length, modified names get the digest, columns sorted before grouping. The range lookup '
            'itself NOT decided.', '5/C15'),
    'C16': ('syntax-tree codec/width tables (TBL-8/10/12, WID-3), MIR widening rule (FLW-12), MIR float-comparison rule on the XOR codec (FLT-1), LIT-1, PAN-7 (an empty table buffer / a short string column is applicable), row-position table of the client column builder (TBL-22)',
            'Narrow claim: variants map to members the reader maps back, each narrow layout guarded by its own '
            'type bounds, double-delta only when first differences fit i64, widen before subtracting, XOR stream field widths/biases agree and the codec compares bit patterns only. The XOR state machine and delta arithmetic NOT decided.', '5/C16'),
    'C17': ('MIR rules on the HTTP handlers (ERV-3, ORD-9 incl. decoded-request-is-ingested, ORD-14) + JSON/type-signature tables (TBL-11)',
            'Narrow claim: every query handler maps errors to a non-2xx response, insert answers 200 only after '
            'ingestion completed, multi-query answers gathered in request order, JSON renderers and type-signature branches agree. Value equality between '
            'HTTP and embedded results NOT decided.', '5/C17'),
})

NA = {
}


def main():
    props = [json.loads(l) for l in open(os.path.join(VERIF, 'properties.jsonl'))]
    checks = []
    for pid, (tech, text, ref) in sorted(CHECKS.items()):
        if not os.path.exists(os.path.join(VERIF, 'checks', pid + '.py')):
            continue
        checks.append({
            'property_id': pid,
            'quick_cmd': 'python3 run.py %s --tier quick' % pid,
            'thorough_cmd': 'python3 run.py %s --tier thorough' % pid,
            'evidence_file': '/verif/evidence/%s.json' % pid,
            'replay_cmd_template': 'cat {path}',
            'engine': 'mirlib',
            'level_claimed': {'category': 'other', 'text': text, 'design_ref': 'DESIGN.md section ' + ref},
            'level_note': TB,
            'technique': 'static analysis: ' + tech,
        })
    claimed = {c['property_id'] for c in checks}
    na = []
    for p in props:
        if p['id'] in claimed:
            continue
        na.append({'property_id': p['id'],
                   'reason': NA.get(p['id'], 'check under construction in this session; see DESIGN.md')})
    m = {
        'version': 1,
        'setup_cmd': 'bash setup.sh',
        'hooks': {
            'guard': 'cswinter_locustdb_verif',
            'enable': 'no source hooks: every check reads compiler MIR (cargo rustc -Zunpretty=mir with the '
                      'repository\'s pinned toolchain) and the syn syntax tree of the unmodified sources',
            'baseline_off_cmd': 'cd /repo && cargo test --workspace --no-fail-fast --offline',
            'source_commits': [],
            'add_only': True,
        },
        'engines': [
            {'name': 'mirlib', 'path': '/verif/mirlib',
             'serves_properties': sorted(claimed),
             'kind_free_text': 'Python static analyser over rustc textual MIR (CFG, dominators, def-use, lock '
                               'analysis, call graph) + syn-based syntax tree extractor (astq)'},
        ],
        'checks': checks,
        'not_applicable': na,
        'notes': 'Technique family: static analysis. fix: commits in /repo repair the demonstrated defects '
                 '(see known_findings.json and DESIGN.md section 7).',
    }
    with open(os.path.join(VERIF, 'MANIFEST.json'), 'w') as f:
        json.dump(m, f, indent=1)
    print('wrote MANIFEST.json: %d checks, %d not applicable' % (len(checks), len(na)))


if __name__ == '__main__':
    main()
