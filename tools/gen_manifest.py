#!/usr/bin/env python3
"""Regenerate MANIFEST.json from the table below (keeps it valid against the schema)."""
import json
import os

VERIF = os.path.dirname(os.path.dirname(os.path.abspath(__file__)))

TB = ('Trusted: the MIR printed by the repository\'s pinned rustc is the MIR it compiles; the '
      'mirlib text parser (validated by structural invariants and body floors on every run); '
      'dyn/generic calls over-approximated by all impls in the three crates; exception tables in '
      'the checker (one named site + reason each, printed in evidence).')

CHECKS = {
    'C06': ('syntax-tree + MIR table/dataflow rules over the checked-arithmetic chain (CHK-1..8, ERV-1); '
            'partition abstract interpretation of the scalar division guards',
            'Decides the finite chain registry -> rewrite -> lowering -> factories -> operators -> scalar '
            'implementations -> SUM merge: a user-visible integer op can wrap only if a link maps checked to '
            'unchecked. Not decided: that operators compute the right number.', '5/C06'),
    'C08': ('MIR dominance / must-pass-through / dataflow rules on the write-ahead protocol '
            '(ORD-3/4/5, FLW-3/4/5, LCK-1/2)',
            'Decides on every CFG path the structural clauses acknowledged-data durability rests on: join before '
            'ack, atomic blob replace, no dropped storage error, flush order, cursor values, replay/delete split, '
            'ingestion/flush critical sections. Not decided: value equality of replayed content.', '5/C08'),
    'C09': ('MIR ordering + who-may-call rules over file effects (ORD-4/5, FLW-3/5/6, WHO-1/2, PAN-1)',
            'Decides that every crash point lies between effects whose order leaves old-or-new catalogue '
            'consistent, that only the blob backend creates/removes files, that recovery replays only *.wal and '
            'its jobs report failures as values. Not decided: the behaviour of a recovery run.', '5/C09'),
    'C10': ('static lock analysis over MIR: guard tracking, must-hold sets (LCK-1,3..7), OPT-1',
            'Decides the lock discipline of the snapshot protocol for all interleavings (exclusion is proved, '
            'not sampled). Not decided: that results equal a prefix at value level.', '5/C10'),
    'C11': ('lock-order graph, blocking-under-lock, condvar pairing, pool-job reply rules, error-as-value '
            'and arithmetic rules over MIR (LCK-8/9, CND-1, JOB-1, ERV-1/2, FLW-1, OPT-1, CHK-7)',
            'Decides deadlock-freedom clauses and the no-damage clauses of failing requests. Not decided: '
            'panic-freedom of the whole operator engine, running-time bounds.', '5/C11'),
    'C12': ('panic-source enumeration over MIR with recognised safe idioms + exception table (PAN-2/3), '
            'ERV-2, FLW-1, FLW-8',
            'Decides that the text -> task shell has no explicit panic source and produces one column per select '
            'item. Not decided: panics inside sqlparser, value well-formedness.', '5/C12'),
    'C18': ('MIR lock/dataflow/order rules: LCK-1, FLW-13/14/15, ORD-4/5, CND-1',
            'Decides reset+notify under the ingestion lock, that everything to delete reaches its delete call '
            'after the catalogue write, that store leaves no temp file, and the flush trigger. Not decided: the '
            'actual directory listing over long histories.', '5/C18'),
}

NA = {}


def main():
    props = [json.loads(l) for l in open(os.path.join(VERIF, 'properties.jsonl'))]
    checks = []
    for pid, (tech, text, ref) in sorted(CHECKS.items()):
        if not os.path.exists(os.path.join(VERIF, 'checks', pid + '.py')):
            continue
        checks.append({
            'property_id': pid,
            'quick_cmd': 'python3 run.py %s --tier quick' % pid,
            'thorough_cmd': 'python3 run.py %s --tier thorough' % pid,
            'evidence_file': '/verif/evidence/%s.json' % pid,
            'replay_cmd_template': 'cat {path}',
            'engine': 'mirlib',
            'level_claimed': {'category': 'other', 'text': text, 'design_ref': 'DESIGN.md section ' + ref},
            'level_note': TB,
            'technique': 'static analysis: ' + tech,
        })
    claimed = {c['property_id'] for c in checks}
    na = []
    for p in props:
        if p['id'] in claimed:
            continue
        na.append({'property_id': p['id'],
                   'reason': NA.get(p['id'], 'check under construction in this session; see DESIGN.md')})
    m = {
        'version': 1,
        'setup_cmd': 'bash setup.sh',
        'hooks': {
            'guard': 'cswinter_locustdb_verif',
            'enable': 'no source hooks: every check reads compiler MIR (cargo rustc -Zunpretty=mir with the '
                      'repository\'s pinned toolchain) and the syn syntax tree of the unmodified sources',
            'baseline_off_cmd': 'cd /repo && cargo test --workspace --no-fail-fast --offline',
            'source_commits': [],
            'add_only': True,
        },
        'engines': [
            {'name': 'mirlib', 'path': '/verif/mirlib',
             'serves_properties': sorted(claimed),
             'kind_free_text': 'Python static analyser over rustc textual MIR (CFG, dominators, def-use, lock '
                               'analysis, call graph) + syn-based syntax tree extractor (astq)'},
        ],
        'checks': checks,
        'not_applicable': na,
        'notes': 'Technique family: static analysis. fix: commits in /repo repair the demonstrated defects '
                 '(see known_findings.json and DESIGN.md section 7).',
    }
    with open(os.path.join(VERIF, 'MANIFEST.json'), 'w') as f:
        json.dump(m, f, indent=1)
    print('wrote MANIFEST.json: %d checks, %d not applicable' % (len(checks), len(na)))


if __name__ == '__main__':
    main()
