#!/usr/bin/env python3
"""Run the checks against the independently seeded changes (seeded/index.json).
usage: run_seeds.py [--only SUBSTR] [--prop Cxx] [--json OUT] [--jobs N]
exit 0 if every seed that is expected to be caught is reported by the named rule (and the seeds
recorded as not caught stay silent), 1 otherwise."""
import json
import os
import shutil
import sys
import time

VERIF = os.path.dirname(os.path.dirname(os.path.abspath(__file__)))
sys.path.insert(0, os.path.join(VERIF, 'tools'))
import mutant  # noqa: E402


def main():
    args = sys.argv[1:]
    only = args[args.index('--only') + 1] if '--only' in args else None
    prop = args[args.index('--prop') + 1] if '--prop' in args else None
    idx = json.load(open(os.path.join(VERIF, 'seeded', 'index.json')))['seeds']
    sel = []
    for e in idx:
        if only and only not in e['seed']:
            continue
        props = e['props']
        if prop:
            if prop not in props:
                continue
            props = [prop]
        sel.append((e, props))

    def run_one(item, target):
        e, props = item
        t0 = time.time()
        d = mutant.make_scratch()
        res = {'seed': e['seed'], 'results': {}, 'as_expected': True, 'not_caught': bool(e.get('not_caught'))}
        try:
            mutant.apply_patch(d, os.path.join(VERIF, 'seeded', e['seed'], 'patch.diff'))
            for p in props:
                rc, keys, outp = mutant.run_check(d, p, target=target)
                exp = (e.get('expect_per_prop') or {}).get(p, e.get('expect'))
                if e.get('not_caught'):
                    ok = rc == 0
                else:
                    ok = any(exp in k for k in keys)
                res['results'][p] = {'rc': rc, 'keys': keys[:6], 'ok': ok}
                if not ok:
                    res['as_expected'] = False
                    res['results'][p]['tail'] = outp[-500:]
        except Exception as ex:
            res['as_expected'] = False
            res['error'] = str(ex)
        finally:
            shutil.rmtree(d, ignore_errors=True)
        res['wall_s'] = round(time.time() - t0, 1)
        return res

    bad = 0
    out = []
    for res in mutant.parallel_map(run_one, sel, mutant.jobs_arg(args)):
        out.append(res)
        tag = ('NOT-CAUGHT(recorded)' if res['not_caught'] else 'CAUGHT') if res['as_expected'] else 'UNEXPECTED'
        print('%s %s %s (%.0fs)' % (tag, res['seed'], {p: v['keys'][:2] for p, v in res['results'].items()}, res['wall_s']), flush=True)
        if not res['as_expected']:
            bad += 1
            print(json.dumps(res, indent=1)[:1200])
    print('%d seeds, %d unexpected' % (len(out), bad))
    if '--json' in args:
        json.dump(out, open(args[args.index('--json') + 1], 'w'), indent=1)
    return 1 if bad else 0


if __name__ == '__main__':
    sys.exit(main())
