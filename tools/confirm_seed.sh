#!/bin/bash
# Confirm a seeded change in its scratch worktree: demo fails with the change, passes without it,
# and the existing suite still passes with it. usage: confirm_seed.sh <PROP> [demo test name]
P=$1
W=/tmp/seed/$P
O=${OUT:-/tmp/seed/${P}_out}
export CARGO_NET_OFFLINE=true CARGO_TARGET_DIR=/tmp/seed/${P}_target
cd $W || exit 2
LOG=$O/confirm.log
: > $LOG
demo=$(ls $O/*.rs | head -1)
name=$(basename $demo .rs)
git checkout -q -- . 2>/dev/null
git apply $O/patch.diff || { echo "patch does not apply" >> $LOG; exit 2; }
cp $demo tests/$name.rs
echo "== demo WITH change" >> $LOG
unshare -n sh -c "ip link set lo up && timeout 1500 cargo test --offline --test $name -- --test-threads 1" >> $LOG 2>&1; echo "exit_with=$?" >> $LOG
echo "== full suite WITH change" >> $LOG
rm tests/$name.rs
unshare -n sh -c "ip link set lo up && timeout 3000 cargo test --workspace --no-fail-fast --offline" 2>&1 | grep -E '^test result|FAILED|failed' >> $LOG; 
cp $demo tests/$name.rs
git apply -R $O/patch.diff
echo "== demo WITHOUT change" >> $LOG
unshare -n sh -c "ip link set lo up && timeout 1500 cargo test --offline --test $name -- --test-threads 1" >> $LOG 2>&1; echo "exit_without=$?" >> $LOG
git apply $O/patch.diff
grep -E 'exit_with|exit_without|^test result' $LOG
