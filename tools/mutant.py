#!/usr/bin/env python3
"""Apply a patch to a scratch copy of /repo and run checks against it.

usage: tools/mutant.py <patch> <PROP> [<PROP>...] [--expect KEYSUBSTR]
Prints for each property the exit code and the violation keys. The scratch copy lives under
$TMPDIR (outside /repo and /verif) and is removed afterwards.
"""
import json
import os
import shutil
import subprocess
import sys
import tempfile

VERIF = os.path.dirname(os.path.dirname(os.path.abspath(__file__)))


def make_scratch(repo=None):
    # VERIF_BASE_REPO: tree the scratch copies are taken from (a snapshot of /repo for background sweeps)
    repo = repo or os.environ.get('VERIF_BASE_REPO') or '/repo'
    d = tempfile.mkdtemp(prefix='verif-mut-')
    subprocess.run(['rsync', '-a', '--exclude', 'target', '--exclude', '.git', repo + '/', d + '/'],
                   check=True)
    return d


def apply_patch(d, patch):
    r = subprocess.run(['patch', '-p1', '--binary', '--no-backup-if-mismatch', '-i', os.path.abspath(patch)],
                       cwd=d, capture_output=True, text=True)
    if r.returncode != 0:
        raise RuntimeError('patch failed: ' + r.stdout + r.stderr)


def run_check(d, prop, tier='quick', target=None):
    evdir = tempfile.mkdtemp(prefix='verif-ev-')
    env = dict(os.environ, VERIF_REPO=d, VERIF_EVIDENCE_DIR=evdir)
    if target:
        env['VERIF_TARGET'] = target
    r = subprocess.run([sys.executable, os.path.join(VERIF, 'run.py'), prop, '--tier', tier],
                       env=env, capture_output=True, text=True)
    keys = []
    vp = os.path.join(evdir, prop + '.violations.json')
    if os.path.exists(vp):
        keys = [v['key'] for v in json.load(open(vp))]
    shutil.rmtree(evdir, ignore_errors=True)
    return r.returncode, keys, r.stdout + r.stderr


def parallel_map(fn, items, jobs):
    """Run fn(item, target) over items with `jobs` workers; every worker has its own cargo target
    directory (a copy of .cache/target, made on first use) so that the MIR dumps do not serialise on
    cargo's build lock.  Yields results in completion order."""
    import queue
    from concurrent.futures import ThreadPoolExecutor, as_completed
    if jobs <= 1:
        for it in items:
            yield fn(it, None)
        return
    cache = os.environ.get('VERIF_CACHE', os.path.join(VERIF, '.cache'))
    base = os.path.join(cache, 'target')
    q = queue.Queue()
    for i in range(jobs):
        t = os.path.join(cache, 'target-w%d' % i)
        if not os.path.isdir(t) and os.path.isdir(base):
            # copy aside and rename: another process may be preparing the same worker directory
            tmp = '%s.tmp%d' % (t, os.getpid())
            subprocess.run(['cp', '-a', base, tmp], check=True)
            try:
                os.rename(tmp, t)
            except OSError:
                shutil.rmtree(tmp, ignore_errors=True)
        q.put(t)

    def work(it):
        t = q.get()
        try:
            return fn(it, t)
        finally:
            q.put(t)
    with ThreadPoolExecutor(max_workers=jobs) as ex:
        futs = [ex.submit(work, it) for it in items]
        for f in as_completed(futs):
            yield f.result()


def jobs_arg(args, default=1):
    return int(args[args.index('--jobs') + 1]) if '--jobs' in args else default


def main():
    args = sys.argv[1:]
    expect = None
    if '--expect' in args:
        i = args.index('--expect')
        expect = args[i + 1]
        del args[i:i + 2]
    verbose = '-v' in args
    args = [a for a in args if a != '-v']
    patch, props = args[0], args[1:]
    d = make_scratch()
    rc_all = 0
    try:
        apply_patch(d, patch)
        for p in props:
            rc, keys, out = run_check(d, p)
            print('%s %s rc=%d %s' % (os.path.basename(patch), p, rc, keys))
            if verbose or rc == 2:
                print(out)
            if expect is not None and not any(expect in k for k in keys):
                rc_all = 1
    finally:
        shutil.rmtree(d, ignore_errors=True)
    return rc_all


if __name__ == '__main__':
    sys.exit(main())
