#!/usr/bin/env python3
"""Apply a patch to a scratch copy of /repo and run checks against it.

usage: tools/mutant.py <patch> <PROP> [<PROP>...] [--expect KEYSUBSTR]
Prints for each property the exit code and the violation keys. The scratch copy lives under
$TMPDIR (outside /repo and /verif) and is removed afterwards.
"""
import json
import os
import shutil
import subprocess
import sys
import tempfile

VERIF = os.path.dirname(os.path.dirname(os.path.abspath(__file__)))


def make_scratch(repo=None):
    # VERIF_BASE_REPO: tree the scratch copies are taken from (a snapshot of /repo for background sweeps)
    repo = repo or os.environ.get('VERIF_BASE_REPO') or '/repo'
    d = tempfile.mkdtemp(prefix='verif-mut-')
    subprocess.run(['rsync', '-a', '--exclude', 'target', '--exclude', '.git', repo + '/', d + '/'],
                   check=True)
    return d


def apply_patch(d, patch):
    r = subprocess.run(['patch', '-p1', '--binary', '--no-backup-if-mismatch', '-i', os.path.abspath(patch)],
                       cwd=d, capture_output=True, text=True)
    if r.returncode != 0:
        raise RuntimeError('patch failed: ' + r.stdout + r.stderr)


def run_check(d, prop, tier='quick'):
    evdir = tempfile.mkdtemp(prefix='verif-ev-')
    env = dict(os.environ, VERIF_REPO=d, VERIF_EVIDENCE_DIR=evdir)
    r = subprocess.run([sys.executable, os.path.join(VERIF, 'run.py'), prop, '--tier', tier],
                       env=env, capture_output=True, text=True)
    keys = []
    vp = os.path.join(evdir, prop + '.violations.json')
    if os.path.exists(vp):
        keys = [v['key'] for v in json.load(open(vp))]
    shutil.rmtree(evdir, ignore_errors=True)
    return r.returncode, keys, r.stdout + r.stderr


def main():
    args = sys.argv[1:]
    expect = None
    if '--expect' in args:
        i = args.index('--expect')
        expect = args[i + 1]
        del args[i:i + 2]
    verbose = '-v' in args
    args = [a for a in args if a != '-v']
    patch, props = args[0], args[1:]
    d = make_scratch()
    rc_all = 0
    try:
        apply_patch(d, patch)
        for p in props:
            rc, keys, out = run_check(d, p)
            print('%s %s rc=%d %s' % (os.path.basename(patch), p, rc, keys))
            if verbose or rc == 2:
                print(out)
            if expect is not None and not any(expect in k for k in keys):
                rc_all = 1
    finally:
        shutil.rmtree(d, ignore_errors=True)
    return rc_all


if __name__ == '__main__':
    sys.exit(main())
