#!/usr/bin/env python3
"""Run checks on the behaviour-preserving variants (mutants/equivalent/index.json): every listed
check must exit 0 on every variant; anything else is a false alarm of the checker.
usage: run_equivalents.py [--only SUBSTR] [--prop Cxx] [--all-props] [--json OUT] [--jobs N]
exit 0 if all selected (variant, property) pairs are silent, 1 otherwise."""
import json
import os
import shutil
import sys
import time

VERIF = os.path.dirname(os.path.dirname(os.path.abspath(__file__)))
sys.path.insert(0, os.path.join(VERIF, 'tools'))
import mutant  # noqa: E402

ALL = ['C01', 'C02', 'C03', 'C04', 'C05', 'C06', 'C07', 'C08', 'C09', 'C10', 'C11', 'C12', 'C13', 'C14', 'C15',
       'C16', 'C17', 'C18']


def main():
    args = sys.argv[1:]
    only = args[args.index('--only') + 1] if '--only' in args else None
    prop = args[args.index('--prop') + 1] if '--prop' in args else None
    out = args[args.index('--json') + 1] if '--json' in args else None
    idx = json.load(open(os.path.join(VERIF, 'mutants', 'equivalent', 'index.json')))['variants']
    sel = []
    for e in idx:
        if only and only not in e['patch']:
            continue
        props = ALL if '--all-props' in args else e['props']
        if prop:
            if prop not in props:
                continue
            props = [prop]
        sel.append((e, props))

    def run_one(item, target):
        e, props = item
        t0 = time.time()
        d = mutant.make_scratch()
        res = {'patch': e['patch'], 'results': {}, 'silent': True}
        try:
            mutant.apply_patch(d, os.path.join(VERIF, 'mutants', 'equivalent', e['patch']))
            for p in props:
                rc, keys, outp = mutant.run_check(d, p, target=target)
                res['results'][p] = {'rc': rc, 'keys': keys}
                if rc != 0:
                    res['silent'] = False
                    res['results'][p]['tail'] = outp[-500:]
        except Exception as ex:  # patch does not apply any more etc.
            res['silent'] = False
            res['error'] = str(ex)
        finally:
            shutil.rmtree(d, ignore_errors=True)
        res['wall_s'] = round(time.time() - t0, 1)
        return res

    results = []
    bad = 0
    for res in mutant.parallel_map(run_one, sel, mutant.jobs_arg(args)):
        results.append(res)
        if not res['silent']:
            bad += 1
        print('%s %s %s (%.0fs)' % ('SILENT ' if res['silent'] else 'ALARM  ', res['patch'],
                                    {p: (v['rc'], v['keys'][:3]) for p, v in res['results'].items() if v['rc'] != 0}
                                    or sorted(res['results']), res['wall_s']), flush=True)
        if res.get('error'):
            print('   ', res['error'][:300])
    if out:
        json.dump(results, open(out, 'w'), indent=1)
    print('%d variants, %d with alarms' % (len(results), bad))
    return 1 if bad else 0


if __name__ == '__main__':
    sys.exit(main())
