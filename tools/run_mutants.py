#!/usr/bin/env python3
"""Run the mutant catalogue (mutants/catalogue.json) against the checks.

Each entry: {"patch": file, "props": [..], "expect": "key substring", "what": "..."}.
For every entry the patch is applied to a scratch copy of /repo (under $TMPDIR, removed afterwards),
facts are re-dumped and the listed checks must report a violation whose key contains `expect`.
usage: run_mutants.py [--only SUBSTR] [--prop Cxx] [--jobs N]
exit 0 if every selected mutant is detected, 1 otherwise.
"""
import json
import os
import shutil
import subprocess
import sys
import tempfile
import time
from concurrent.futures import ThreadPoolExecutor

VERIF = os.path.dirname(os.path.dirname(os.path.abspath(__file__)))
sys.path.insert(0, os.path.join(VERIF, 'tools'))
import mutant  # noqa: E402


def run_one(entry, target=None):
    t0 = time.time()
    d = mutant.make_scratch()
    res = {'patch': entry['patch'], 'results': {}, 'detected': True}
    try:
        mutant.apply_patch(d, os.path.join(VERIF, 'mutants', entry['patch']))
        for p in entry['props']:
            rc, keys, out = mutant.run_check(d, p, target=target)
            hit = [k for k in keys if entry['expect'] in k]
            res['results'][p] = {'rc': rc, 'keys': keys, 'hit': bool(hit)}
            if not hit:
                res['detected'] = False
                res['results'][p]['tail'] = out[-600:]
    except Exception as e:  # patch failure etc.
        res['detected'] = False
        res['error'] = str(e)
    finally:
        shutil.rmtree(d, ignore_errors=True)
    res['wall_s'] = round(time.time() - t0, 1)
    return res


def main():
    args = sys.argv[1:]
    only = None
    prop = None
    if '--only' in args:
        only = args[args.index('--only') + 1]
    if '--prop' in args:
        prop = args[args.index('--prop') + 1]
    cat = json.load(open(os.path.join(VERIF, 'mutants', 'catalogue.json')))['mutants']
    sel = []
    for e in cat:
        if only and only not in e['patch']:
            continue
        if prop:
            if prop not in e['props']:
                continue
            e = dict(e, props=[prop])
        sel.append(e)
    bad = 0
    out = []
    for r in mutant.parallel_map(run_one, sel, mutant.jobs_arg(args)):
        e = next(x for x in sel if x['patch'] == r['patch'])
        out.append(r)
        status = 'DETECTED' if r['detected'] else 'MISSED'
        print('%s %s %s (%.0fs)' % (status, e['patch'], {p: v['keys'][:2] for p, v in r['results'].items()}, r['wall_s']))
        if not r['detected']:
            bad += 1
            print(json.dumps(r, indent=1)[:1500])
        sys.stdout.flush()
    print('%d mutants, %d missed' % (len(sel), bad))
    if '--json' in args:
        json.dump(out, open(args[args.index('--json') + 1], 'w'), indent=1)
    return 1 if bad else 0


if __name__ == '__main__':
    sys.exit(main())
