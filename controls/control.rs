// Positive controls: tiny functions that MUST trigger the rule engines on every run.
// Compiled to MIR with the repository's pinned rustc (no dependencies); never executed.
#![allow(dead_code, unused)]
use std::sync::{Condvar, Mutex, RwLock};

pub struct Shared {
    pub a: Mutex<u64>,
    pub b: RwLock<Vec<u8>>,
    pub cv: Condvar,
    pub limit: Limits,
}

pub struct Limits {
    pub limit: u64,
    pub offset: u64,
}

// panic sources: unwrap, expect, index, slice, explicit panic, overflow assert
pub fn control_panic_sources(v: &Vec<u32>, o: Option<u32>, r: Result<u32, String>, s: &str) -> u32 {
    let x = o.unwrap();
    let y = r.expect("boom");
    let z = v[3];
    let t = &s[1..s.len() - 1];
    if t.is_empty() {
        panic!("explicit");
    }
    x + y + z
}

// safe idioms: guarded index and guarded unwrap must NOT be reported
pub fn control_safe_idioms(v: &Vec<u32>, o: Option<u32>) -> u32 {
    let mut acc = 0;
    if v.len() == 2 {
        acc += v[1];
    }
    if !v.is_empty() {
        acc += v[0];
    }
    if o.is_some() {
        acc += o.unwrap();
    }
    acc
}

// lock order: a -> b here ...
pub fn control_lock_ab(s: &Shared) -> u64 {
    let g = s.a.lock().unwrap();
    let r = s.b.read().unwrap();
    *g + r.len() as u64
}

// ... and b -> a here: a cycle the lock-order rule must find
pub fn control_lock_ba(s: &Shared) -> u64 {
    let w = s.b.write().unwrap();
    let g = s.a.lock().unwrap();
    *g + w.len() as u64
}

// guard dropped before the second acquisition: no edge
pub fn control_lock_released(s: &Shared) -> u64 {
    let n = { *s.a.lock().unwrap() };
    let r = s.b.read().unwrap();
    n + r.len() as u64
}

// guard held across a blocking call
pub fn control_blocking_under_lock(s: &Shared, rx: &std::sync::mpsc::Receiver<u64>) -> u64 {
    let g = s.a.lock().unwrap();
    let v = rx.recv().unwrap();
    *g + v
}

// result dropped / result checked
pub fn control_dropped_result(p: &std::path::Path) {
    let _ = std::fs::remove_file(p);
}

pub fn control_checked_result(p: &std::path::Path) -> std::io::Result<()> {
    std::fs::remove_file(p)?;
    Ok(())
}

// order: write then sync then rename (good) and rename before sync (bad)
pub fn control_store_good(p: &std::path::Path, tmp: &std::path::Path, d: &[u8]) -> std::io::Result<()> {
    use std::io::Write;
    let mut f = std::fs::File::create(tmp)?;
    f.write_all(d)?;
    f.sync_all()?;
    std::fs::rename(tmp, p)?;
    Ok(())
}

pub fn control_store_bad(p: &std::path::Path, tmp: &std::path::Path, d: &[u8]) -> std::io::Result<()> {
    use std::io::Write;
    let mut f = std::fs::File::create(tmp)?;
    f.write_all(d)?;
    std::fs::rename(tmp, p)?;
    f.sync_all()?;
    Ok(())
}

// the same protocol split over a helper (good), and a helper whose failure is ignored (bad):
// exercised through mirlib/inline.py (splice + return-variant threading)
fn control_write_durably(tmp: &std::path::Path, d: &[u8]) -> std::io::Result<std::fs::File> {
    use std::io::Write;
    let mut f = std::fs::File::create(tmp)?;
    f.write_all(d)?;
    f.sync_all()?;
    Ok(f)
}

pub fn control_store_helper_good(p: &std::path::Path, tmp: &std::path::Path, d: &[u8]) -> std::io::Result<()> {
    let _f = control_write_durably(tmp, d)?;
    match std::fs::rename(tmp, p) {
        Ok(()) => Ok(()),
        Err(e) => Err(e),
    }
}

pub fn control_store_helper_bad(p: &std::path::Path, tmp: &std::path::Path, d: &[u8]) -> std::io::Result<()> {
    let _f = control_write_durably(tmp, d);
    std::fs::rename(tmp, p)?;
    Ok(())
}

// float comparison inside a "lossless codec" (FLT-1 positive control) and its bit-pattern twin
pub fn control_float_compare(a: f64, b: f64) -> bool {
    a == b
}

pub fn control_bits_compare(a: f64, b: f64) -> bool {
    a.to_bits() == b.to_bits()
}
