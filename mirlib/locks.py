"""Lock analysis over MIR: lock identities, guard tracking, must-/may-hold sets, summaries.

Lock identity = `OwnerType.field[.tupleindex]` of the Mutex/RwLock the guard was taken on, resolved
through single-definition temporaries, Deref calls and simple accessor methods.
A fact is (lock_id, holder_local, acquire_block, mode).
"""
import re
from collections import defaultdict, deque

from .cfg import CFG
from .dataflow import DefUse, base_local, operand_place, place_fields, locals_in
from .program import norm_callee, strip_generic_args
from . import names

ACQUIRE_RE = re.compile(r'^std::sync::(?:poison::)?(Mutex|RwLock)::<.*>::(lock|read|write|try_lock|try_read|try_write)$')
WAIT_RE = re.compile(r'^std::sync::(?:poison::)?Condvar::(wait|wait_while|wait_timeout|wait_timeout_while|wait_timeout_ms)(::<.*>)?$')
NOTIFY_RE = re.compile(r'^std::sync::(?:poison::)?Condvar::(notify_all|notify_one)$')
CARRY_ADAPTERS = ('unwrap', 'expect', 'unwrap_or_else', 'ok', 'into_inner', 'map_err')

BLOCKING = {
    'std::sync::mpsc::Receiver::recv': 'mpsc recv',
    'std::sync::mpsc::Receiver::recv_timeout': 'mpsc recv',
    'std::thread::JoinHandle::join': 'thread join',
    'futures::executor::block_on': 'block_on',
    'futures_executor::block_on': 'block_on',
    'futures_executor::local_pool::block_on': 'block_on',
    'tokio::runtime::Runtime::block_on': 'block_on',
    'std::thread::sleep': 'sleep',
    'std_semaphore::Semaphore::access': 'semaphore',
    'std_semaphore::Semaphore::acquire': 'semaphore',
    'threadpool::ThreadPool::join': 'pool join',
}


def type_owner_name(ty):
    """`&std::sync::Arc<a::b::Foo<T>>` -> `Foo`."""
    if ty is None:
        return None
    t = ty.strip()
    changed = True
    while changed:
        changed = False
        for p in ('&mut ', '&', "'_ ", 'mut '):
            if t.startswith(p):
                t = t[len(p):].strip()
                changed = True
        m = re.match(r"^'[a-z_]+ (.*)$", t)
        if m:
            t = m.group(1)
            changed = True
        m = re.match(r'^(?:std|alloc)::(?:sync::Arc|boxed::Box|rc::Rc)<(.*)>$', t)
        if m:
            t = m.group(1).strip()
            changed = True
    return t


def short_type(ty):
    """Drop spaces, lifetimes and module paths: `std::sync::RwLock<a::B>` -> `RwLock<B>`."""
    t = ty.replace(' ', '')
    t = re.sub(r"'[a-z_]+,?", '', t)
    t = re.sub(r'(?:[A-Za-z_][A-Za-z0-9_]*::)+', '', t)
    return t


class LockModel:
    def __init__(self, program, ast):
        self.P = program
        self.ast = ast
        self._du = {}
        self._facts = {}
        self._summ = None
        self._accessor_cache = {}
        self._by_type = None

    def du(self, body):
        key = getattr(body, 'cache_key', body.name)
        d = self._du.get(key)
        if d is None:
            d = DefUse(body)
            self._du[key] = d
        return d

    def by_type(self):
        """Unique lock-typed struct fields: short type text -> `Struct.field`."""
        if self._by_type is None:
            seen = {}
            for sname, lst in self.ast.structs.items():
                for (_p, node) in lst:
                    for f in node.get('fields', []):
                        st = short_type(f['ty'])
                        if st.startswith(('Mutex<', 'RwLock<')):
                            seen.setdefault(st, []).append('%s.%s' % (sname, f['name']))
            self._by_type = {k: v[0] for k, v in seen.items() if len(v) == 1}
        return self._by_type

    # ------------------------------------------------------------------ identity
    def field_name(self, owner_ty, idx):
        if owner_ty is None:
            return str(idx)
        t = type_owner_name(owner_ty)
        if t.startswith('('):
            return str(idx)
        base = names.base_ident(t)
        cands = self.ast.structs.get(base, [])
        if len(cands) >= 1:
            # disambiguate by module path when possible
            node = cands[0][1]
            if len(cands) > 1:
                modpath = '/'.join(strip_generic_args(t).split('::')[:-1])
                for (p, n) in cands:
                    if modpath and (modpath + '.rs' in p or modpath + '/mod.rs' in p):
                        node = n
                        break
            fs = node.get('fields', [])
            if idx < len(fs):
                return fs[idx]['name']
        return str(idx)

    def lock_id(self, body, operand, depth=0):
        """Identity of the lock object an operand (a reference to Mutex/RwLock/Condvar) denotes."""
        du = self.du(body)
        place = operand_place(operand)
        if depth > 20:
            return '?' + place
        bl = base_local(place)
        if bl is None:
            return '?' + place
        # projections written inline in this place
        inline = self._proj_steps(body, place)
        if inline:
            owner_local_ty, steps = inline
            # resolve the base further to see whether the owner is itself a field (tuple in struct)
            prefix = None
            if type_owner_name(owner_local_ty).startswith('('):
                prefix = self.lock_id(body, 'copy _%d' % bl, depth + 1)
            label = self._label(owner_local_ty, steps)
            return (prefix + '.' + '.'.join(str(s) for s in steps)) if prefix else label
        nargs = {n for (n, _t) in body.args}
        if bl in nargs:
            ty = type_owner_name(body.local_type(bl)) or '?'
            return self.by_type().get(short_type(ty), 'arg:' + ty)
        d = du.single_def(bl)
        if d is None:
            ty = type_owner_name(body.local_type(bl))
            return 'local:' + (ty or '?')
        bid, kind, obj = d
        if kind == 'stmt':
            rhs = obj.rhs.strip()
            m = re.match(r'^&(?:mut |raw const |raw mut )?(.*)$', rhs)
            if m:
                return self.lock_id(body, m.group(1), depth + 1)
            if rhs.startswith(('move ', 'copy ')) or re.match(r'^\(?\*?\(?_\d+', rhs):
                return self.lock_id(body, rhs, depth + 1)
            return 'local:' + (type_owner_name(body.local_type(bl)) or '?')
        f = obj.func or ''
        n = norm_callee(f)
        if re.search(r'(Deref|DerefMut|__Deref)>::deref(_mut)?$', n) or n.endswith('::as_ref') \
                or n.endswith('Borrow>::borrow'):
            return self.lock_id(body, obj.args[0], depth + 1)
        if n.endswith('Clone>::clone') and obj.args:
            return self.lock_id(body, obj.args[0], depth + 1)
        # accessor method returning a reference to a field
        acc = self._accessor(f, body.crate)
        if acc:
            return acc
        return 'call:' + n

    def _proj_steps(self, body, place):
        """If place contains field projections: (type of innermost base local, [field idx...])."""
        fields = place_fields(place)
        if not fields:
            return None
        bl = base_local(place)
        return (body.local_type(bl), fields)

    def _label(self, owner_ty, steps):
        t = type_owner_name(owner_ty)
        if t is None:
            return '?'
        if t.startswith('('):
            return 'tuple.' + '.'.join(map(str, steps))
        base = names.base_ident(t)
        first = self.field_name(owner_ty, steps[0])
        rest = steps[1:]
        return base + '.' + first + ''.join('.' + str(s) for s in rest)

    def _accessor(self, func, crate):
        if func in self._accessor_cache:
            return self._accessor_cache[func]
        res = None
        bodies = self.P.resolve(func, crate)
        if len(bodies) == 1:
            b = bodies[0]
            b.parse()
            # `_0 = &((*_1).N: T)` possibly through a temp
            du = self.du(b)
            d = du.single_def(0)
            if d and d[1] == 'stmt':
                rhs = d[2].rhs
                m = re.match(r'^&(?:mut )?(.*)$', rhs)
                if m:
                    lid = self.lock_id(b, m.group(1))
                    if not lid.startswith(('?', 'call:', 'local:', 'arg:')):
                        res = lid
        self._accessor_cache[func] = res
        return res

    # ------------------------------------------------------------------ per-body facts
    def analyse(self, body):
        """Returns dict: block -> {'in_must','in_may'} plus event lists.
        Events: acquisitions [(bid, term, lock_id, mode)], calls with held sets."""
        ckey = getattr(body, 'cache_key', body.name)
        r = self._facts.get(ckey)
        if r is not None:
            return r
        body.parse()
        du = self.du(body)
        cfg = CFG(body)
        order = cfg._rpo()
        acq_events = {}
        # transfer function needs: for each block, ordered actions
        in_must = {}
        in_may = {}
        out_must = {}
        out_may = {}
        reach = cfg.reachable()

        def transfer(bid, facts, record=None):
            blk = body.blocks[bid]
            facts = set(facts)
            for idx, s in enumerate(blk.stmts):
                if s.kind == 'assign':
                    rhs = s.rhs.strip()
                    m = re.match(r'^move (_\d+)$', rhs)
                    if m:
                        src = int(m.group(1)[1:])
                        dst = base_local(s.lhs)
                        if s.lhs == '_%d' % dst:
                            moved = {f for f in facts if f[1] == src}
                            if moved:
                                facts -= moved
                                facts |= {(f[0], dst, f[2], f[3]) for f in moved}
                    elif re.search(r'move _\d+', rhs) and not rhs.startswith('&'):
                        # guard moved into an aggregate (tuple/struct/closure): keep tracking on dst
                        dst = base_local(s.lhs)
                        for src in [int(x[1:]) for x in re.findall(r'move (_\d+)\b', rhs)]:
                            moved = {f for f in facts if f[1] == src}
                            if moved and s.lhs == '_%d' % dst:
                                facts -= moved
                                facts |= {(f[0], dst, f[2], f[3]) for f in moved}
                    else:
                        # projection move out of an aggregate holder: `_a = move (_b.0: Guard)`
                        m2 = re.match(r'^move \((_\d+)\.\d+: .*Guard<', rhs)
                        if m2:
                            src = int(m2.group(1)[1:])
                            dst = base_local(s.lhs)
                            moved = {f for f in facts if f[1] == src}
                            if moved:
                                facts -= moved
                                facts |= {(f[0], dst, f[2], f[3]) for f in moved}
                if record is not None:
                    record('stmt', bid, idx, s, facts)
            t = blk.term
            if t is None:
                return facts
            if record is not None:
                record('term', bid, None, t, facts)
            if t.kind == 'call':
                f = t.func or ''
                dst = base_local(t.dest)
                moved_args = [int(x[1:]) for a in t.args for x in re.findall(r'^move (_\d+)$', a.strip())]
                ma = ACQUIRE_RE.match(f)
                if ma:
                    lid = self.lock_id(body, t.args[0])
                    mode = {'lock': 'x', 'try_lock': 'x', 'write': 'x', 'try_write': 'x',
                            'read': 'r', 'try_read': 'r'}[ma.group(2)]
                    facts.add((lid, dst, bid, mode))
                    acq_events[bid] = (t, lid, mode)
                elif WAIT_RE.match(f):
                    # guard is argument 1; rebirth on dest
                    for src in moved_args:
                        moved = {x for x in facts if x[1] == src}
                        if moved:
                            facts -= moved
                            facts |= {(x[0], dst, x[2], x[3]) for x in moved}
                elif 'Guard<' in (body.local_type(dst) or '') and not f.startswith('<') and \
                        self.returned_guard(f, body.crate, getattr(self, '_stack', ())):
                    lid, mode = self.returned_guard(f, body.crate, getattr(self, '_stack', ()))
                    facts.add((lid, dst, bid, mode))
                    acq_events[bid] = (t, lid, mode)
                else:
                    meth = norm_callee(f).split('::')[-1]
                    carried = False
                    if meth in CARRY_ADAPTERS or 'LockResult' in f:
                        for src in moved_args:
                            moved = {x for x in facts if x[1] == src}
                            if moved:
                                carried = True
                                facts -= moved
                                facts |= {(x[0], dst, x[2], x[3]) for x in moved}
                    if not carried:
                        for src in moved_args:
                            moved = {x for x in facts if x[1] == src}
                            if moved:
                                # guard handed to another function (mem::drop, a callee, a
                                # spawned closure): leaves this body's custody
                                facts -= moved
            elif t.kind == 'drop':
                pl = t.place.strip()
                m = re.match(r'^_(\d+)$', pl)
                if m:
                    src = int(m.group(1))
                    facts -= {x for x in facts if x[1] == src}
            return facts

        # drop-flag sensitivity: `switchInt(copy _flag) -> [0: A, otherwise: B]` with B = `drop(_g)`
        # means: on the edge to A the flag is false, i.e. _g is moved-from and holds nothing.
        edge_kill = {}
        for bid, blk in body.blocks.items():
            t = blk.term
            if t is None or t.kind != 'switch' or len(t.targets) != 2:
                continue
            if not re.match(r'^copy _\d+$', t.discr.strip()):
                continue
            if (body.local_type(base_local(t.discr)) or '') != 'bool':
                continue
            zero = [tg for (v, tg) in t.targets if v == '0']
            other = [tg for (v, tg) in t.targets if v != '0']
            if len(zero) != 1 or len(other) != 1:
                continue
            ob = body.blocks.get(other[0])
            if ob is not None and ob.term is not None and ob.term.kind == 'drop' and \
                    not any(s_.kind == 'assign' for s_ in ob.stmts):
                m = re.match(r'^_(\d+)$', ob.term.place.strip())
                if m:
                    edge_kill[(bid, zero[0])] = int(m.group(1))

        def along(p, b, facts):
            k = edge_kill.get((p, b))
            if k is None:
                return facts
            return {x for x in facts if x[1] != k}

        # iterate to fixpoint: may = union, must = intersection
        for b in order:
            in_may[b] = set()
            in_must[b] = None
        in_must[cfg.entry] = set()
        changed = True
        it = 0
        while changed and it < 50:
            changed = False
            it += 1
            for b in order:
                preds = [p for p in cfg.pred[b] if p in reach]
                if b != cfg.entry:
                    may = set()
                    must = None
                    for p in preds:
                        if p in out_may:
                            may |= along(p, b, out_may[p])
                        if p in out_must and out_must[p] is not None:
                            om_ = along(p, b, out_must[p])
                            must = set(om_) if must is None else (must & om_)
                    if may != in_may[b]:
                        in_may[b] = may
                        changed = True
                    if must is not None and must != in_must[b]:
                        in_must[b] = must
                        changed = True
                om = transfer(b, in_may[b])
                if out_may.get(b) != om:
                    out_may[b] = om
                    changed = True
                if in_must[b] is not None:
                    omu = transfer(b, in_must[b])
                    if out_must.get(b) != omu:
                        out_must[b] = omu
                        changed = True
        # record per-site facts
        site_may = {}
        site_must = {}

        def rec_may(kind, bid, idx, obj, facts):
            site_may[(bid, idx)] = frozenset(facts)

        def rec_must(kind, bid, idx, obj, facts):
            site_must[(bid, idx)] = frozenset(facts)

        for b in order:
            transfer(b, in_may[b], rec_may)
            if in_must[b] is not None:
                transfer(b, in_must[b], rec_must)
        r = {'cfg': cfg, 'site_may': site_may, 'site_must': site_must, 'acq': acq_events,
             'order': order}
        self._facts[ckey] = r
        return r

    def returned_guard(self, func, crate, _stack=()):
        """(lock id, mode) when `func` resolves to exactly one crate function that returns a lock guard
        it acquired itself - on every return the guard in `_0` belongs to one lock - else None.  Such a
        wrapper (`fn lock_wal_size_below_limit(&self) -> MutexGuard<u64>`) is an acquisition at its
        call site."""
        key = ('rg', func, crate)
        if key in self._facts:
            return self._facts[key]
        out = None
        try:
            cs = [c for c in self.P.resolve(func, crate) if c.kind == 'fn']
        except Exception:
            cs = []
        if len(cs) == 1 and 'Guard<' in (cs[0].ret or '') and cs[0].name not in _stack:
            G = cs[0]
            self._stack = tuple(_stack) + (G.name,)
            a = self.analyse(G)
            cfg = a['cfg']
            locks = None
            for rb in cfg.return_blocks():
                if G.blocks[rb].cleanup:
                    continue
                facts = a['site_must'].get((rb, None), frozenset())
                here = {(f[0], f[3]) for f in facts if f[1] == 0}
                locks = here if locks is None else (locks & here)
            if locks and len(locks) == 1:
                out = next(iter(locks))
        self._facts[key] = out
        return out

    def may_at(self, body, bid, idx=None):
        return self.analyse(body)['site_may'].get((bid, idx), frozenset())

    def must_at(self, body, bid, idx=None):
        return self.analyse(body)['site_must'].get((bid, idx), frozenset())

    # ------------------------------------------------------------------ summaries
    def summaries(self):
        """name -> {'acquires': {lock_id: (via path)}, 'blocking': {kind: site}} transitive over
        synchronous edges (calls and closures passed as arguments; not spawned/executed)."""
        if self._summ is not None:
            return self._summ
        P = self.P
        cg = P.callgraph()
        direct_acq = defaultdict(dict)
        direct_blk = defaultdict(dict)
        for b in P.fn_bodies():
            for blk, t in b.calls():
                if blk.cleanup:
                    continue
                f = t.func or ''
                if ACQUIRE_RE.match(f):
                    lid = self.lock_id(b, t.args[0])
                    direct_acq[b.name].setdefault(lid, (b.name, t.span.short() if t.span else None))
                n = strip_generic_args(f) if not f.startswith('<') else norm_callee(f)
                if n in BLOCKING:
                    direct_blk[b.name].setdefault(BLOCKING[n], (b.name, t.span.short() if t.span else None))
                elif WAIT_RE.match(f):
                    direct_blk[b.name].setdefault('condvar wait:' + self.lock_id(b, t.args[0]),
                                                  (b.name, t.span.short() if t.span else None))
        acq = {n: dict(v) for n, v in direct_acq.items()}
        blk = {n: dict(v) for n, v in direct_blk.items()}
        changed = True
        namesl = [b.name for b in P.fn_bodies()]
        while changed:
            changed = False
            for n in namesl:
                for (cb, kind, _b) in cg.get(n, []):
                    if kind == 'async':
                        continue
                    for lid, via in acq.get(cb.name, {}).items():
                        if lid not in acq.setdefault(n, {}):
                            acq[n][lid] = via
                            changed = True
                    for k, via in blk.get(cb.name, {}).items():
                        if k not in blk.setdefault(n, {}):
                            blk[n][k] = via
                            changed = True
        self._summ = {'acquires': acq, 'blocking': blk}
        return self._summ

    # ------------------------------------------------------------------ lock-order edges
    def order_edges(self):
        """[(held_id, acquired_id, body name, site, kind)]"""
        P = self.P
        summ = self.summaries()
        cg = P.callgraph()
        edges = []
        for b in P.fn_bodies():
            has_acq = any(ACQUIRE_RE.match(t.func or '') for _blk, t in b.calls())
            if not has_acq:
                continue
            a = self.analyse(b)
            callee_by_block = defaultdict(list)
            for (cb, kind, bid) in cg.get(b.name, []):
                if kind != 'async':
                    callee_by_block[bid].append(cb)
            for bid in a['order']:
                blk = b.blocks[bid]
                t = blk.term
                if blk.cleanup or t is None or t.kind != 'call':
                    continue
                held = self.may_at(b, bid, None)
                if not held:
                    continue
                f = t.func or ''
                site = t.span.short() if t.span else None
                if ACQUIRE_RE.match(f):
                    lid = self.lock_id(b, t.args[0])
                    for h in held:
                        edges.append((h[0], lid, b.name, site, 'direct', h[3]))
                    continue
                if WAIT_RE.match(f):
                    continue
                for cb in callee_by_block.get(bid, []):
                    for lid, via in summ['acquires'].get(cb.name, {}).items():
                        for h in held:
                            edges.append((h[0], lid, b.name, site, 'via %s' % cb.name, h[3]))
        return edges

    def blocking_under_lock(self):
        """[(held_id, blocking kind, body name, site, via)]"""
        P = self.P
        summ = self.summaries()
        cg = P.callgraph()
        out = []
        for b in P.fn_bodies():
            has_acq = any(ACQUIRE_RE.match(t.func or '') for _blk, t in b.calls())
            if not has_acq:
                continue
            a = self.analyse(b)
            callee_by_block = defaultdict(list)
            for (cb, kind, bid) in cg.get(b.name, []):
                if kind != 'async':
                    callee_by_block[bid].append(cb)
            for bid in a['order']:
                blk = b.blocks[bid]
                t = blk.term
                if blk.cleanup or t is None or t.kind != 'call':
                    continue
                held = self.may_at(b, bid, None)
                if not held:
                    continue
                f = t.func or ''
                site = t.span.short() if t.span else None
                n = strip_generic_args(f) if not f.startswith('<') else norm_callee(f)
                if n in BLOCKING:
                    for h in held:
                        out.append((h[0], BLOCKING[n], b.name, site, 'direct'))
                elif WAIT_RE.match(f):
                    # waiting releases the waited mutex; other guards stay held
                    moved = [int(x[1:]) for a_ in t.args for x in re.findall(r'^move (_\d+)$', a_.strip())]
                    for h in held:
                        if h[1] not in moved:
                            out.append((h[0], 'condvar wait', b.name, site, 'direct'))
                else:
                    for cb in callee_by_block.get(bid, []):
                        for k, via in summ['blocking'].get(cb.name, {}).items():
                            for h in held:
                                out.append((h[0], k, b.name, site, 'via %s -> %s' % (cb.name, via[0])))
        return out
