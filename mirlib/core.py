"""Check context: collects rule instances, applies known findings, writes evidence, sets exit code."""
import json
import re
import os
import sys
import time

from . import facts


class CheckerError(Exception):
    """The checker cannot bind an anchor / a floor is not met: broken check (exit 2), never a
    verdict."""


class Ctx:
    def __init__(self, prop, tier='quick', seed=0, repo=None):
        self.prop = prop
        self.tier = tier
        self.seed = seed
        self.repo = repo or facts.REPO
        self.t0 = time.time()
        self.instances = []      # dict(rule,key,ok,what,where,detail)
        self.internal_errors = []
        self.rule_docs = {}
        self.floors = {}
        self.notes = []
        self.extra = {}
        self._program = None
        self._program_rel = None
        self._ast = None
        self.assumptions = []
        self.exceptions_used = []

    # ------------------------------------------------------------------ facts
    @property
    def P(self):
        if self._program is None:
            from . import program
            self._program = program.load(self.repo, release=False)
        return self._program

    @property
    def P_release(self):
        if self._program_rel is None:
            from . import program
            self._program_rel = program.Program(self.repo, release=True, crates=['locustdb'])
        return self._program_rel

    @property
    def ast(self):
        if self._ast is None:
            from . import astlib
            self._ast = astlib.Ast(self.repo)
        return self._ast

    # ------------------------------------------------------------------ recording
    def rule(self, rule, doc, floor=None):
        self.rule_docs[rule] = doc
        if floor is not None:
            self.floors[rule] = floor

    def check(self, rule, key, ok, what, where=None, detail=None):
        """Record one rule instance. key must not contain line numbers."""
        full = '%s|%s' % (rule, key)
        # make keys unique by ordinal
        n = sum(1 for i in self.instances if i['key'] == full or i['key'].startswith(full + '#'))
        if n:
            full = '%s#%d' % (full, n + 1)
        self.instances.append({'rule': rule, 'key': full, 'ok': bool(ok), 'what': what,
                               'where': str(where) if where else None, 'detail': detail})
        return bool(ok)

    def ok(self, rule, key, what, where=None, detail=None):
        return self.check(rule, key, True, what, where, detail)

    def violation(self, rule, key, what, where=None, detail=None):
        return self.check(rule, key, False, what, where, detail)

    def note(self, text):
        self.notes.append(text)

    def require(self, cond, msg):
        if not cond:
            raise CheckerError(msg)

    def run(self, rule_fn, *args, **kw):
        """Run one rule in isolation.  A rule that cannot bind its anchor (`require` failed) does
        not abort the other rules of the check: the missing anchor is recorded as a violation of
        that rule - on a changed tree the step the rule is about has been removed or moved where
        the checker does not follow it, and either way the clause is no longer established.  An
        internal error of the checker is remembered and turns the run into exit 2 unless another
        rule reports a violation."""
        before = set(self.rule_docs)
        try:
            return rule_fn(self, *args, **kw)
        except CheckerError as e:
            new_rules = [r for r in self.rule_docs if r not in before]
            rule = new_rules[-1] if new_rules else (list(self.rule_docs)[-1] if self.rule_docs else 'ANCHOR')
            slug = re.sub(r'[^A-Za-z0-9]+', '-', str(e)).strip('-')[:70]
            self.violation(rule, 'anchor-missing|%s' % slug,
                           'the construct this rule decides is no longer found: %s (removed, or moved '
                           'where the checker does not follow it; the clause is not established)' % e,
                           None)
        except facts.FactsError:
            raise
        except Exception as e:      # a bug in the checker on unfamiliar code
            import traceback
            self.internal_errors.append('%s: %s\n%s' % (getattr(rule_fn, '__name__', rule_fn), e,
                                                         traceback.format_exc()[-1500:]))

    def exception(self, rule, site, reason):
        self.exceptions_used.append({'rule': rule, 'site': site, 'reason': reason})

    # ------------------------------------------------------------------ finish
    def finish(self, explanation, trusted_base=None, level='other'):
        known = load_known(self.prop)
        any_new = any((not i['ok']) and not (known.get(i['key'], {}).get('status') == 'open')
                      for i in self.instances)
        # floors (a run that reports a violation is never turned into a checker error by a floor:
        # the construct a violated rule is about may legitimately be absent)
        for rule, floor in ([] if any_new else list(self.floors.items())):
            n = sum(1 for i in self.instances if i['rule'] == rule)
            failing = sum(1 for i in self.instances if i['rule'] == rule and not i['ok'])
            # a rule that reports a violation has matched the construct it is about; the floor only
            # guards against rules that pass vacuously
            if n < floor and not failing:
                raise CheckerError('rule %s matched %d instances, floor is %d (vacuous rule)'
                                   % (rule, n, floor))
        if self.internal_errors and not any_new:
            raise CheckerError('internal error in %d rule(s): %s' % (len(self.internal_errors),
                                                                     self.internal_errors[0]))
        viols = [i for i in self.instances if not i['ok']]
        new = []
        known_hit = []
        for v in viols:
            k = known.get(v['key'])
            if k is not None and k.get('status') == 'open':
                known_hit.append((v, k))
            else:
                new.append(v)
        for v, k in known_hit:
            print('KNOWN-FINDING: property=%s %s [%s] at %s' % (self.prop, k.get('what', v['what']),
                                                             v['key'], v['where']))
        stale = [k for key, k in known.items() if k.get('status') == 'open'
                 and not any(v['key'] == key for v in viols)]
        for k in stale:
            print('NOTE: known finding no longer reported (repaired?): %s' % k['key'])
        evdir = os.environ.get('VERIF_EVIDENCE_DIR', os.path.join(facts.VERIF, 'evidence'))
        os.makedirs(evdir, exist_ok=True)
        replay = os.path.join(evdir, '%s.violations.json' % self.prop)
        if new:
            with open(replay, 'w') as f:
                json.dump(new, f, indent=1)
            for v in new:
                print('VIOLATION-DETAIL property=%s rule=%s key=%s at %s: %s'
                      % (self.prop, v['rule'], v['key'], v['where'], v['what']))
            print('VIOLATION property=%s replay=%s' % (self.prop, replay))
        elif os.path.exists(replay):
            os.unlink(replay)
        per_rule = {}
        for i in self.instances:
            r = per_rule.setdefault(i['rule'], {'doc': self.rule_docs.get(i['rule'], ''),
                                                'instances': 0, 'holding': 0, 'failing': 0,
                                                'floor': self.floors.get(i['rule'])})
            r['instances'] += 1
            r['holding' if i['ok'] else 'failing'] += 1
        for rule in self.rule_docs:
            per_rule.setdefault(rule, {'doc': self.rule_docs[rule], 'instances': 0, 'holding': 0,
                                       'failing': 0, 'floor': self.floors.get(rule)})
        analysed = {}
        if self._program is not None:
            analysed['crates'] = {n: len(c.bodies) for n, c in self._program.crates.items()}
            analysed['facts_dir'] = os.path.basename(self._program.facts_dir)
            analysed['cfg'] = 'lib targets, default features, dev profile (overflow checks on)'
        if self._program_rel is not None:
            analysed['release_semantics_bodies'] = {n: len(c.bodies) for n, c in
                                                   self._program_rel.crates.items()}
        if self._ast is not None:
            analysed['ast_files'] = len(self._ast.files)
            analysed['ast_fns'] = len(self._ast.fns)
        obligations = len(self.instances)
        discharged = sum(1 for i in self.instances if i['ok'])
        samples = [{'key': i['key'], 'holds': i['ok'], 'what': i['what'], 'where': i['where']}
                   for i in self.instances[:60]]
        ev = {
            'property_id': self.prop,
            'tier': self.tier,
            'seed': self.seed,
            'level': level,
            'coverage': {
                'explanation': explanation,
                'obligations': obligations,
                'discharged': discharged,
                'evaluations': max(obligations, 1),
                'distinct_nontrivial': len({i['key'] for i in self.instances}),
                'rule': 'one instance per (rule, function, site role, ordinal) found in the '
                        'current MIR / syntax tree; an instance is non-trivial when it binds a '
                        'concrete construct of the repository (all do; vacuous rules fail the '
                        'floor check instead)',
                'samples': samples,
                'checker_cmd': 'python3 /verif/run.py %s --tier %s' % (self.prop, self.tier),
                'trusted_base': trusted_base or [],
                'exhaustive': True,
                'rules': per_rule,
                'analysed': analysed,
                'exceptions_used': self.exceptions_used,
                'known_findings_reported': [v['key'] for v, _ in known_hit],
                'notes': self.notes,
                'instances': self.instances,
            },
            'assumptions': self.assumptions,
            'wall_s': round(time.time() - self.t0, 2),
            'violations': len(new),
        }
        ev['coverage'].update(self.extra)
        with open(os.path.join(evdir, '%s.json' % self.prop), 'w') as f:
            json.dump(ev, f, indent=1)
        print('%s %s: %d instances, %d hold, %d known findings, %d new violations (%.1fs)'
              % (self.prop, self.tier, obligations, discharged, len(known_hit), len(new),
                 time.time() - self.t0))
        return 1 if new else 0


def load_known(prop):
    p = os.path.join(facts.VERIF, 'known_findings.json')
    out = {}
    if os.path.exists(p):
        with open(p) as f:
            data = json.load(f)
        for e in data.get('findings', []):
            if e.get('property') == prop:
                out[e['key']] = e
    return out
