"""Access to the syn-derived syntax tree (astq output)."""
import json
import os
import subprocess

from . import facts

ASTQ = os.path.join(facts.VERIF, 'astq', 'target', 'release', 'astq')
EXCLUDE = ('_capnp.rs',)
EXCLUDE_PREFIX = ('benches/', 'locustdb-client/', 'target/')


def ast_path(repo=None):
    repo = repo or facts.REPO
    d = facts.facts_dir(repo)
    import hashlib
    with open(os.path.join(facts.VERIF, 'astq', 'src', 'main.rs'), 'rb') as fh:
        ver = hashlib.sha256(fh.read()).hexdigest()[:8]
    p = os.path.join(d, 'ast-%s.json' % ver)
    if os.path.exists(p):
        return p
    if not os.path.exists(ASTQ):
        raise facts.FactsError('astq binary missing: run MANIFEST.setup_cmd (%s)' % ASTQ)
    files = [f for f in facts.source_files(repo)
             if f.endswith('.rs') and not f.endswith(EXCLUDE) and not f.startswith(EXCLUDE_PREFIX)
             and not f.endswith('test_data.rs')]
    tmp = p + '.tmp.%d' % os.getpid()
    with open(tmp, 'wb') as fo:
        r = subprocess.run([ASTQ, repo] + files, stdout=fo, stderr=subprocess.PIPE)
    if r.returncode != 0:
        raise facts.FactsError('astq failed: ' + r.stderr.decode(errors='replace')[-2000:])
    os.replace(tmp, p)
    return p


class Ast:
    def __init__(self, repo=None):
        self.repo = repo or facts.REPO
        with open(ast_path(self.repo)) as f:
            self.files = json.load(f)
        self.by_path = {f['path']: f for f in self.files}
        self.fns = []       # (file, qual, node)  qual = 'Type::name' / '<Type as Trait>::name' / 'name'
        self.structs = {}   # name -> [(file, node)]
        self.enums = {}
        self.consts = {}
        for f in self.files:
            self._index(f['path'], f.get('items', []), [])

    def _index(self, path, items, ctx):
        for it in items:
            k = it.get('k')
            if k == 'fn':
                qual = '::'.join(ctx + [it['name']])
                self.fns.append((path, qual, it))
                # nested items in fn body
                self._index_nested(path, it.get('body'), ctx + [it['name']])
            elif k == 'impl':
                st = it['self'].replace(' ', '')
                tr = it.get('trait')
                seg = st if not tr else '<%s as %s>' % (st, tr.replace(' ', ''))
                self._index(path, it.get('items', []), ctx + [seg])
            elif k == 'mod':
                self._index(path, it.get('items', []), ctx + [it['name']])
            elif k == 'trait':
                self._index(path, it.get('items', []), ctx + [it['name']])
            elif k == 'struct':
                self.structs.setdefault(it['name'], []).append((path, it))
            elif k == 'enum':
                self.enums.setdefault(it['name'], []).append((path, it))
            elif k in ('const', 'static'):
                self.consts.setdefault(it['name'], []).append((path, it))
            elif k == 'macro_item':
                self._index(path, it.get('items', []), ctx)

    def _index_nested(self, path, body, ctx):
        if not body:
            return
        for n in walk(body, into_items=False):
            if isinstance(n, dict) and n.get('k') in ('fn', 'impl', 'struct', 'enum', 'const'):
                self._index(path, [n], ctx)

    def find_fns(self, qual, file=None):
        out = []
        for (p, q, n) in self.fns:
            if file and not p.endswith(file):
                continue
            if q == qual or q.endswith('::' + qual):
                out.append((p, q, n))
        return out

    def fn(self, qual, file=None):
        r = self.find_fns(qual, file)
        if len(r) != 1:
            raise facts.FactsError('AST anchor %r (%s): expected one fn, found %d %s'
                                   % (qual, file, len(r), [(p, q) for p, q, _ in r][:4]))
        return r[0][2]

    def fn_closure(self, qual, file=None, max_depth=4):
        """Like fn(), but the returned node's body also contains the bodies of the helper functions
        of the *same file* that the function calls (free functions, `Self::f`, `Type::f`,
        `self.f(..)`), transitively: a table (`match` over an enum, a sequence of builder calls)
        that a maintainer moved into a private helper is still found.  The original node is
        returned unchanged when there is no such helper."""
        r = self.find_fns(qual, file)
        if len(r) != 1:
            raise facts.FactsError('AST anchor %r (%s): expected one fn, found %d %s'
                                   % (qual, file, len(r), [(p, q) for p, q, _ in r][:4]))
        path, q0, node = r[0]
        local = {}
        for (p, q, n) in self.fns:
            if p == path and n.get('body') and n is not node:
                local.setdefault(q.split('::')[-1], []).append((q, n))
        seen = {id(node)}
        extra = []
        work = [(node, 0)]
        while work:
            cur, depth = work.pop(0)
            if depth >= max_depth or not cur.get('body'):
                continue
            names = []
            for x in walk(cur['body'], into_items=False):
                if not isinstance(x, dict):
                    continue
                if x.get('k') == 'call':
                    pth = (x.get('func') or {}).get('path')
                    if pth:
                        names.append(last_seg(pth))
                elif x.get('k') == 'mcall' and (x.get('recv') or {}).get('path') in ('self', 'Self'):
                    names.append(x['method'])
            for nm in names:
                cands = local.get(nm, [])
                if len(cands) != 1:
                    continue
                hn = cands[0][1]
                if id(hn) in seen:
                    continue
                seen.add(id(hn))
                extra.append(hn)
                work.append((hn, depth + 1))
        if not extra:
            return node
        merged = dict(node)
        merged['helpers'] = [h['name'] for h in extra]
        merged['body'] = {'k': 'block', 'l': node['body'].get('l'), 'c': node['body'].get('c'),
                          'el': node['body'].get('el'),
                          'stmts': [node['body']] + [h['body'] for h in extra]}
        return merged

    def expand_predicates(self, node, file, depth=2):
        """Copy of `node` in which calls to same-file functions whose body is a single expression
        (`fn deltas_fit(&self, lo, hi) -> bool { self.min >= lo && self.max <= hi }`) are replaced by
        that expression with the parameters substituted: conditions moved into predicate helpers
        read as they did before."""
        import copy as _copy
        if depth <= 0 or not isinstance(node, (dict, list)):
            return node
        if isinstance(node, list):
            return [self.expand_predicates(x, file, depth) for x in node]
        out = {}
        for k, v in node.items():
            out[k] = self.expand_predicates(v, file, depth) if isinstance(v, (dict, list)) else v
        name, args, recv = None, None, None
        if out.get('k') == 'mcall':
            name, args, recv = out['method'], out.get('args', []), out.get('recv')
        elif out.get('k') == 'call' and (out.get('func') or {}).get('path'):
            name, args = last_seg(out['func']['path']), out.get('args', [])
        if name is None:
            return out
        cands = [n for (p_, q, n) in self.fns if p_.endswith(file) and q.split('::')[-1] == name and n.get('body')]
        if len(cands) != 1:
            return out
        fn = cands[0]
        body = fn['body']
        while isinstance(body, dict) and body.get('k') == 'block' and len(body.get('stmts', [])) == 1:
            body = body['stmts'][0]
        if not isinstance(body, dict) or body.get('k') in ('block', 'let', 'for', 'while', 'loop'):
            return out
        params = [x['name'] for x in fn.get('params', [])]
        has_self = bool(params) and params[0] == 'self' or (recv is not None and len(params) == len(args) + 1)
        names = params[1:] if (recv is not None and params and params[0] == 'self') else \
            (params if len(params) == len(args) else params[-len(args):] if args else [])
        if len(names) != len(args):
            return out
        sub = dict(zip(names, args))

        def subst(n):
            if isinstance(n, list):
                return [subst(x) for x in n]
            if not isinstance(n, dict):
                return n
            if n.get('k') == 'path' and n.get('path') in sub:
                return _copy.deepcopy(sub[n['path']])
            if n.get('k') == 'path' and n.get('path') == 'self' and recv is not None:
                return _copy.deepcopy(recv)
            return {k: subst(v) if isinstance(v, (dict, list)) else v for k, v in n.items()}
        return self.expand_predicates(subst(_copy.deepcopy(body)), file, depth - 1)

    def struct(self, name, file=None):
        r = [(p, n) for (p, n) in self.structs.get(name, []) if not file or p.endswith(file)]
        if len(r) != 1:
            raise facts.FactsError('AST anchor struct %r: found %d' % (name, len(r)))
        return r[0][1]

    def enum(self, name, file=None):
        r = [(p, n) for (p, n) in self.enums.get(name, []) if not file or p.endswith(file)]
        if len(r) != 1:
            raise facts.FactsError('AST anchor enum %r: found %d' % (name, len(r)))
        return r[0][1]

    def const(self, name, file=None):
        r = [(p, n) for (p, n) in self.consts.get(name, []) if not file or p.endswith(file)]
        if len(r) != 1:
            raise facts.FactsError('AST anchor const %r: found %d' % (name, len(r)))
        return r[0][1]


def walk(node, into_items=True, into_closures=True):
    """Pre-order traversal of all dict nodes having key 'k'."""
    stack = [node]
    first = True
    while stack:
        n = stack.pop()
        if isinstance(n, dict):
            if 'k' in n:
                if not first and not into_items and n['k'] in ('fn', 'impl', 'struct', 'enum'):
                    yield n
                    continue
                yield n
                if not into_closures and n['k'] == 'closure' and not first:
                    continue
            first = False
            # push children in reverse source order
            vals = [v for v in n.values() if isinstance(v, (dict, list))]
            for v in reversed(vals):
                stack.append(v)
        elif isinstance(n, list):
            for v in reversed(n):
                stack.append(v)


def find(node, kind, **kw):
    out = []
    for n in walk(node):
        if n.get('k') == kind and all(n.get(a) == b for a, b in kw.items()):
            out.append(n)
    return out


def path_of(n):
    """Path text of a path expression / call func, else None."""
    if not isinstance(n, dict):
        return None
    if n.get('k') == 'path':
        return n['path']
    return None


def call_name(n):
    """For call nodes: callee path; for mcall: method name."""
    if n.get('k') == 'call':
        return path_of(n.get('func')) or n.get('src')
    if n.get('k') == 'mcall':
        return n['method']
    return None


def last_seg(path):
    if path is None:
        return None
    # strip generics
    depth = 0
    out = []
    for c in path:
        if c == '<':
            depth += 1
        elif c == '>':
            depth -= 1
        elif depth == 0:
            out.append(c)
    return ''.join(out).rstrip(':').split('::')[-1]


def pat_paths(p):
    """All enum-variant-like paths named in a pattern (through or/ref/box/tuple)."""
    out = []
    for n in walk(p):
        if n.get('k') in ('p_path', 'p_tuple_struct', 'p_struct'):
            out.append(n['path'])
        elif n.get('k') == 'p_ident' and n['name'][:1].isupper():
            out.append(n['name'])
    return out


def top_pat_variants(p):
    """Variant paths at the top of an arm pattern (through `|`, `&`, `box`, parens)."""
    k = p.get('k')
    if k == 'p_or':
        out = []
        for c in p['cases']:
            out += top_pat_variants(c)
        return out
    if k in ('p_ref', 'p_box', 'p_type'):
        return top_pat_variants(p['pat'])
    if k in ('p_path', 'p_tuple_struct', 'p_struct'):
        return [p['path']]
    if k == 'p_ident':
        if p.get('sub'):
            return top_pat_variants(p['sub'])
        if p['name'][:1].isupper():
            return [p['name']]
        return ['_']
    if k == 'p_wild':
        return ['_']
    if k == 'p_lit':
        return ['lit:' + p['value']]
    if k == 'p_tuple':
        return ['tuple']
    return ['?' + k]


def int_value(node, ast=None, file=None, depth=0):
    """Value of an integer constant expression: a literal, a named `const` of the crate (same file
    preferred), parentheses, `|`, `&`, `+`, `<<` of such.  None when it is anything else."""
    if not isinstance(node, dict) or depth > 6:
        return None
    k = node.get('k')
    if k == 'lit' and 'int' in node:
        try:
            return int(node['int'])
        except (TypeError, ValueError):
            return None
    if k in ('paren', 'group', 'cast'):
        return int_value(node.get('expr') or node.get('e'), ast, file, depth + 1)
    if k == 'path' and ast is not None:
        nm = node['path'].split('::')[-1]
        cs = [(p_, c) for (p_, c) in ast.consts.get(nm, [])]
        if file:
            same = [(p_, c) for (p_, c) in cs if p_.endswith(file) or file.endswith(p_)]
            cs = same or cs
        if len(cs) == 1:
            return int_value(cs[0][1].get('expr'), ast, file, depth + 1)
        return None
    if k == 'binary' and node.get('op') in ('|', '&', '+', '<<'):
        l = int_value(node.get('lhs'), ast, file, depth + 1)
        r = int_value(node.get('rhs'), ast, file, depth + 1)
        if l is None or r is None:
            return None
        return {'|': l | r, '&': l & r, '+': l + r, '<<': l << r}[node['op']]
    return None


def strings_in(node, ast=None):
    """String literals in node; with `ast`, identifiers naming a string constant are resolved."""
    out = [n['str'] for n in walk(node) if n.get('k') == 'lit' and 'str' in n]
    if ast is not None:
        for n in walk(node):
            if n.get('k') == 'path':
                nm = n['path'].split('::')[-1]
                if nm.isupper() or '_' in nm and nm.upper() == nm:
                    for (_p, c) in ast.consts.get(nm, []):
                        e = c.get('expr') or {}
                        if e.get('k') == 'lit' and 'str' in e:
                            out.append(e['str'])
    return out


def node_panics(node):
    """Does the expression (not descending into closures' deferred bodies is NOT attempted)
    contain an explicit panic macro?"""
    for n in walk(node):
        if n.get('k') == 'macro' and last_seg(n.get('path')) in (
                'panic', 'todo', 'unimplemented', 'unreachable'):
            return True
    return False


def arm_rejects(body):
    """The arm body is nothing but a panic macro (`=> panic!(..)`, `=> todo!()`, `=> { unreachable!() }`)."""
    n = body
    while isinstance(n, dict) and n.get('k') == 'block' and len(n.get('stmts', [])) == 1:
        n = n['stmts'][0]
        if n.get('k') == 'semi':
            n = n['expr']
    return isinstance(n, dict) and n.get('k') == 'macro' and last_seg(n.get('path')) in (
        'panic', 'todo', 'unimplemented', 'unreachable')
