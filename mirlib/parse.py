"""Parser for rustc's textual MIR (`-Zunpretty=mir -Zmir-include-spans=yes`).

Only the structure the rules need is recovered:
  Body: name, args, return type, locals (id -> type), debug names, basic blocks
  Block: statements (Assign / other), one terminator, cleanup flag
  Terminator kinds: call, drop, switchInt, assert, goto, return, unreachable, resume, other
The text is never evaluated; everything is syntactic.
"""
import re

SPAN_RE = re.compile(r'//\s*scope \d+ at (.*?):(\d+):(\d+): (\d+):(\d+)\s*$')
LOCAL_RE = re.compile(r'\b_(\d+)\b')
BB_RE = re.compile(r'^    bb(\d+)( \(cleanup\))?: \{$')
LET_RE = re.compile(r'^\s*let (mut )?_(\d+): (.*?);\s*(//.*)?$')
DEBUG_RE = re.compile(r'^\s*debug (\S+) => (.*?);\s*(//.*)?$')
HEADER_FN_RE = re.compile(r'^fn (.*) \{$')
HEADER_CONST_RE = re.compile(r'^(const|static|static mut) (.*) = \{$')


class Span:
    __slots__ = ('file', 'line', 'col', 'eline', 'ecol')

    def __init__(self, file, line, col, eline, ecol):
        self.file = file
        self.line = line
        self.col = col
        self.eline = eline
        self.ecol = ecol

    def __repr__(self):
        return '%s:%d:%d' % (self.file, self.line, self.col)

    def short(self):
        return '%s:%d' % (self.file, self.line)

    def is_local(self):
        return not self.file.startswith('/')


def split_code_comment(line):
    """Split a MIR line into (code, span). Handles string literals containing '//'."""
    span = None
    # the trailing comment is always the last occurrence of '// scope '
    idx = line.rfind('// scope ')
    if idx >= 0:
        m = SPAN_RE.search(line, idx)
        code = line[:idx].rstrip()
        if m:
            span = Span(m.group(1), int(m.group(2)), int(m.group(3)), int(m.group(4)),
                        int(m.group(5)))
    else:
        code = line.rstrip()
    return code, span


def scan_top_level(s, start=0):
    """Yield (index, char, depth_before) for characters outside string literals, tracking bracket
    depth over () [] {} <>. `->` and `=>` are not treated as brackets. Returns list of events for
    chars in '([{<)]}>,' only (cheap)."""
    depth = 0
    i = start
    n = len(s)
    out = []
    while i < n:
        c = s[i]
        if c == '"':
            # string literal
            i += 1
            while i < n:
                if s[i] == '\\':
                    i += 2
                    continue
                if s[i] == '"':
                    break
                i += 1
            i += 1
            continue
        if c == "'":
            # char literal or lifetime: char literal is 'x' or '\x'; lifetime is 'ident
            if i + 2 < n and s[i + 1] == '\\':
                j = s.find("'", i + 2)
                if j != -1 and j - i <= 12:
                    i = j + 1
                    continue
            elif i + 2 < n and s[i + 2] == "'":
                i += 3
                continue
            i += 1
            continue
        if c in '([{':
            out.append((i, c, depth))
            depth += 1
        elif c in ')]}':
            depth -= 1
            out.append((i, c, depth))
        elif c == '<':
            # comparison operators do not occur in MIR statement text (they are Lt(..) etc.)
            # but `<<`/`<=` could occur inside const generic exprs; ignore those rare cases
            out.append((i, c, depth))
            depth += 1
        elif c == '>':
            if i > 0 and s[i - 1] in '-=':
                pass
            else:
                depth -= 1
                out.append((i, c, depth))
        elif c == ',':
            out.append((i, c, depth))
        i += 1
    return out


def split_args(s):
    """Split a comma separated operand list at depth 0."""
    args = []
    last = 0
    for (i, c, d) in scan_top_level(s):
        if c == ',' and d == 0:
            args.append(s[last:i].strip())
            last = i + 1
    tail = s[last:].strip()
    if tail:
        args.append(tail)
    return args


def find_call_parts(rhs):
    """rhs = 'FUNC(ARGS)'. Returns (func, [args]) or None."""
    ev = scan_top_level(rhs)
    # the argument list is the last '(' at depth 0 whose matching ')' is the final char
    if not rhs.endswith(')'):
        return None
    # find matching '(' of final ')'
    # events give depth; final ')' has depth_after = d; find the last '(' with depth_before == d
    close = None
    for (i, c, d) in reversed(ev):
        if i == len(rhs) - 1 and c == ')':
            close = d
            continue
        if close is not None and c == '(' and d == close:
            return rhs[:i].strip(), split_args(rhs[i + 1:-1])
    return None


class Stmt:
    __slots__ = ('code', 'span', 'lhs', 'rhs', 'kind')

    def __init__(self, code, span):
        self.code = code
        self.span = span
        self.lhs = None
        self.rhs = None
        self.kind = 'other'
        # assignment?
        if code.startswith(('StorageLive', 'StorageDead', 'nop', 'FakeRead', 'AscribeUserType',
                            'PlaceMention', 'Retag', 'Coverage', 'ConstEvalCounter',
                            'Deinit', 'BackwardIncompatibleDropHint')):
            self.kind = code.split('(')[0].rstrip(';')
            return
        idx = code.find(' = ')
        if idx > 0 and code.endswith(';'):
            lhs = code[:idx]
            if lhs.startswith('discriminant(') or lhs.startswith('_') or lhs.startswith('(') \
                    or lhs.startswith('*'):
                if lhs.startswith('discriminant('):
                    self.kind = 'setdiscr'
                else:
                    self.kind = 'assign'
                self.lhs = lhs
                self.rhs = code[idx + 3:-1]

    def __repr__(self):
        return self.code


class Term:
    __slots__ = ('code', 'span', 'kind', 'dest', 'func', 'args', 'target', 'unwind',
                 'targets', 'discr', 'place', 'cond', 'expected', 'msg', 'msg_args')

    def __init__(self, code, span):
        self.code = code
        self.span = span
        self.kind = 'other'
        self.dest = None
        self.func = None
        self.args = []
        self.target = None     # normal successor (call/drop/assert/goto)
        self.unwind = None     # cleanup successor bb id or None
        self.targets = []      # switchInt: list of (value|'otherwise', bb)
        self.discr = None
        self.place = None
        self.cond = None
        self.expected = True
        self.msg = None
        self.msg_args = []
        self._parse(code)

    def _parse_arrow(self, tail):
        # tail like '[return: bb1, unwind: bb2]' / '[return: bb1, unwind continue]' /
        # 'unwind continue' (diverging) / '[success: bb1, unwind ...]'
        m = re.search(r'(?:return|success): bb(\d+)', tail)
        if m:
            self.target = int(m.group(1))
        m = re.search(r'unwind: bb(\d+)', tail)
        if m:
            self.unwind = int(m.group(1))
        m = re.match(r'^bb(\d+)$', tail.strip())
        if m:  # diverging call: the only successor is the cleanup block
            self.unwind = int(m.group(1))

    def _parse(self, code):
        c = code
        if c.endswith(';'):
            c = c[:-1]
        if c == 'return':
            self.kind = 'return'
            return
        if c == 'unreachable':
            self.kind = 'unreachable'
            return
        if c in ('resume', 'abort', 'terminate', 'coroutine_drop') or c.startswith('terminate('):
            self.kind = 'resume'
            return
        if c.startswith('goto -> bb'):
            self.kind = 'goto'
            self.target = int(c[len('goto -> bb'):])
            return
        if c.startswith('falseEdge') or c.startswith('falseUnwind'):
            self.kind = 'goto'
            m = re.search(r'real: bb(\d+)', c)
            self.target = int(m.group(1))
            return
        if c.startswith('switchInt('):
            self.kind = 'switch'
            idx = c.rfind(') -> [')
            self.discr = c[len('switchInt('):idx]
            for part in c[idx + 6:-1].split(', '):
                k, v = part.split(': bb')
                self.targets.append((k.strip(), int(v)))
            return
        if c.startswith('drop('):
            self.kind = 'drop'
            idx = c.rfind(') -> ')
            self.place = c[len('drop('):idx]
            self._parse_arrow(c[idx + 5:])
            return
        if c.startswith('assert('):
            self.kind = 'assert'
            idx = c.rfind(') -> ')
            inner = c[len('assert('):idx]
            self._parse_arrow(c[idx + 5:])
            parts = split_args(inner)
            cond = parts[0]
            if cond.startswith('!'):
                self.expected = False
                cond = cond[1:]
            self.cond = cond
            self.msg = parts[1] if len(parts) > 1 else ''
            self.msg_args = parts[2:]
            return
        # call:   DEST = FUNC(ARGS) -> [return: bbN, unwind ...]   or  -> unwind continue (diverging)
        idx = c.rfind(') -> ')
        eq = c.find(' = ')
        if idx > 0 and eq > 0:
            self.kind = 'call'
            self.dest = c[:eq]
            parts = find_call_parts(c[eq + 3:idx + 1])
            if parts:
                self.func, self.args = parts
            else:
                self.func = c[eq + 3:idx + 1]
            self._parse_arrow(c[idx + 5:])
            return
        self.kind = 'other'

    def successors(self, unwind=False):
        s = []
        if self.kind == 'switch':
            s = [b for (_, b) in self.targets]
        elif self.target is not None:
            s = [self.target]
        if unwind and self.unwind is not None:
            s = s + [self.unwind]
        return s

    def __repr__(self):
        return self.code


class Block:
    __slots__ = ('id', 'cleanup', 'stmts', 'term')

    def __init__(self, id, cleanup):
        self.id = id
        self.cleanup = cleanup
        self.stmts = []
        self.term = None


class Body:
    def __init__(self, header, kind, lines, lineno):
        self.header = header
        self.kind = kind            # 'fn' | 'const' | 'static' | 'promoted'
        self._lines = lines
        self.lineno = lineno
        self.raw_name = None
        self.args = []              # [(local, type)]
        self.ret = None
        self.name = None            # canonical name (set by naming)
        self.impl_span = None
        self._parsed = False
        self.locals = {}
        self.debug = {}             # name -> place text (first occurrence)
        self.debug_all = []         # [(name, place)]
        self.blocks = {}
        self._parse_header()

    def _parse_header(self):
        h = self.header
        if self.kind == 'fn':
            m = HEADER_FN_RE.match(h)
            sig = m.group(1)
            # name up to first '(' that is not inside <...>
            ev = scan_top_level(sig)
            par = None
            for (i, c, d) in ev:
                if c == '(' and d == 0:
                    par = i
                    break
            self.raw_name = sig[:par]
            # matching close
            close = None
            for (i, c, d) in ev:
                if i > par and c == ')' and d == 0:
                    close = i
                    break
            argtxt = sig[par + 1:close]
            for a in split_args(argtxt):
                mm = re.match(r'_(\d+): (.*)$', a)
                if mm:
                    self.args.append((int(mm.group(1)), mm.group(2)))
            rest = sig[close + 1:].strip()
            if rest.startswith('->'):
                self.ret = rest[2:].strip()
        else:
            m = HEADER_CONST_RE.match(h)
            body = m.group(2)
            # NAME: TYPE
            # `NAME: TYPE`; NAME may contain `<impl at f:1:2: 3:4>`, so split at depth 0
            depth = 0
            idx = -1
            for k, c in enumerate(body):
                if c == '<':
                    depth += 1
                elif c == '>' and not (k > 0 and body[k - 1] in '-='):
                    depth -= 1
                elif c == ':' and depth == 0 and body.startswith(': ', k):
                    idx = k
                    break
            self.raw_name = body[:idx]
            self.ret = body[idx + 2:]
            if 'promoted[' in self.raw_name:
                self.kind = 'promoted'

    def parse(self):
        if self._parsed:
            return self
        self._parsed = True
        cur = None
        for (num, a) in self.args:
            self.locals[num] = a
        for line in self._lines:
            if cur is None:
                m = BB_RE.match(line)
                if m:
                    cur = Block(int(m.group(1)), bool(m.group(2)))
                    self.blocks[cur.id] = cur
                    continue
                m = LET_RE.match(line)
                if m:
                    self.locals[int(m.group(2))] = m.group(3)
                    continue
                m = DEBUG_RE.match(line)
                if m:
                    self.debug_all.append((m.group(1), m.group(2)))
                    self.debug.setdefault(m.group(1), m.group(2))
                continue
            s = line.strip()
            if not s or s.startswith('//'):
                continue
            if s == '}':
                cur = None
                continue
            code, span = split_code_comment(s)
            if not code:
                continue
            # terminator detection: by syntax
            if (code.startswith(('goto ->', 'switchInt(', 'return;', 'unreachable;', 'resume;',
                                 'drop(', 'assert(', 'falseEdge', 'falseUnwind', 'abort;',
                                 'terminate', 'coroutine_drop'))
                    or ' -> [return: bb' in code or code.endswith('-> unwind continue;')
                    or re.search(r'\) -> unwind[^;]*;$', code)
                    or re.search(r'\) -> bb\d+;$', code)
                    or re.search(r'\) -> \[[^\]]*\];$', code)):
                cur.term = Term(code, span)
            else:
                cur.stmts.append(Stmt(code, span))
        self._lines = None
        if 0 in self.locals or self.ret is None:
            pass
        return self

    # ------------------------------------------------------------------ helpers
    def local_type(self, n):
        self.parse()
        return self.locals.get(n)

    def calls(self):
        self.parse()
        for b in self.blocks.values():
            t = b.term
            if t is not None and t.kind == 'call':
                yield b, t

    def span(self):
        self.parse()
        b0 = self.blocks.get(0)
        if b0:
            for s in b0.stmts:
                if s.span and s.span.is_local():
                    return s.span
            if b0.term and b0.term.span:
                return b0.term.span
        return None


def parse_file(path):
    """Returns list of Body (unparsed blocks; call .parse())."""
    bodies = []
    with open(path, 'r', errors='replace') as f:
        cur_header = None
        cur_kind = None
        cur_lines = None
        start = 0
        for ln, line in enumerate(f, 1):
            line = line.rstrip('\n')
            if cur_header is None:
                if line.startswith('fn ') and line.endswith('{'):
                    cur_header, cur_kind, cur_lines, start = line, 'fn', [], ln
                elif line.startswith(('const ', 'static ')) and line.endswith('= {'):
                    cur_header, cur_kind, cur_lines, start = line, 'const', [], ln
                continue
            if line == '}':
                bodies.append(Body(cur_header, cur_kind, cur_lines, start))
                cur_header = None
                continue
            cur_lines.append(line)
    return bodies
