"""CFG utilities over a parsed Body: normal-edge successors, dominators, reachability, worlds."""
from collections import deque


class CFG:
    def __init__(self, body, removed_edges=None, unwind=False):
        body.parse()
        self.body = body
        self.removed = set(removed_edges or [])
        self.succ = {}
        self.pred = {}
        for bid, b in body.blocks.items():
            ss = []
            if b.term is not None:
                for s in b.term.successors(unwind):
                    if (bid, s) not in self.removed and s not in ss:
                        ss.append(s)
            self.succ[bid] = ss
        for bid in body.blocks:
            self.pred[bid] = []
        for bid, ss in self.succ.items():
            for s in ss:
                self.pred[s].append(bid)
        self.entry = 0
        self._reach = None
        self._idom = None
        self._dom_sets = None

    # ---------------------------------------------------------------- reachability
    def reachable_from(self, start, avoid=()):
        """Blocks reachable from `start` (inclusive) not passing through blocks in `avoid`
        (start itself is expanded even if in avoid)."""
        avoid = set(avoid)
        seen = {start}
        dq = deque([start])
        while dq:
            x = dq.popleft()
            for s in self.succ[x]:
                if s in seen or s in avoid:
                    continue
                seen.add(s)
                dq.append(s)
        return seen

    def reachable(self):
        if self._reach is None:
            self._reach = self.reachable_from(self.entry)
        return self._reach

    def can_reach(self, a, b, avoid=()):
        """Is there a path a ->+ b (at least one edge) avoiding `avoid` blocks?"""
        avoid = set(avoid)
        seen = set()
        dq = deque(s for s in self.succ[a] if s not in avoid or s == b)
        while dq:
            x = dq.popleft()
            if x == b:
                return True
            if x in seen or x in avoid:
                continue
            seen.add(x)
            dq.extend(self.succ[x])
        return False

    # ---------------------------------------------------------------- dominators
    def dominators(self):
        """dict: block -> set of dominators (over reachable blocks)."""
        if self._dom_sets is not None:
            return self._dom_sets
        reach = self.reachable()
        order = self._rpo()
        dom = {b: None for b in order}
        dom[self.entry] = {self.entry}
        changed = True
        while changed:
            changed = False
            for b in order:
                if b == self.entry:
                    continue
                ps = [dom[p] for p in self.pred[b] if p in reach and dom.get(p) is not None]
                if not ps:
                    continue
                new = set.intersection(*ps) | {b}
                if dom[b] != new:
                    dom[b] = new
                    changed = True
        self._dom_sets = {b: (d or {b}) for b, d in dom.items()}
        return self._dom_sets

    def dominates(self, a, b):
        d = self.dominators()
        return b in d and a in d[b]

    def _rpo(self):
        seen = set()
        post = []
        stack = [(self.entry, iter(self.succ[self.entry]))]
        seen.add(self.entry)
        while stack:
            node, it = stack[-1]
            adv = False
            for s in it:
                if s not in seen:
                    seen.add(s)
                    stack.append((s, iter(self.succ[s])))
                    adv = True
                    break
            if not adv:
                post.append(node)
                stack.pop()
        post.reverse()
        return post

    # ---------------------------------------------------------------- exits
    def return_blocks(self):
        return [bid for bid, b in self.body.blocks.items()
                if b.term is not None and b.term.kind == 'return' and bid in self.reachable()]

    def must_pass_before(self, target, through, start=None):
        """Every path entry(start) -> target passes a block in `through` (target not counted)?"""
        start = self.entry if start is None else start
        through = set(through)
        if start in through:
            return True
        if start == target:
            return False
        seen = self.reachable_from(start, avoid=through)
        return target not in seen

    def must_pass_after(self, src, through, exits):
        """Every path src -> any block in exits passes a block in `through`?"""
        through = set(through)
        seen = set()
        dq = deque(self.succ[src])
        while dq:
            x = dq.popleft()
            if x in seen or x in through:
                continue
            seen.add(x)
            if x in exits:
                return False
            dq.extend(self.succ[x])
        return True

    def loop_headers(self):
        """Blocks that are targets of back edges (edge b->h where h dominates b)."""
        dom = self.dominators()
        hs = set()
        for b, ss in self.succ.items():
            if b not in dom:
                continue
            for s in ss:
                if s in dom[b]:
                    hs.add(s)
        return hs

    def in_loop(self, bid):
        """bid lies in some natural loop of the body."""
        if getattr(self, '_loop_blocks', None) is None:
            lb = set()
            for h in self.loop_headers():
                lb |= self.natural_loop(h)
            self._loop_blocks = lb
        return bid in self._loop_blocks

    def natural_loop(self, header):
        """Blocks of the natural loop(s) with this header."""
        dom = self.dominators()
        body = {header}
        stack = [b for b in self.pred[header] if b in dom and header in dom[b]]
        while stack:
            x = stack.pop()
            if x in body:
                continue
            body.add(x)
            stack.extend(self.pred[x])
        return body
