"""Fact extraction: dump MIR of the repository's crates with the repository's own pinned toolchain.

Facts are cached under /verif/.cache/facts/<tree-hash>/ and regenerated whenever the hash over
the working tree sources changes. The deciding step therefore always inspects the current source.
"""
import fcntl
import hashlib
import json
import os
import shutil
import subprocess
import sys
import time

VERIF = os.path.dirname(os.path.dirname(os.path.abspath(__file__)))
REPO = os.environ.get('VERIF_REPO', '/repo')
CACHE = os.environ.get('VERIF_CACHE', os.path.join(VERIF, '.cache'))
TARGET = os.environ.get('VERIF_TARGET', os.path.join(CACHE, 'target'))

CRATES = [
    # (crate name, cargo -p argument or None for the root package)
    ('locustdb', None),
    ('locustdb_serialization', 'locustdb-serialization'),
    ('locustdb_compression_utils', 'locustdb-compression-utils'),
]
BODY_FLOORS = {'locustdb': 3000, 'locustdb_serialization': 1000, 'locustdb_compression_utils': 10}

SRC_SUFFIXES = ('.rs', '.capnp', 'Cargo.toml', 'Cargo.lock', 'rust-toolchain', 'rust-toolchain.toml')


class FactsError(Exception):
    pass


def source_files(repo=None):
    repo = repo or REPO
    out = subprocess.run(['git', '-C', repo, 'ls-files', '-co', '--exclude-standard'],
                         capture_output=True, text=True)
    files = []
    if out.returncode == 0 and out.stdout.strip():
        cand = out.stdout.split('\n')
    else:
        cand = []
        for dp, dn, fn in os.walk(repo):
            dn[:] = [d for d in dn if d not in ('target', '.git')]
            for f in fn:
                cand.append(os.path.relpath(os.path.join(dp, f), repo))
    for f in cand:
        if not f or f.startswith('target/'):
            continue
        if f.endswith(SRC_SUFFIXES):
            if os.path.isfile(os.path.join(repo, f)):
                files.append(f)
    return sorted(set(files))


def tree_hash(repo=None):
    repo = repo or REPO
    h = hashlib.sha256()
    for f in source_files(repo):
        h.update(f.encode())
        h.update(b'\0')
        with open(os.path.join(repo, f), 'rb') as fh:
            h.update(hashlib.sha256(fh.read()).digest())
    return h.hexdigest()[:20]


def _dump_one(repo, crate, pkg, out_path, release):
    nonce = '%d_%d' % (time.time_ns(), os.getpid())
    cmd = ['cargo', 'rustc', '--offline']
    if pkg:
        cmd += ['-p', pkg]
    cmd += ['--lib', '--profile', 'check', '--', '-Zunpretty=mir', '-Zmir-include-spans=yes',
            '-Zmir-opt-level=0', '-Ztrim-diagnostic-paths=no', '-Awarnings',
            '--cfg', 'verif_nonce="%s"' % nonce]
    if release:
        cmd += ['-C', 'overflow-checks=off', '-C', 'debug-assertions=off']
    env = dict(os.environ)
    env['CARGO_NET_OFFLINE'] = 'true'
    env['CARGO_TARGET_DIR'] = TARGET
    env.pop('RUSTFLAGS', None)
    tmp = out_path + '.tmp%d' % os.getpid()
    with open(tmp, 'wb') as fo:
        p = subprocess.run(cmd, cwd=repo, env=env, stdout=fo, stderr=subprocess.PIPE)
    if p.returncode != 0:
        try:
            os.unlink(tmp)
        except OSError:
            pass
        raise FactsError('MIR dump of %s failed (does the tree compile?):\n%s'
                         % (crate, p.stderr.decode(errors='replace')[-4000:]))
    if os.path.getsize(tmp) < 1000:
        raise FactsError('MIR dump of %s is empty (cargo freshness?)' % crate)
    os.replace(tmp, out_path)


def workspace_packages(repo):
    """Names of the packages that live in the tree (root package and path members)."""
    import re
    names = set()
    for dp, dn, fn in os.walk(repo):
        dn[:] = [d for d in dn if d not in ('target', '.git', 'node_modules')]
        if dp[len(repo):].count(os.sep) > 2:
            dn[:] = []
        if 'Cargo.toml' in fn:
            try:
                txt = open(os.path.join(dp, 'Cargo.toml')).read()
            except OSError:
                continue
            m = re.search(r'(?ms)^\[package\].*?^name\s*=\s*"([^"]+)"', txt)
            if m:
                names.add(m.group(1))
    return names


def _invalidate_workspace_units(repo):
    """cargo decides the freshness of a path package by comparing source mtimes with the artifact, and
    the artifact name of a workspace member does not depend on where the workspace lies.  A tree that
    was evaluated before (a mutant whose patched file is *newer* than the sources of the next tree,
    which keep their old mtimes) would therefore leave a stale `liblocustdb_serialization-*.rmeta`
    behind, and the next tree would be compiled against it.  The fingerprints of the tree's own
    packages are removed before every dump, so they are always rebuilt from the tree being analysed."""
    import re
    names = workspace_packages(repo)
    for prof in os.listdir(TARGET) if os.path.isdir(TARGET) else []:
        fp = os.path.join(TARGET, prof, '.fingerprint')
        if not os.path.isdir(fp):
            continue
        for d in os.listdir(fp):
            m = re.match(r'^(.*)-[0-9a-f]{16}$', d)
            if m and m.group(1) in names:
                shutil.rmtree(os.path.join(fp, d), ignore_errors=True)
        deps = os.path.join(TARGET, prof, 'deps')
        if os.path.isdir(deps):
            under = {n.replace('-', '_') for n in names}
            for f in os.listdir(deps):
                m = re.match(r'^(?:lib)?(.*)-[0-9a-f]{16}\.(d|rmeta|rlib)$', f)
                if m and m.group(1) in under and f.endswith('.d'):
                    try:
                        os.unlink(os.path.join(deps, f))
                    except OSError:
                        pass


def facts_dir(repo=None, release=False):
    """Ensure facts for the current tree exist; returns the directory."""
    repo = repo or REPO
    th = tree_hash(repo)
    d = os.path.join(CACHE, 'facts', th + ('-rel' if release else ''))
    marker = os.path.join(d, 'OK')
    if os.path.exists(marker):
        return d
    os.makedirs(os.path.join(CACHE, 'facts'), exist_ok=True)
    # the lock serialises cargo on one target directory: a worker with its own target has its own lock
    lockf = open(TARGET.rstrip('/') + '.lock' if 'VERIF_TARGET' in os.environ else os.path.join(CACHE, 'facts.lock'), 'w')
    fcntl.flock(lockf, fcntl.LOCK_EX)
    try:
        if os.path.exists(marker):
            return d
        os.makedirs(d, exist_ok=True)
        t0 = time.time()
        crates = CRATES if not release else CRATES[:1]
        _invalidate_workspace_units(repo)
        for crate, pkg in crates:
            _dump_one(repo, crate, pkg, os.path.join(d, crate + '.mir'), release)
        with open(marker, 'w') as f:
            json.dump({'tree_hash': th, 'repo': repo, 'dump_s': round(time.time() - t0, 1),
                       'release': release}, f)
        _gc(keep=d)
        return d
    finally:
        fcntl.flock(lockf, fcntl.LOCK_UN)
        lockf.close()


def _gc(keep, max_dirs=16):
    root = os.path.join(CACHE, 'facts')
    ds = [os.path.join(root, x) for x in os.listdir(root) if os.path.isdir(os.path.join(root, x))]
    ds.sort(key=lambda p: os.path.getmtime(p))
    while len(ds) > max_dirs:
        victim = ds.pop(0)
        if victim != keep:
            shutil.rmtree(victim, ignore_errors=True)


if __name__ == '__main__':
    print(facts_dir(release='--release' in sys.argv))
