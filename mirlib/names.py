"""Canonical, line-number-free names for MIR bodies.

rustc prints impl blocks as `<impl at FILE:L:C: L2:C2>`; the span covers the impl header
(`impl<T> Trait for Type`) or, for derives, the derive name. We read the header from the
current source and turn it into `Type` / `<Type as Trait>`.
"""
import os
import re

IMPL_AT_RE = re.compile(r'<impl at (.*?):(\d+):(\d+): (\d+):(\d+)>')
_src_cache = {}


def _read(path):
    if path not in _src_cache:
        try:
            with open(path, 'r', errors='replace') as f:
                _src_cache[path] = f.read().split('\n')
        except OSError:
            _src_cache[path] = None
    return _src_cache[path]


def clear_cache():
    _src_cache.clear()


def _strip_balanced(s, open_c='<', close_c='>'):
    """s starts with open_c; return remainder after the balanced group."""
    depth = 0
    i = 0
    while i < len(s):
        c = s[i]
        if c == open_c:
            depth += 1
        elif c == close_c and not (i > 0 and s[i - 1] in '-='):
            depth -= 1
            if depth == 0:
                return s[i + 1:]
        i += 1
    return ''


def base_ident(ty):
    """Last path segment of a type without generic args: `a::b::Foo<'a, T>` -> `Foo`."""
    ty = ty.strip()
    while ty.startswith('&'):
        ty = ty[1:].strip()
        if ty.startswith('mut '):
            ty = ty[4:]
        if ty.startswith("'"):
            ty = ty.split(' ', 1)[1] if ' ' in ty else ty
    if ty.startswith('dyn '):
        ty = ty[4:]
    # cut generics
    depth = 0
    out = []
    for c in ty:
        if c == '<':
            depth += 1
        elif c == '>':
            depth -= 1
        elif depth == 0:
            out.append(c)
    flat = ''.join(out).strip()
    flat = flat.split(' ')[0] if flat and not flat.startswith(('(', '[')) else flat
    return flat.split('::')[-1]


def impl_header(root, file, l1, c1, l2, c2):
    path = file if file.startswith('/') else os.path.join(root, file)
    lines = _read(path)
    if lines is None or l1 > len(lines):
        return None
    if l1 == l2:
        text = lines[l1 - 1][c1 - 1:c2 - 1]
    else:
        parts = [lines[l1 - 1][c1 - 1:]] + lines[l1:l2 - 1] + [lines[l2 - 1][:c2 - 1]]
        text = ' '.join(parts)
    text = re.sub(r'\s+', ' ', text).strip()
    return text, lines, l1


def describe_impl(root, file, l1, c1, l2, c2):
    """-> (self_type_text, trait_text_or_None)"""
    r = impl_header(root, file, l1, c1, l2, c2)
    if r is None:
        return ('?%s:%d' % (os.path.basename(file), l1), None)
    text, lines, line = r
    if text.startswith('unsafe '):
        text = text[7:]
    if text.startswith('impl'):
        rest = text[4:].strip()
        if rest.startswith('<'):
            rest = _strip_balanced(rest).strip()
        # cut where clause
        w = re.search(r'\bwhere\b', rest)
        if w:
            rest = rest[:w.start()].strip()
        m = re.match(r'^(.*?)\s+for\s+(.*)$', rest)
        if m and not rest.startswith('for<'):
            return (m.group(2).strip(), m.group(1).strip().lstrip('!'))
        return (rest, None)
    # derive or attribute macro: text is the derive name / attribute
    ty = None
    for k in range(line - 1, min(line + 40, len(lines))):
        m = re.match(r'\s*(?:pub(?:\([a-z:]+\))?\s+)?(?:struct|enum|union)\s+([A-Za-z_][A-Za-z0-9_]*)',
                     lines[k])
        if m:
            ty = m.group(1)
            break
    if ty is None:
        # attribute macros on fns (actix `#[get("/")] async fn index`)
        for k in range(line - 1, min(line + 10, len(lines))):
            m = re.match(r'\s*(?:pub\s+)?(?:async\s+)?fn\s+([A-Za-z_][A-Za-z0-9_]*)', lines[k])
            if m:
                return (m.group(1), 'attr:' + re.sub(r'\(.*', '', text).strip('#[] '))
        return ('?%s:%d' % (os.path.basename(file), line), 'derive:' + text)
    return (ty, 'derive:' + text)


def canonical(raw_name, root):
    """Replace every `<impl at ..>` in a raw body name."""
    def repl(m):
        file, l1, c1, l2, c2 = m.group(1), int(m.group(2)), int(m.group(3)), int(m.group(4)), \
            int(m.group(5))
        if file.startswith('/') and '/registry/' in file:
            return '<macro-impl %s:%d>' % (os.path.basename(os.path.dirname(os.path.dirname(file)))
                                           if file.endswith('lib.rs') else os.path.basename(file),
                                           l1)
        st, tr = describe_impl(root, file, l1, c1, l2, c2)
        if tr is None or tr.startswith('attr:'):
            return st
        return '<%s as %s>' % (st, tr)
    return IMPL_AT_RE.sub(repl, raw_name)


def impl_info(raw_name, root):
    """For a body defined directly in an impl: (self_base, trait_base_or_None, method, self_text,
    trait_text) for the LAST impl segment of the name, else None."""
    ms = list(IMPL_AT_RE.finditer(raw_name))
    if not ms:
        return None
    m = ms[-1]
    tail = raw_name[m.end():]
    if not tail.startswith('::'):
        return None
    method = tail[2:]
    file, l1, c1, l2, c2 = m.group(1), int(m.group(2)), int(m.group(3)), int(m.group(4)), \
        int(m.group(5))
    st, tr = describe_impl(root, file, l1, c1, l2, c2)
    if tr is None:
        tb = None
    elif tr.startswith('derive:'):
        tb = tr[7:]
    elif tr.startswith('attr:'):
        tb = tr
    else:
        tb = base_ident(tr)
    return (base_ident(st), tb, method, st, tr)
