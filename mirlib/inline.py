"""Selective MIR inlining with return-variant threading.

Rules that decide ordering by dominance inside one anchor function (`store`, `wal_flush`,
`persist_metastore`, ...) would otherwise raise a false alarm as soon as a maintainer extracts part
of the protocol into a helper.  `inline(P, body, want)` returns a *new* Body in which every call to
a uniquely resolved crate function G with want(G) is replaced by a renamed copy of G's blocks.

Path sensitivity across the call boundary ("the helper returned Ok" <=> "the caller's `?` took the
continue edge") is recovered syntactically:
  * G's blocks are duplicated per *return variant* (S = Ok/Some assigned to `_0`, F = Err/None or a
    `from_residual` call, U = unknown) - a product construction over a 3-valued flag;
  * in the caller, the straight-line chain from the call's return block to the first `switchInt` on
    the discriminant of the result (directly, or through `Try::branch`, `map_err`, `map`, `ok_or`,
    `unwrap`/`expect`) is copied once per known variant with the switch replaced by a `goto` to the
    matching target (jump threading).
Nothing is evaluated; the construction only removes paths that contradict the variant assigned on
them.  Unknown variants keep the original (merging) continuation, so the result over-approximates
the feasible paths of the real program."""
import copy
import re

from .parse import Block, Stmt, Term

_LIT = re.compile(r'"(?:[^"\\]|\\.)*"|\'(?:[^\'\\]|\\.)\'')
_LOC = re.compile(r'(?<![A-Za-z0-9_])_(\d+)\b')
_BB = re.compile(r'\bbb(\d+)\b')


def _rn(s, K, B):
    if K:
        s = _LOC.sub(lambda m: '_%d' % (int(m.group(1)) + K), s)
    if B:
        s = _BB.sub(lambda m: 'bb%d' % (int(m.group(1)) + B), s)
    return s


def rename(code, K, B):
    out = []
    last = 0
    for m in _LIT.finditer(code):
        out.append(_rn(code[last:m.start()], K, B))
        out.append(m.group(0))
        last = m.end()
    out.append(_rn(code[last:], K, B))
    return ''.join(out)


def _retarget(term_code, mapping):
    """Rewrite bbN -> bbM in a terminator text (outside literals)."""
    def sub(s):
        return _BB.sub(lambda m: 'bb%d' % mapping.get(int(m.group(1)), int(m.group(1))), s)
    out = []
    last = 0
    for m in _LIT.finditer(term_code):
        out.append(sub(term_code[last:m.start()]))
        out.append(m.group(0))
        last = m.end()
    out.append(sub(term_code[last:]))
    return ''.join(out)


SUCC = 'S'
FAIL = 'F'
UNK = 'U'

_OK_AGG = re.compile(r'^(std|core)::(result::Result::<.*>::Ok|option::Option::<.*>::Some)\(')
_ERR_AGG = re.compile(r'^(std|core)::(result::Result::<.*>::Err\(|option::Option::<.*>::None\b)')


def _variant_after_block(blk, v):
    """Return variant of `_0` at the end of blk given v at its start (callee numbering)."""
    for s in blk.stmts:
        if s.kind == 'assign' and s.lhs.strip() == '_0':
            r = s.rhs.strip()
            if _OK_AGG.match(r):
                v = SUCC
            elif _ERR_AGG.match(r):
                v = FAIL
            else:
                v = UNK
        elif s.kind == 'setdiscr' and s.lhs.startswith('discriminant(_0)'):
            v = UNK
    t = blk.term
    if t is not None and t.kind == 'call' and (t.dest or '').strip() == '_0':
        f = t.func or ''
        if 'FromResidual' in f and 'from_residual' in f:
            v = FAIL
        else:
            v = UNK
    return v


def _is_result_type(ty):
    ty = (ty or '').strip()
    if re.match(r'^(std|core)::result::Result<', ty):
        return 'result'
    if re.match(r'^(std|core)::option::Option<', ty):
        return 'option'
    if re.match(r'^(std|core)::ops::ControlFlow<', ty):
        return 'cf'
    return None


_DISCR_OF = {  # type kind -> {variant: discriminant value}
    'result': {SUCC: '0', FAIL: '1'},
    'option': {SUCC: '1', FAIL: '0'},
    'cf': {SUCC: '0', FAIL: '1'},
}

_PRESERVING = ('::map_err', '::map', '::ok_or', '::ok_or_else', '::ok', '::or_else', '::and_then',
               '::context', '::with_context', '::into', '::from')


def _dispatch_chain(nb, start, dest_local, max_len=5):
    """Follow the straight-line chain from block `start` to the first switch on the discriminant of
    (a value derived from) `dest_local`.  Returns (chain block ids, {variant: target}) or None.
    Also recognises unwrap/expect on the carrier: returns (chain up to that call, {'F': None}) with
    'unwrap' marker."""
    carriers = {dest_local: _is_result_type(nb.locals.get(dest_local))}
    if carriers[dest_local] is None:
        return None
    discr = {}    # local -> type kind of the value whose discriminant it holds
    chain = []
    cur = start
    for _i in range(max_len):
        blk = nb.blocks.get(cur)
        if blk is None or blk.cleanup or cur in chain:
            return None
        chain.append(cur)
        for s in blk.stmts:
            if s.kind != 'assign':
                continue
            m = re.match(r'^_(\d+)$', s.lhs.strip())
            if not m:
                continue
            d = int(m.group(1))
            r = s.rhs.strip()
            mm = re.match(r'^(?:move|copy) _(\d+)$', r)
            if mm and int(mm.group(1)) in carriers:
                carriers[d] = carriers[int(mm.group(1))]
                continue
            mm = re.match(r'^discriminant\(_(\d+)\)$', r)
            if mm and int(mm.group(1)) in carriers:
                discr[d] = carriers[int(mm.group(1))]
                continue
            mm = re.match(r'^(?:move|copy) _(\d+)$', r)
            if mm and int(mm.group(1)) in discr:
                discr[d] = discr[int(mm.group(1))]
        t = blk.term
        if t is None:
            return None
        if t.kind == 'goto':
            cur = t.target
            continue
        if t.kind == 'call':
            a0 = re.match(r'^(?:move|copy) _(\d+)$', t.args[0].strip()) if t.args else None
            dm = re.match(r'^_(\d+)$', (t.dest or '').strip())
            f = t.func or ''
            if a0 and int(a0.group(1)) in carriers and dm and t.target is not None:
                d = int(dm.group(1))
                if re.search(r'Try>::branch$', f.split('(')[0].strip()) or 'Try>::branch' in f:
                    carriers[d] = 'cf'
                    cur = t.target
                    continue
                if re.search(r'::(unwrap|expect)(::<.*>)?$', f):
                    return chain, {'unwrap': True}
                k = _is_result_type(nb.locals.get(d))
                if k in ('result', 'option') and any(f.endswith(p) or (p + '::<') in f for p in _PRESERVING):
                    carriers[d] = k
                    cur = t.target
                    continue
            return None
        if t.kind == 'switch':
            mm = re.match(r'^(?:move|copy) _(\d+)$', (t.discr or '').strip())
            if not mm or int(mm.group(1)) not in discr:
                return None
            kind = discr[int(mm.group(1))]
            tg = dict(t.targets)
            out = {}
            for v in (SUCC, FAIL):
                val = _DISCR_OF[kind][v]
                if val in tg:
                    out[v] = tg[val]
                elif 'otherwise' in tg:
                    # two-way switch `[0: a, otherwise: b]`
                    out[v] = tg['otherwise']
            return chain, out
        return None
    return None


def _new_block(nb, cleanup=False):
    nid = max(nb.blocks) + 1
    b = Block(nid, cleanup)
    nb.blocks[nid] = b
    return b


def _copy_body(body):
    body.parse()
    nb = copy.copy(body)
    nb.blocks = {}
    for bid, blk in body.blocks.items():
        b = Block(bid, blk.cleanup)
        b.stmts = list(blk.stmts)
        b.term = blk.term
        nb.blocks[bid] = b
    nb.locals = dict(body.locals)
    nb.inlined = list(getattr(body, 'inlined', []))
    nb.cache_key = getattr(body, 'cache_key', body.name) + '#inl'
    return nb


def _splice(nb, cblk, callee, thread=True):
    """Replace the call terminating `cblk` (a Block of nb) by a copy of `callee`."""
    t = cblk.term
    callee.parse()
    K = max(nb.locals) + 1 if nb.locals else 1
    span = t.span
    # ---- caller-side continuation per variant
    dest = (t.dest or '').strip()
    dm = re.match(r'^_(\d+)$', dest)
    cont = {UNK: t.target, SUCC: t.target, FAIL: t.target}
    if thread and dm and t.target is not None:
        dc = _dispatch_chain(nb, t.target, int(dm.group(1)))
        if dc:
            chain, tg = dc
            if tg.get('unwrap'):
                dead = _new_block(nb)
                dead.term = Term('resume;', span)
                cont[FAIL] = dead.id
            else:
                for v in (SUCC, FAIL):
                    if v not in tg:
                        continue
                    # copy the chain, last switch replaced by goto
                    news = [_new_block(nb) for _ in chain]
                    for i, bid in enumerate(chain):
                        src = nb.blocks[bid]
                        nk = news[i]
                        nk.stmts = list(src.stmts)
                        if i == len(chain) - 1:
                            nk.term = Term('goto -> bb%d;' % tg[v], src.term.span)
                        else:
                            nk.term = Term(_retarget(src.term.code, {chain[i + 1]: news[i + 1].id}),
                                           src.term.span)
                    cont[v] = news[0].id
    # ---- callee product construction (block, variant)
    for n, ty in callee.locals.items():
        nb.locals[n + K] = ty
    ids = {}
    work = [(0, UNK)]
    order = []
    while work:
        key = work.pop()
        if key in ids:
            continue
        blk = callee.blocks.get(key[0])
        if blk is None:
            continue
        nbk = _new_block(nb, blk.cleanup)
        ids[key] = nbk.id
        order.append(key)
        v2 = _variant_after_block(blk, key[1]) if not blk.cleanup else key[1]
        tt = blk.term
        succs = []
        if tt is not None:
            succs = tt.successors(unwind=True)
        for sidx in succs:
            work.append((sidx, v2))
    for key in order:
        blk = callee.blocks[key[0]]
        nbk = nb.blocks[ids[key]]
        nbk.stmts = [Stmt(rename(s.code, K, 0), s.span) for s in blk.stmts]
        v2 = _variant_after_block(blk, key[1]) if not blk.cleanup else key[1]
        tt = blk.term
        if tt is None:
            continue
        if tt.kind == 'return':
            target = cont[v2]
            if dest and target is not None:
                nbk.stmts.append(Stmt('%s = move _%d;' % (dest, K), tt.span))
                nbk.term = Term('goto -> bb%d;' % target, tt.span)
            elif target is not None:
                nbk.term = Term('goto -> bb%d;' % target, tt.span)
            else:
                nbk.term = Term('unreachable;', tt.span)
            continue
        if tt.kind == 'resume' and blk.cleanup and t.unwind is not None:
            nbk.term = Term('goto -> bb%d;' % t.unwind, tt.span)
            continue
        mapping = {}
        for sidx in tt.successors(unwind=True):
            mapping[sidx] = ids[(sidx, v2)]
        code = rename(tt.code, K, 0)
        nbk.term = Term(_retarget(code, mapping), tt.span)
    # ---- entry: bind parameters, jump to the callee entry
    for i, (ln, _ty) in enumerate(callee.args):
        if i < len(t.args):
            cblk.stmts.append(Stmt('_%d = %s;' % (ln + K, t.args[i]), span))
    cblk.term = Term('goto -> bb%d;' % ids[(0, UNK)], span)
    nb.inlined.append(callee.name)


def inline(P, body, want, max_rounds=3, max_callee_blocks=400, thread=True):
    """New Body with calls to crate functions G (uniquely resolved, not recursive) with want(G)
    replaced by G's blocks.  `nb.inlined` lists the spliced callees in order."""
    nb = _copy_body(body)
    stack = {body.name}
    for _round in range(max_rounds):
        sites = []
        for bid in sorted(nb.blocks):
            blk = nb.blocks[bid]
            t = blk.term
            if blk.cleanup or t is None or t.kind != 'call' or not t.func:
                continue
            if t.func.startswith(('move _', 'copy _')):
                continue
            cands = P.resolve(t.func, body.crate)
            if len(cands) != 1:
                continue
            g = cands[0]
            if g.kind != 'fn' or g.name in stack or g.crate != body.crate:
                continue
            g.parse()
            if len(g.blocks) > max_callee_blocks or len(g.args) != len(t.args):
                continue
            if not want(g):
                continue
            sites.append((blk, g))
        if not sites:
            break
        for blk, g in sites:
            _splice(nb, blk, g, thread=thread)
        for _b, g in sites:
            stack.add(g.name)
    return nb


def _helper_graph(P, closures=True):
    """name -> set of names: uniquely resolved same-crate callees (+ closures created in or handed
    out by the body). Computed once per Program."""
    key = '_helper_graph_%s' % closures
    g = getattr(P, key, None)
    if g is not None:
        return g
    g = {}
    for b in P.fn_bodies():
        b.parse()
        out = set()
        for blk in b.blocks.values():
            if blk.cleanup:
                continue
            if closures:
                for s in blk.stmts:
                    if s.kind == 'assign' and s.rhs and s.rhs.startswith('{'):
                        for cb in P.closures_in_text(s.rhs.split('}')[0] + '}'):
                            if cb is not b:
                                out.add(cb.name)
            t = blk.term
            if t is None or t.kind != 'call' or not t.func:
                continue
            cs = P.resolve(t.func, b.crate)
            if len(cs) == 1 and cs[0].crate == b.crate and cs[0].kind == 'fn' and cs[0] is not b:
                out.add(cs[0].name)
            if closures:
                for cb in P.closures_in_text(t.func):
                    if cb is not b:
                        out.add(cb.name)
        g[b.name] = out
    setattr(P, key, g)
    return g


def reaches(P, pred, crate='locustdb', closures=True):
    """want-predicate factory: G qualifies if G (transitively, through uniquely resolved crate
    callees and - with closures=True - closures created in or handed out by G) contains a call
    whose normalised callee satisfies pred.  Least fixpoint over the helper graph."""
    from .program import norm_callee
    g = _helper_graph(P, closures)
    yes = set()
    for b in P.fn_bodies():
        for blk, t in b.calls():
            if not blk.cleanup and t.func and pred(norm_callee(t.func)):
                yes.add(b.name)
                break
    rev = {}
    for a, outs in g.items():
        for o in outs:
            rev.setdefault(o, set()).add(a)
    work = list(yes)
    while work:
        x = work.pop()
        for a in rev.get(x, ()):
            if a not in yes:
                yes.add(a)
                work.append(a)

    def has(body):
        return body.name in yes
    return has
