"""Intraprocedural, flow-insensitive def/use utilities over MIR text.

Over-approximate "may derive from": local L derives from X if X occurs in the right-hand side of
some assignment (or as an argument of a call) whose destination's base local is L, transitively.
"""
import re
from collections import defaultdict

LOCAL_RE = re.compile(r'\b_(\d+)\b')
STR_RE = re.compile(r'"(?:[^"\\]|\\.)*"')


def strip_strings(s):
    return STR_RE.sub('""', s)


def locals_in(text):
    if text is None:
        return []
    return [int(x) for x in LOCAL_RE.findall(strip_strings(text))]


def base_local(place):
    """First local mentioned in a place/operand text."""
    m = LOCAL_RE.search(strip_strings(place or ''))
    return int(m.group(1)) if m else None


def operand_place(op):
    op = op.strip()
    for p in ('move ', 'copy '):
        if op.startswith(p):
            return op[len(p):]
    return op


def is_const(op):
    return op.strip().startswith('const ')


FIELD_RE = re.compile(r'\.(\d+)(?:: |\))')


def place_fields(place):
    """Field index sequence of a place text, outermost last: `((*_1).3: T)` -> [3];
    `(((*_1).3: T).0: U)` -> [3, 0]."""
    return [int(x) for x in re.findall(r'\.(\d+): ', place)]


class DefUse:
    def __init__(self, body):
        body.parse()
        self.body = body
        self.defs = defaultdict(list)     # local -> [(blk id, 'stmt'|'term', obj)]
        self.uses = defaultdict(list)     # local -> [(blk id, kind, obj)]
        for bid, blk in body.blocks.items():
            for s in blk.stmts:
                if s.kind == 'assign':
                    bl = base_local(s.lhs)
                    if bl is not None:
                        self.defs[bl].append((bid, 'stmt', s))
                    for u in locals_in(s.rhs):
                        self.uses[u].append((bid, 'stmt', s))
                    # projections on lhs also use locals (index)
                elif s.kind == 'setdiscr':
                    pass
            t = blk.term
            if t is None:
                continue
            if t.kind == 'call':
                bl = base_local(t.dest)
                if bl is not None:
                    self.defs[bl].append((bid, 'term', t))
                for a in t.args:
                    for u in locals_in(a):
                        self.uses[u].append((bid, 'term', t))
                if t.func and (t.func.startswith(('move _', 'copy _'))):
                    for u in locals_in(t.func):
                        self.uses[u].append((bid, 'term', t))
            elif t.kind in ('switch',):
                for u in locals_in(t.discr):
                    self.uses[u].append((bid, 'term', t))
            elif t.kind == 'assert':
                for u in locals_in(t.cond):
                    self.uses[u].append((bid, 'term', t))
            elif t.kind == 'drop':
                for u in locals_in(t.place):
                    self.uses[u].append((bid, 'term', t))

    def single_def(self, local):
        d = self.defs.get(local, [])
        return d[0] if len(d) == 1 else None

    def rhs_inputs(self, d):
        """Locals feeding a def (stmt rhs or call args)."""
        bid, kind, obj = d
        if kind == 'stmt':
            return locals_in(obj.rhs)
        out = []
        for a in obj.args:
            out += locals_in(a)
        if obj.func and obj.func.startswith(('move _', 'copy _')):
            out += locals_in(obj.func)
        return out

    def origins(self, local, through_calls=True, max_nodes=4000, stop_call=None):
        """Transitive closure of defs feeding `local`.
        Returns dict with keys: 'locals' (set), 'calls' ([(bid, term)]), 'consts' (set of text),
        'args' (set of arg locals reached), 'stmts' ([(bid, stmt)]).
        stop_call(term) -> True: do not look through this call's arguments."""
        nargs = {n for (n, _t) in self.body.args}
        seen = set()
        calls = []
        consts = set()
        stmts = []
        args = set()
        work = [local]
        while work and len(seen) < max_nodes:
            l = work.pop()
            if l in seen:
                continue
            seen.add(l)
            if l in nargs:
                args.add(l)
            for d in self.defs.get(l, []):
                bid, kind, obj = d
                if kind == 'stmt':
                    stmts.append((bid, obj))
                    for c in re.findall(r'const [^,)\]};]+', strip_strings(obj.rhs)):
                        consts.add(c.strip())
                    if 'const "' in obj.rhs:
                        for m in STR_RE.finditer(obj.rhs):
                            consts.add('const ' + m.group(0))
                    work.extend(locals_in(obj.rhs))
                else:
                    calls.append((bid, obj))
                    if through_calls and not (stop_call and stop_call(obj)):
                        for a in obj.args:
                            if is_const(a):
                                consts.add(a.strip())
                            work.extend(locals_in(a))
        return {'locals': seen, 'calls': calls, 'consts': consts, 'args': args, 'stmts': stmts}

    def forward(self, local, max_nodes=4000):
        """Locals that may derive from `local` (forward closure)."""
        seen = set()
        work = [local]
        while work and len(seen) < max_nodes:
            l = work.pop()
            if l in seen:
                continue
            seen.add(l)
            for (bid, kind, obj) in self.uses.get(l, []):
                if kind == 'stmt' and obj.kind == 'assign':
                    bl = base_local(obj.lhs)
                    if bl is not None:
                        work.append(bl)
                elif kind == 'term' and obj.kind == 'call':
                    bl = base_local(obj.dest)
                    if bl is not None:
                        work.append(bl)
        return seen

    # ------------------------------------------------------------ access paths
    def access_path(self, operand, depth=0):
        """Resolve an operand/place to a symbolic access path through single-def temporaries:
        returns (root, [steps]) where root is ('arg', n, type) | ('local', n, type) |
        ('call', func) | ('static', text) and steps are field indices / 'deref' markers (deref
        dropped)."""
        place = operand_place(operand)
        if depth > 25:
            return (('unknown', place), [])
        if place.startswith('const '):
            return (('const', place), [])
        bl = base_local(place)
        if bl is None:
            return (('unknown', place), [])
        fields = place_fields(place)
        nargs = {n for (n, _t) in self.body.args}
        if bl in nargs:
            return (('arg', bl, self.body.local_type(bl)), fields)
        d = self.single_def(bl)
        if d is None:
            return (('local', bl, self.body.local_type(bl)), fields)
        bid, kind, obj = d
        if kind == 'stmt':
            rhs = obj.rhs.strip()
            m = re.match(r'^&(?:mut |raw const |raw mut )?(.*)$', rhs)
            if m:
                root, steps = self.access_path(m.group(1), depth + 1)
                return (root, steps + fields)
            if rhs.startswith(('move ', 'copy ')):
                root, steps = self.access_path(rhs, depth + 1)
                return (root, steps + fields)
            if re.match(r'^\(?\*?_\d+', rhs) and ' ' not in rhs.split(':')[0]:
                root, steps = self.access_path(rhs, depth + 1)
                return (root, steps + fields)
            return (('local', bl, self.body.local_type(bl)), fields)
        # call: look through Deref/AsRef/clone-like wrappers
        f = obj.func or ''
        if re.search(r' as [\w:]*(Deref|DerefMut|__Deref)>::deref(_mut)?$', f) or \
                re.search(r' as (std|core)::(convert::AsRef|borrow::Borrow)<.*>>::(as_ref|borrow)$', f) or \
                re.search(r'::option::Option::<.*>::as_ref$', f):
            if obj.args:
                root, steps = self.access_path(obj.args[0], depth + 1)
                return (root, steps + fields)
        return (('call', f, bid), fields)
