"""Intraprocedural, flow-insensitive def/use utilities over MIR text.

Over-approximate "may derive from": local L derives from X if X occurs in the right-hand side of
some assignment (or as an argument of a call) whose destination's base local is L, transitively.
"""
import re
from collections import defaultdict

LOCAL_RE = re.compile(r'\b_(\d+)\b')
STR_RE = re.compile(r'"(?:[^"\\]|\\.)*"')


def strip_strings(s):
    return STR_RE.sub('""', s)


def locals_in(text):
    if text is None:
        return []
    return [int(x) for x in LOCAL_RE.findall(strip_strings(text))]


def base_local(place):
    """First local mentioned in a place/operand text."""
    m = LOCAL_RE.search(strip_strings(place or ''))
    return int(m.group(1)) if m else None


def operand_place(op):
    op = op.strip()
    for p in ('move ', 'copy '):
        if op.startswith(p):
            return op[len(p):]
    return op


def is_const(op):
    return op.strip().startswith('const ')


FIELD_RE = re.compile(r'\.(\d+)(?:: |\))')


def place_fields(place):
    """Field index sequence of a place text, outermost last: `((*_1).3: T)` -> [3];
    `(((*_1).3: T).0: U)` -> [3, 0]."""
    return [int(x) for x in re.findall(r'\.(\d+): ', place)]


class DefUse:
    def __init__(self, body):
        body.parse()
        self.body = body
        self.defs = defaultdict(list)     # local -> [(blk id, 'stmt'|'term', obj)]
        self.uses = defaultdict(list)     # local -> [(blk id, kind, obj)]
        self.stores = defaultdict(list)   # pointer local -> stores through it
        for bid, blk in body.blocks.items():
            for s in blk.stmts:
                if s.kind == 'assign':
                    bl = base_local(s.lhs)
                    if bl is not None:
                        if '(*_%d)' % bl in s.lhs:
                            # store through a pointer: not a definition of the pointer local
                            self.stores[bl].append((bid, 'stmt', s))
                            self.uses[bl].append((bid, 'stmt', s))
                        else:
                            self.defs[bl].append((bid, 'stmt', s))
                    for u in locals_in(s.rhs):
                        self.uses[u].append((bid, 'stmt', s))
                    # projections on lhs also use locals (index)
                elif s.kind == 'setdiscr':
                    pass
            t = blk.term
            if t is None:
                continue
            if t.kind == 'call':
                bl = base_local(t.dest)
                if bl is not None:
                    self.defs[bl].append((bid, 'term', t))
                for a in t.args:
                    for u in locals_in(a):
                        self.uses[u].append((bid, 'term', t))
                if t.func and (t.func.startswith(('move _', 'copy _'))):
                    for u in locals_in(t.func):
                        self.uses[u].append((bid, 'term', t))
            elif t.kind in ('switch',):
                for u in locals_in(t.discr):
                    self.uses[u].append((bid, 'term', t))
            elif t.kind == 'assert':
                for u in locals_in(t.cond):
                    self.uses[u].append((bid, 'term', t))
            elif t.kind == 'drop':
                for u in locals_in(t.place):
                    self.uses[u].append((bid, 'term', t))

    def single_def(self, local):
        d = self.defs.get(local, [])
        if len(d) == 1:
            return d[0]
        # duplicated blocks of an inlined / threaded body (mirlib/inline.py) repeat one statement
        if len(d) > 1 and all(x[1] == 'stmt' and x[2].code == d[0][2].code for x in d) and d[0][1] == 'stmt':
            return d[0]
        return None

    def rhs_inputs(self, d):
        """Locals feeding a def (stmt rhs or call args)."""
        bid, kind, obj = d
        if kind == 'stmt':
            return locals_in(obj.rhs)
        out = []
        for a in obj.args:
            out += locals_in(a)
        if obj.func and obj.func.startswith(('move _', 'copy _')):
            out += locals_in(obj.func)
        return out

    def origins(self, local, through_calls=True, max_nodes=4000, stop_call=None):
        """Transitive closure of defs feeding `local`.
        Returns dict with keys: 'locals' (set), 'calls' ([(bid, term)]), 'consts' (set of text),
        'args' (set of arg locals reached), 'stmts' ([(bid, stmt)]).
        stop_call(term) -> True: do not look through this call's arguments."""
        nargs = {n for (n, _t) in self.body.args}
        seen = set()
        calls = []
        consts = set()
        stmts = []
        args = set()
        work = [local]
        while work and len(seen) < max_nodes:
            l = work.pop()
            if l in seen:
                continue
            seen.add(l)
            if l in nargs:
                args.add(l)
            for d in self.defs.get(l, []):
                bid, kind, obj = d
                if kind == 'stmt':
                    stmts.append((bid, obj))
                    for c in re.findall(r'const [^,)\]};]+', strip_strings(obj.rhs)):
                        consts.add(c.strip())
                    if 'const "' in obj.rhs:
                        for m in STR_RE.finditer(obj.rhs):
                            consts.add('const ' + m.group(0))
                    work.extend(locals_in(obj.rhs))
                else:
                    calls.append((bid, obj))
                    if through_calls and not (stop_call and stop_call(obj)):
                        for a in obj.args:
                            if is_const(a):
                                consts.add(a.strip())
                            work.extend(locals_in(a))
        return {'locals': seen, 'calls': calls, 'consts': consts, 'args': args, 'stmts': stmts}

    def forward(self, local, max_nodes=4000):
        """Locals that may derive from `local` (forward closure)."""
        seen = set()
        work = [local]
        while work and len(seen) < max_nodes:
            l = work.pop()
            if l in seen:
                continue
            seen.add(l)
            for (bid, kind, obj) in self.uses.get(l, []):
                if kind == 'stmt' and obj.kind == 'assign':
                    bl = base_local(obj.lhs)
                    if bl is not None:
                        work.append(bl)
                elif kind == 'term' and obj.kind == 'call':
                    bl = base_local(obj.dest)
                    if bl is not None:
                        work.append(bl)
        return seen

    # ------------------------------------------------------------ access paths
    def access_path(self, operand, depth=0, suffix=None):
        """Resolve an operand/place to a symbolic access path through single-def temporaries:
        returns (root, [steps]) where root is ('arg', n, type) | ('local', n, type) |
        ('call', func) | ('static', text) and steps are field indices / 'deref' markers (deref
        dropped).  `suffix`: projections still to be applied to the operand (carried downwards so
        that `_x = (a, b); _x.1` resolves to `b`)."""
        place = operand_place(operand)
        suffix = list(suffix or [])
        if depth > 25:
            return (('unknown', place), suffix)
        if place.startswith('const '):
            return (('const', place), suffix)
        bl = base_local(place)
        if bl is None:
            return (('unknown', place), suffix)
        fields = place_fields(place) + suffix
        nargs = {n for (n, _t) in self.body.args}
        if bl in nargs:
            return (('arg', bl, self.body.local_type(bl)), fields)
        d = self.single_def(bl)
        if d is None:
            return (('local', bl, self.body.local_type(bl)), fields)
        bid, kind, obj = d
        if kind == 'stmt':
            rhs = obj.rhs.strip()
            m = re.match(r'^&(?:mut |raw const |raw mut )?(.*)$', rhs)
            if m:
                return self.access_path(m.group(1), depth + 1, fields)
            if rhs.startswith('deref_copy '):
                rhs = 'copy ' + rhs[len('deref_copy '):]
            if rhs.startswith(('move ', 'copy ')):
                return self.access_path(rhs, depth + 1, fields)
            ops = tuple_operands(rhs)
            if ops is not None and fields and isinstance(fields[0], int) and fields[0] < len(ops):
                return self.access_path(ops[fields[0]], depth + 1, fields[1:])
            if re.match(r'^\(?\*?_\d+', rhs) and ' ' not in rhs.split(':')[0]:
                return self.access_path(rhs, depth + 1, fields)
            return (('local', bl, self.body.local_type(bl)), fields)
        # call: look through Deref/AsRef/clone-like wrappers
        f = obj.func or ''
        if re.search(r' as [\w:]*(Deref|DerefMut|__Deref)>::deref(_mut)?$', f) or \
                re.search(r' as (std|core)::(convert::AsRef|borrow::Borrow)<.*>>::(as_ref|borrow)$', f) or \
                re.search(r'::option::Option::<.*>::as_ref$', f):
            if obj.args:
                return self.access_path(obj.args[0], depth + 1, fields)
        return (('call', f, bid), fields)


def tuple_operands(rhs):
    """Operands of a tuple aggregate `(move _1, copy _2, const 3_usize)`; None if rhs is not one."""
    rhs = rhs.strip()
    if not (rhs.startswith('(') and rhs.endswith(')')) or rhs == '()':
        return None
    from .parse import split_args, scan_top_level
    # the opening parenthesis must close at the very end
    ev = scan_top_level(rhs)
    if not ev or ev[0][0] != 0:
        return None
    close = [i for (i, c, d) in ev if c == ')' and d == 0]
    if not close or close[0] != len(rhs) - 1:
        return None
    ops = split_args(rhs[1:-1])
    if not ops or not all(o.startswith(('move ', 'copy ', 'const ')) for o in ops):
        return None
    if len(ops) == 1 and not rhs[1:-1].rstrip().endswith(','):
        return None
    return ops


# ---------------------------------------------------------------------------- typed places
def parse_place(text):
    """Parse a MIR place into (base_local, [projection...]) with projections
    ('deref',) | ('field', idx, type_text) | ('downcast', variant) | ('index', text)."""
    text = operand_place(text.strip())
    pos = [0]

    def parse():
        s = text
        i = pos[0]
        projs = []
        if s.startswith('(*', i):
            pos[0] = i + 2
            base, inner = parse()
            assert s[pos[0]] == ')', (text, pos[0])
            pos[0] += 1
            projs = inner + [('deref',)]
        elif s.startswith('(', i):
            pos[0] = i + 1
            base, inner = parse()
            j = pos[0]
            if s.startswith(' as ', j):
                k = s.index(')', j)
                projs = inner + [('downcast', s[j + 4:k])]
                pos[0] = k + 1
            elif s[j] == '.':
                m = re.match(r'\.(\d+): ', s[j:])
                idx = int(m.group(1))
                j2 = j + m.end()
                # type runs to the matching ')'
                depth = 0
                k = j2
                while k < len(s):
                    c = s[k]
                    if c in '([{<':
                        depth += 1
                    elif c == '>' and s[k - 1] in '-=':
                        pass
                    elif c in ')]}>':
                        if depth == 0 and c == ')':
                            break
                        depth -= 1
                    k += 1
                projs = inner + [('field', idx, s[j2:k])]
                pos[0] = k + 1
            else:
                raise ValueError('bad place %r at %d' % (text, j))
        else:
            m = re.match(r'_(\d+)', s[i:])
            if not m:
                raise ValueError('bad place %r at %d' % (text, i))
            base = int(m.group(1))
            pos[0] = i + m.end()
        # trailing index / subslice projections
        while pos[0] < len(s) and s[pos[0]] == '[':
            k = s.index(']', pos[0])
            projs = projs + [('index', s[pos[0] + 1:k])]
            pos[0] = k + 1
        return base, projs
    try:
        return parse()
    except (ValueError, AssertionError, IndexError):
        return base_local(text), []


def typed_path(body, du, operand, depth=0, suffix=None):
    """Like DefUse.access_path but keeps, for every field step, the type that owns the field:
    returns (root, [(idx, owner_type_text), ...])."""
    place = operand_place(operand)
    suffix = list(suffix or [])
    if place.startswith('const ') or depth > 25:
        return (('const', place), suffix)
    bl, projs = parse_place(place)
    if bl is None:
        return (('unknown', place), suffix)
    steps = []
    cur_ty = body.local_type(bl)
    for p in projs:
        if p[0] == 'field':
            steps.append((p[1], cur_ty))
            cur_ty = p[2]
        elif p[0] == 'deref':
            cur_ty = _deref_ty(cur_ty)
        elif p[0] == 'downcast':
            cur_ty = (cur_ty or '') + '::' + p[1]
    steps = steps + suffix
    nargs = {n for (n, _t) in body.args}
    if bl in nargs:
        return (('arg', bl, body.local_type(bl)), steps)
    d = du.single_def(bl)
    if d is None:
        return (('local', bl, body.local_type(bl)), steps)
    bid, kind, obj = d
    if kind == 'stmt':
        rhs = obj.rhs.strip()
        if rhs.startswith('deref_copy '):
            rhs = 'copy ' + rhs[len('deref_copy '):]
        m = re.match(r'^&(?:mut |raw const |raw mut )?(.*)$', rhs)
        if m:
            return typed_path(body, du, m.group(1), depth + 1, steps)
        m = re.match(r'^(?:move|copy) (.*) as .* \((?:IntToInt|PtrToPtr|Transmute)\)$', rhs)
        if m:
            return typed_path(body, du, m.group(1), depth + 1, steps)
        if rhs.startswith(('move ', 'copy ')):
            return typed_path(body, du, rhs, depth + 1, steps)
        ops = tuple_operands(rhs)
        if ops is not None and steps and steps[0][0] < len(ops):
            return typed_path(body, du, ops[steps[0][0]], depth + 1, steps[1:])
        return (('local', bl, body.local_type(bl)), steps)
    f = obj.func or ''
    if re.search(r' as [\w:]*(Deref|DerefMut|__Deref)>::deref(_mut)?$', f) or \
            re.search(r'::option::Option::<.*>::as_ref$', f) or \
            re.search(r' as [\w:]*(AsRef|Borrow)<.*>>::(as_ref|borrow)$', f) or \
            re.search(r' as [\w:]*Clone>::clone$', f):
        if obj.args:
            return typed_path(body, du, obj.args[0], depth + 1, steps)
    return (('call', f, bid), steps)


def _deref_ty(ty):
    if ty is None:
        return None
    t = ty.strip()
    m = re.match(r"^&(?:'[a-z_]+ )?(?:mut )?(.*)$", t)
    if m:
        return m.group(1)
    m = re.match(r'^(?:std|alloc)::(?:sync::Arc|boxed::Box|rc::Rc)<(.*)>$', t)
    if m:
        return m.group(1)
    m = re.match(r"^std::sync::(?:poison::)?(?:MutexGuard|RwLockReadGuard|RwLockWriteGuard)<'_, (.*)>$", t)
    if m:
        return m.group(1)
    return t


# ---------------------------------------------------------------------------- flow-sensitive slice
class ReachingDefs:
    """Flow-sensitive backward slicing over one body (on demand, no global fixpoint).

    A *definition* is a statement `_n = ..` / `(_n.f: T) = ..` (partial) or a call terminator whose
    destination's base local is `_n`.  Stores through a pointer `(*_n).. = ..` are treated as
    partial definitions of every local whose address `_n` may hold is NOT attempted: they count as
    partial definitions of `_n` itself (conservative for the slices built here, which follow
    by-value plan handles).  `reaching(local, bid, idx)` returns the definitions of `local` that
    reach the program point just before statement `idx` of block `bid` (idx == len(stmts) is the
    terminator).  `slice_back` closes that over the operands of the definitions found."""

    def __init__(self, body, cfg=None):
        from .cfg import CFG
        body.parse()
        self.body = body
        self.cfg = cfg or CFG(body)
        self.block_defs = {}        # bid -> [(idx, local, partial, kind, obj)] in order
        for bid, blk in body.blocks.items():
            lst = []
            for i, s in enumerate(blk.stmts):
                if s.kind != 'assign':
                    continue
                bl = base_local(s.lhs)
                if bl is None:
                    continue
                partial = s.lhs.strip() != '_%d' % bl
                lst.append((i, bl, partial, 'stmt', s))
            t = blk.term
            if t is not None and t.kind == 'call':
                bl = base_local(t.dest)
                if bl is not None:
                    partial = (t.dest or '').strip() != '_%d' % bl
                    lst.append((len(blk.stmts), bl, partial, 'term', t))
            self.block_defs[bid] = lst
        self._entry_memo = {}

    def _scan_block(self, local, bid, upto):
        """Definitions of local in block bid at positions < upto, latest first.
        Returns (defs, killed) - killed: a full definition was met."""
        out = []
        for (i, l, partial, kind, obj) in reversed(self.block_defs[bid]):
            if i >= upto or l != local:
                continue
            out.append((bid, i, kind, obj))
            if not partial:
                return out, True
        return out, False

    def reaching(self, local, bid, idx):
        found, killed = self._scan_block(local, bid, idx)
        if killed:
            return found
        seen = set()
        work = list(self.cfg.pred.get(bid, []))
        while work:
            b = work.pop()
            if b in seen:
                continue
            seen.add(b)
            blk = self.body.blocks[b]
            # a call's destination is defined on the edge to its return target only
            d, k = self._scan_block(local, b, len(blk.stmts) + 1)
            found += d
            if not k:
                work.extend(self.cfg.pred.get(b, []))
        # de-duplicate
        uniq, ids_ = [], set()
        for d in found:
            key = (d[0], d[1])
            if key not in ids_:
                ids_.add(key)
                uniq.append(d)
        return uniq

    @staticmethod
    def def_inputs(d):
        bid, idx, kind, obj = d
        if kind == 'stmt':
            ins = locals_in(obj.rhs)
            # a partial definition keeps the rest of the old value
            bl = base_local(obj.lhs)
            if obj.lhs.strip() != '_%d' % bl:
                ins = ins + [bl]
            return ins
        out = []
        for a in obj.args:
            out += locals_in(a)
        if obj.func and obj.func.startswith(('move _', 'copy _')):
            out += locals_in(obj.func)
        return out

    def slice_back(self, local, bid, idx, stop=None, max_nodes=20000, follow=None):
        """Definitions the value of `local` at (bid, idx) may derive from.  stop(d) -> True keeps
        the definition in the result but does not follow its inputs; follow(local) -> False does
        not trace that operand (used to restrict a slice to locals of a carrier type).
        Returns {'defs': [(bid, idx, kind, obj)], 'args': set of parameter locals reached}."""
        nargs = {n for (n, _t) in self.body.args}
        seen_q = set()
        seen_d = set()
        out = []
        args = set()
        work = [(local, bid, idx)]
        while work and len(seen_q) < max_nodes:
            q = work.pop()
            if q in seen_q:
                continue
            seen_q.add(q)
            l, b, i = q
            rd = self.reaching(l, b, i)
            if l in nargs:
                args.add(l)
            for d in rd:
                key = (d[0], d[1])
                if key in seen_d:
                    continue
                seen_d.add(key)
                out.append(d)
                if stop and stop(d):
                    continue
                for u in self.def_inputs(d):
                    if follow is None or follow(u):
                        work.append((u, d[0], d[1]))
        return {'defs': out, 'args': args}
