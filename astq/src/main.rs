//! astq: dump a simplified syntax tree of Rust source files as JSON (one object per file).
//! usage: astq <root> <file>...      paths are printed relative to <root>
use proc_macro2::{Span, TokenStream};
use quote::ToTokens;
use std::fmt::Write as _;
use syn::spanned::Spanned;
use syn::*;

struct Ctx {
    out: String,
    src: Vec<String>,
}

fn esc(s: &str, out: &mut String) {
    out.push('"');
    for c in s.chars() {
        match c {
            '"' => out.push_str("\\\""),
            '\\' => out.push_str("\\\\"),
            '\n' => out.push_str("\\n"),
            '\r' => out.push_str("\\r"),
            '\t' => out.push_str("\\t"),
            c if (c as u32) < 0x20 => {
                let _ = write!(out, "\\u{:04x}", c as u32);
            }
            c => out.push(c),
        }
    }
    out.push('"');
}

fn toks<T: ToTokens>(t: &T) -> String {
    t.to_token_stream().to_string()
}

impl Ctx {
    fn key(&mut self, k: &str) {
        esc(k, &mut self.out);
        self.out.push(':');
    }
    fn kv(&mut self, k: &str, v: &str) {
        self.key(k);
        esc(v, &mut self.out);
    }
    fn open(&mut self, kind: &str, sp: Span) {
        self.out.push('{');
        self.kv("k", kind);
        let _ = write!(self.out, ",\"l\":{},\"c\":{},\"el\":{}", sp.start().line, sp.start().column + 1, sp.end().line);
    }
    fn close(&mut self) {
        self.out.push('}');
    }
    fn comma(&mut self) {
        self.out.push(',');
    }
    fn snippet(&self, sp: Span) -> Option<String> {
        let (s, e) = (sp.start(), sp.end());
        if s.line == 0 || e.line == 0 || e.line > self.src.len() {
            return None;
        }
        if e.line - s.line > 6 {
            return None;
        }
        let mut r = String::new();
        for ln in s.line..=e.line {
            let line: Vec<char> = self.src[ln - 1].chars().collect();
            let a = if ln == s.line { s.column.min(line.len()) } else { 0 };
            let b = if ln == e.line { e.column.min(line.len()) } else { line.len() };
            if a <= b {
                r.extend(line[a..b].iter());
            }
            if ln != e.line {
                r.push(' ');
            }
        }
        let r: String = r.split_whitespace().collect::<Vec<_>>().join(" ");
        if r.len() > 240 {
            None
        } else {
            Some(r)
        }
    }
    fn src_field(&mut self, sp: Span) {
        if let Some(s) = self.snippet(sp) {
            self.comma();
            self.kv("src", &s);
        }
    }
    fn list<T, F: FnMut(&mut Ctx, &T)>(&mut self, k: &str, items: impl IntoIterator<Item = T>, mut f: F) {
        self.comma();
        self.key(k);
        self.out.push('[');
        let mut first = true;
        for it in items {
            if !first {
                self.out.push(',');
            }
            first = false;
            f(self, &it);
        }
        self.out.push(']');
    }
    fn child_expr(&mut self, k: &str, e: &Expr) {
        self.comma();
        self.key(k);
        self.expr(e);
    }
    fn child_block(&mut self, k: &str, b: &Block) {
        self.comma();
        self.key(k);
        self.block(b);
    }

    // ------------------------------------------------------------------ items
    fn attrs(&mut self, attrs: &[Attribute]) {
        let v: Vec<String> = attrs
            .iter()
            .filter(|a| !a.path().is_ident("doc"))
            .map(|a| toks(&a.meta))
            .collect();
        if !v.is_empty() {
            self.list("attrs", v, |c, s| esc(s, &mut c.out));
        }
    }

    fn item(&mut self, it: &Item) {
        match it {
            Item::Fn(f) => self.func(&f.attrs, &f.sig, Some(&f.block), f.span()),
            Item::Impl(i) => {
                self.open("impl", i.span());
                self.comma();
                self.kv("self", &toks(&i.self_ty));
                if let Some((_, p, _)) = &i.trait_ {
                    self.comma();
                    self.kv("trait", &toks(p));
                }
                self.attrs(&i.attrs);
                self.list("items", i.items.iter(), |c, ii| match ii {
                    ImplItem::Fn(f) => c.func(&f.attrs, &f.sig, Some(&f.block), f.span()),
                    ImplItem::Const(k) => {
                        c.open("const", k.span());
                        c.comma();
                        c.kv("name", &k.ident.to_string());
                        c.comma();
                        c.kv("ty", &toks(&k.ty));
                        c.child_expr("expr", &k.expr);
                        c.close();
                    }
                    other => {
                        c.open("other", other.span());
                        c.close();
                    }
                });
                self.close();
            }
            Item::Mod(m) => {
                self.open("mod", m.span());
                self.comma();
                self.kv("name", &m.ident.to_string());
                self.attrs(&m.attrs);
                if let Some((_, items)) = &m.content {
                    self.list("items", items.iter(), |c, i| c.item(i));
                }
                self.close();
            }
            Item::Struct(s) => {
                self.open("struct", s.span());
                self.comma();
                self.kv("name", &s.ident.to_string());
                self.attrs(&s.attrs);
                self.fields(&s.fields);
                self.close();
            }
            Item::Enum(e) => {
                self.open("enum", e.span());
                self.comma();
                self.kv("name", &e.ident.to_string());
                self.attrs(&e.attrs);
                self.list("variants", e.variants.iter(), |c, v| {
                    c.open("variant", v.span());
                    c.comma();
                    c.kv("name", &v.ident.to_string());
                    c.fields(&v.fields);
                    if let Some((_, d)) = &v.discriminant {
                        c.child_expr("disc", d);
                    }
                    c.close();
                });
                self.close();
            }
            Item::Const(k) => {
                self.open("const", k.span());
                self.comma();
                self.kv("name", &k.ident.to_string());
                self.comma();
                self.kv("ty", &toks(&k.ty));
                self.child_expr("expr", &k.expr);
                self.close();
            }
            Item::Static(k) => {
                self.open("static", k.span());
                self.comma();
                self.kv("name", &k.ident.to_string());
                self.comma();
                self.kv("ty", &toks(&k.ty));
                self.child_expr("expr", &k.expr);
                self.close();
            }
            Item::Trait(t) => {
                self.open("trait", t.span());
                self.comma();
                self.kv("name", &t.ident.to_string());
                self.list("items", t.items.iter(), |c, ti| match ti {
                    TraitItem::Fn(f) => c.func(&f.attrs, &f.sig, f.default.as_ref(), f.span()),
                    other => {
                        c.open("other", other.span());
                        c.close();
                    }
                });
                self.close();
            }
            Item::Macro(m) => {
                self.open("macro_item", m.span());
                self.mac(&m.mac);
                self.close();
            }
            Item::Use(u) => {
                self.open("use", u.span());
                self.comma();
                self.kv("tree", &toks(&u.tree));
                self.close();
            }
            Item::Type(t) => {
                self.open("type", t.span());
                self.comma();
                self.kv("name", &t.ident.to_string());
                self.comma();
                self.kv("ty", &toks(&t.ty));
                self.close();
            }
            other => {
                self.open("other_item", other.span());
                self.close();
            }
        }
    }

    fn fields(&mut self, f: &Fields) {
        let v: Vec<(String, String)> = match f {
            Fields::Named(n) => n
                .named
                .iter()
                .map(|f| (f.ident.as_ref().unwrap().to_string(), toks(&f.ty)))
                .collect(),
            Fields::Unnamed(u) => u
                .unnamed
                .iter()
                .enumerate()
                .map(|(i, f)| (i.to_string(), toks(&f.ty)))
                .collect(),
            Fields::Unit => vec![],
        };
        self.list("fields", v, |c, (n, t)| {
            c.out.push('{');
            c.kv("name", n);
            c.comma();
            c.kv("ty", t);
            c.out.push('}');
        });
    }

    fn func(&mut self, attrs: &[Attribute], sig: &Signature, body: Option<&Block>, sp: Span) {
        self.open("fn", sp);
        self.comma();
        self.kv("name", &sig.ident.to_string());
        self.attrs(attrs);
        if sig.asyncness.is_some() {
            self.comma();
            self.key("async");
            self.out.push_str("true");
        }
        let params: Vec<(String, String)> = sig
            .inputs
            .iter()
            .map(|a| match a {
                FnArg::Receiver(r) => ("self".to_string(), toks(r)),
                FnArg::Typed(t) => (toks(&t.pat), toks(&t.ty)),
            })
            .collect();
        self.list("params", params, |c, (n, t)| {
            c.out.push('{');
            c.kv("name", n);
            c.comma();
            c.kv("ty", t);
            c.out.push('}');
        });
        if let ReturnType::Type(_, t) = &sig.output {
            self.comma();
            self.kv("ret", &toks(t));
        }
        if let Some(b) = body {
            self.child_block("body", b);
        }
        self.close();
    }

    // ------------------------------------------------------------------ macros
    fn mac(&mut self, m: &Macro) {
        self.comma();
        self.kv("path", &toks(&m.path));
        // try: comma separated expressions
        let parser = syn::punctuated::Punctuated::<Expr, Token![,]>::parse_terminated;
        if let Ok(args) = m.parse_body_with(parser) {
            self.list("args", args.iter(), |c, e| c.expr(e));
            return;
        }
        // try: a block body / items (lazy_static etc.) -> statements
        if let Ok(b) = syn::parse2::<Block>(wrap_braces(m.tokens.clone())) {
            self.child_block("block", &b);
            return;
        }
        if let Ok(f) = syn::parse2::<File>(m.tokens.clone()) {
            self.list("items", f.items.iter(), |c, i| c.item(i));
            return;
        }
        // `matches!(expr, pat)`-like or `vec![x; n]`
        if let Ok((a, b)) = m.parse_body_with(|input: syn::parse::ParseStream| {
            let a: Expr = input.parse()?;
            let _: Token![;] = input.parse()?;
            let b: Expr = input.parse()?;
            Ok((a, b))
        }) {
            self.list("args", vec![a, b].iter(), |c, e| c.expr(e));
            return;
        }
        if let Ok((a, p, g)) = m.parse_body_with(|input: syn::parse::ParseStream| {
            let a: Expr = input.parse()?;
            let _: Token![,] = input.parse()?;
            let p = Pat::parse_multi_with_leading_vert(input)?;
            let mut g: Option<Expr> = None;
            if input.peek(Token![if]) {
                let _: Token![if] = input.parse()?;
                g = Some(input.parse()?);
            }
            let _: Option<Token![,]> = input.parse()?;
            Ok((a, p, g))
        }) {
            self.child_expr("scrutinee", &a);
            self.comma();
            self.key("pat");
            self.pat(&p);
            if let Some(g) = &g {
                self.child_expr("guard", g);
            }
            return;
        }
        // JSON-like body (`json!({ "k": expr, .. })`): parse the value expressions
        let vals = json_like_values(m.tokens.clone());
        if !vals.is_empty() {
            self.list("args", vals.iter(), |c, e| c.expr(e));
            return;
        }
        self.comma();
        self.kv("tokens", &m.tokens.to_string());
    }

    // ------------------------------------------------------------------ patterns
    fn pat(&mut self, p: &Pat) {
        match p {
            Pat::Ident(i) => {
                self.open("p_ident", i.span());
                self.comma();
                self.kv("name", &i.ident.to_string());
                if let Some((_, sub)) = &i.subpat {
                    self.comma();
                    self.key("sub");
                    self.pat(sub);
                }
                self.close();
            }
            Pat::Path(pp) => {
                self.open("p_path", pp.span());
                self.comma();
                self.kv("path", &toks(&pp.path).replace(' ', ""));
                self.close();
            }
            Pat::TupleStruct(t) => {
                self.open("p_tuple_struct", t.span());
                self.comma();
                self.kv("path", &toks(&t.path).replace(' ', ""));
                self.list("elems", t.elems.iter(), |c, e| c.pat(e));
                self.close();
            }
            Pat::Struct(s) => {
                self.open("p_struct", s.span());
                self.comma();
                self.kv("path", &toks(&s.path).replace(' ', ""));
                self.list("fields", s.fields.iter(), |c, f| {
                    c.out.push('{');
                    c.kv("name", &toks(&f.member));
                    c.comma();
                    c.key("pat");
                    c.pat(&f.pat);
                    c.out.push('}');
                });
                self.comma();
                self.kv("rest", if s.rest.is_some() { "1" } else { "0" });
                self.close();
            }
            Pat::Tuple(t) => {
                self.open("p_tuple", t.span());
                self.list("elems", t.elems.iter(), |c, e| c.pat(e));
                self.close();
            }
            Pat::Or(o) => {
                self.open("p_or", o.span());
                self.list("cases", o.cases.iter(), |c, e| c.pat(e));
                self.close();
            }
            Pat::Wild(w) => {
                self.open("p_wild", w.span());
                self.close();
            }
            Pat::Lit(l) => {
                self.open("p_lit", l.span());
                self.comma();
                self.kv("value", &toks(&l.lit));
                self.close();
            }
            Pat::Reference(r) => {
                self.open("p_ref", r.span());
                self.comma();
                self.key("pat");
                self.pat(&r.pat);
                self.close();
            }
            Pat::Type(t) => {
                self.open("p_type", t.span());
                self.comma();
                self.kv("ty", &toks(&t.ty));
                self.comma();
                self.key("pat");
                self.pat(&t.pat);
                self.close();
            }
            Pat::Range(r) => {
                self.open("p_range", r.span());
                self.comma();
                self.kv("text", &toks(r));
                self.close();
            }
            Pat::Slice(s) => {
                self.open("p_slice", s.span());
                self.list("elems", s.elems.iter(), |c, e| c.pat(e));
                self.close();
            }
            Pat::Paren(p) => self.pat(&p.pat),
            Pat::Rest(r) => {
                self.open("p_rest", r.span());
                self.close();
            }
            Pat::Verbatim(ts) => {
                // e.g. `box pat`
                let s = ts.to_string();
                if let Some(rest) = s.strip_prefix("box ") {
                    if let Ok(inner) = syn::parse::Parser::parse_str(Pat::parse_single, rest) {
                        self.open("p_box", ts.span());
                        self.comma();
                        self.key("pat");
                        self.pat(&inner);
                        self.close();
                        return;
                    }
                }
                self.open("p_verbatim", ts.span());
                self.comma();
                self.kv("text", &s);
                self.close();
            }
            other => {
                self.open("p_other", other.span());
                self.comma();
                self.kv("text", &toks(other));
                self.close();
            }
        }
    }

    // ------------------------------------------------------------------ blocks / stmts
    fn block(&mut self, b: &Block) {
        self.open("block", b.span());
        self.list("stmts", b.stmts.iter(), |c, s| c.stmt(s));
        self.close();
    }

    fn stmt(&mut self, s: &Stmt) {
        match s {
            Stmt::Local(l) => {
                self.open("let", l.span());
                self.comma();
                self.key("pat");
                self.pat(&l.pat);
                if let Some(init) = &l.init {
                    self.child_expr("init", &init.expr);
                    if let Some((_, e)) = &init.diverge {
                        self.child_expr("else", e);
                    }
                }
                self.close();
            }
            Stmt::Item(i) => self.item(i),
            Stmt::Expr(e, semi) => {
                if semi.is_some() {
                    self.open("semi", e.span());
                    self.child_expr("expr", e);
                    self.close();
                } else {
                    self.expr(e);
                }
            }
            Stmt::Macro(m) => {
                self.open("macro", m.span());
                self.mac(&m.mac);
                self.close();
            }
        }
    }

    // ------------------------------------------------------------------ expressions
    fn expr(&mut self, e: &Expr) {
        match e {
            Expr::Call(c) => {
                self.open("call", c.span());
                self.src_field(c.func.span());
                self.child_expr("func", &c.func);
                self.list("args", c.args.iter(), |x, a| x.expr(a));
                self.close();
            }
            Expr::MethodCall(m) => {
                self.open("mcall", m.span());
                self.comma();
                self.kv("method", &m.method.to_string());
                if let Some(t) = &m.turbofish {
                    self.comma();
                    self.kv("turbofish", &toks(t));
                }
                self.child_expr("recv", &m.receiver);
                self.list("args", m.args.iter(), |x, a| x.expr(a));
                self.close();
            }
            Expr::Path(p) => {
                self.open("path", p.span());
                self.comma();
                self.kv("path", &toks(&p.path).replace(' ', ""));
                self.close();
            }
            Expr::Lit(l) => {
                self.open("lit", l.span());
                match &l.lit {
                    Lit::Str(s) => {
                        self.comma();
                        self.kv("str", &s.value());
                    }
                    Lit::Int(i) => {
                        self.comma();
                        self.kv("int", i.base10_digits());
                        self.comma();
                        self.kv("suffix", i.suffix());
                    }
                    Lit::Char(ch) => {
                        self.comma();
                        self.kv("char", &ch.value().to_string());
                    }
                    Lit::Bool(b) => {
                        self.comma();
                        self.kv("bool", if b.value { "true" } else { "false" });
                    }
                    Lit::Float(f) => {
                        self.comma();
                        self.kv("float", f.base10_digits());
                    }
                    Lit::ByteStr(_) | Lit::Byte(_) => {
                        self.comma();
                        self.kv("bytes", &toks(&l.lit));
                    }
                    other => {
                        self.comma();
                        self.kv("text", &toks(other));
                    }
                }
                self.src_field(l.span());
                self.close();
            }
            Expr::Match(m) => {
                self.open("match", m.span());
                self.child_expr("scrutinee", &m.expr);
                self.list("arms", m.arms.iter(), |c, a| {
                    c.open("arm", a.span());
                    c.comma();
                    c.key("pat");
                    c.pat(&a.pat);
                    if let Some(s) = c.snippet(a.pat.span()) {
                        c.comma();
                        c.kv("pat_src", &s);
                    }
                    if let Some((_, g)) = &a.guard {
                        c.child_expr("guard", g);
                    }
                    c.child_expr("body", &a.body);
                    c.close();
                });
                self.close();
            }
            Expr::If(i) => {
                self.open("if", i.span());
                self.child_expr("cond", &i.cond);
                self.child_block("then", &i.then_branch);
                if let Some((_, e)) = &i.else_branch {
                    self.child_expr("else", e);
                }
                self.close();
            }
            Expr::Let(l) => {
                self.open("let_expr", l.span());
                self.comma();
                self.key("pat");
                self.pat(&l.pat);
                self.child_expr("expr", &l.expr);
                self.close();
            }
            Expr::Block(b) => self.block(&b.block),
            Expr::Unsafe(b) => {
                self.open("unsafe", b.span());
                self.child_block("body", &b.block);
                self.close();
            }
            Expr::Async(b) => {
                self.open("async", b.span());
                self.child_block("body", &b.block);
                self.close();
            }
            Expr::Closure(c) => {
                self.open("closure", c.span());
                self.list("params", c.inputs.iter(), |x, p| x.pat(p));
                self.child_expr("body", &c.body);
                self.close();
            }
            Expr::Struct(s) => {
                self.open("struct_lit", s.span());
                self.comma();
                self.kv("path", &toks(&s.path).replace(' ', ""));
                self.list("fields", s.fields.iter(), |c, f| {
                    c.out.push('{');
                    c.kv("name", &toks(&f.member));
                    c.comma();
                    c.key("value");
                    c.expr(&f.expr);
                    c.out.push('}');
                });
                if let Some(r) = &s.rest {
                    self.child_expr("rest", r);
                }
                self.close();
            }
            Expr::Field(f) => {
                self.open("field", f.span());
                self.comma();
                self.kv("member", &toks(&f.member));
                self.src_field(f.span());
                self.child_expr("base", &f.base);
                self.close();
            }
            Expr::Index(i) => {
                self.open("index", i.span());
                self.src_field(i.span());
                self.child_expr("base", &i.expr);
                self.child_expr("index", &i.index);
                self.close();
            }
            Expr::Binary(b) => {
                self.open("binary", b.span());
                self.comma();
                self.kv("op", &toks(&b.op));
                self.src_field(b.span());
                self.child_expr("lhs", &b.left);
                self.child_expr("rhs", &b.right);
                self.close();
            }
            Expr::Unary(u) => {
                self.open("unary", u.span());
                self.comma();
                self.kv("op", &toks(&u.op));
                self.src_field(u.span());
                self.child_expr("expr", &u.expr);
                self.close();
            }
            Expr::Cast(c) => {
                self.open("cast", c.span());
                self.comma();
                self.kv("ty", &toks(&c.ty).replace(' ', ""));
                self.src_field(c.span());
                self.child_expr("expr", &c.expr);
                self.close();
            }
            Expr::Reference(r) => {
                self.open("ref", r.span());
                if r.mutability.is_some() {
                    self.comma();
                    self.key("mut");
                    self.out.push_str("true");
                }
                self.child_expr("expr", &r.expr);
                self.close();
            }
            Expr::Paren(p) => self.expr(&p.expr),
            Expr::Group(g) => self.expr(&g.expr),
            Expr::Tuple(t) => {
                self.open("tuple", t.span());
                self.list("elems", t.elems.iter(), |c, e| c.expr(e));
                self.close();
            }
            Expr::Array(a) => {
                self.open("array", a.span());
                self.list("elems", a.elems.iter(), |c, e| c.expr(e));
                self.close();
            }
            Expr::Repeat(r) => {
                self.open("repeat", r.span());
                self.child_expr("expr", &r.expr);
                self.child_expr("len", &r.len);
                self.close();
            }
            Expr::Return(r) => {
                self.open("return", r.span());
                if let Some(e) = &r.expr {
                    self.child_expr("expr", e);
                }
                self.close();
            }
            Expr::Break(b) => {
                self.open("break", b.span());
                if let Some(e) = &b.expr {
                    self.child_expr("expr", e);
                }
                self.close();
            }
            Expr::Continue(c) => {
                self.open("continue", c.span());
                self.close();
            }
            Expr::Try(t) => {
                self.open("try", t.span());
                self.child_expr("expr", &t.expr);
                self.close();
            }
            Expr::Await(a) => {
                self.open("await", a.span());
                self.child_expr("expr", &a.base);
                self.close();
            }
            Expr::Assign(a) => {
                self.open("assign", a.span());
                self.src_field(a.span());
                self.child_expr("lhs", &a.left);
                self.child_expr("rhs", &a.right);
                self.close();
            }
            Expr::ForLoop(f) => {
                self.open("for", f.span());
                self.comma();
                self.key("pat");
                self.pat(&f.pat);
                self.child_expr("iter", &f.expr);
                self.child_block("body", &f.body);
                self.close();
            }
            Expr::While(w) => {
                self.open("while", w.span());
                self.child_expr("cond", &w.cond);
                self.child_block("body", &w.body);
                self.close();
            }
            Expr::Loop(l) => {
                self.open("loop", l.span());
                self.child_block("body", &l.body);
                self.close();
            }
            Expr::Range(r) => {
                self.open("range", r.span());
                self.comma();
                self.kv("limits", match r.limits {
                    RangeLimits::HalfOpen(_) => "..",
                    RangeLimits::Closed(_) => "..=",
                });
                if let Some(s) = &r.start {
                    self.child_expr("start", s);
                }
                if let Some(e) = &r.end {
                    self.child_expr("end", e);
                }
                self.close();
            }
            Expr::Macro(m) => {
                self.open("macro", m.span());
                self.mac(&m.mac);
                self.close();
            }
            Expr::Verbatim(ts) => {
                // `box expr`
                let s = ts.to_string();
                if let Some(rest) = s.strip_prefix("box ") {
                    if let Ok(inner) = syn::parse_str::<Expr>(rest) {
                        self.open("box", ts.span());
                        self.child_expr("expr", &inner);
                        self.close();
                        return;
                    }
                }
                self.open("verbatim", ts.span());
                self.comma();
                self.kv("text", &s);
                self.close();
            }
            other => {
                self.open("other_expr", other.span());
                self.comma();
                self.kv("text", &toks(other));
                self.close();
            }
        }
    }
}

/// For a token stream shaped like `{ key : expr , key : expr }` (possibly nested), return the
/// expressions that parse. Used for `json!` bodies.
fn json_like_values(ts: TokenStream) -> Vec<Expr> {
    let mut out = Vec::new();
    let toks: Vec<proc_macro2::TokenTree> = ts.into_iter().collect();
    if toks.len() == 1 {
        if let proc_macro2::TokenTree::Group(g) = &toks[0] {
            if g.delimiter() == proc_macro2::Delimiter::Brace {
                // split at top-level commas
                let mut cur: Vec<proc_macro2::TokenTree> = Vec::new();
                let mut pieces: Vec<Vec<proc_macro2::TokenTree>> = Vec::new();
                for t in g.stream() {
                    if let proc_macro2::TokenTree::Punct(p) = &t {
                        if p.as_char() == ',' {
                            pieces.push(std::mem::take(&mut cur));
                            continue;
                        }
                    }
                    cur.push(t);
                }
                if !cur.is_empty() {
                    pieces.push(cur);
                }
                for piece in pieces {
                    // key : value   (a single ':' punct that is not part of '::')
                    let mut idx = None;
                    for (i, t) in piece.iter().enumerate() {
                        if let proc_macro2::TokenTree::Punct(p) = t {
                            if p.as_char() == ':' && p.spacing() == proc_macro2::Spacing::Alone {
                                let prev_joint = i > 0
                                    && matches!(&piece[i - 1], proc_macro2::TokenTree::Punct(q) if q.as_char() == ':' && q.spacing() == proc_macro2::Spacing::Joint);
                                if !prev_joint {
                                    idx = Some(i);
                                    break;
                                }
                            }
                        }
                    }
                    if let Some(i) = idx {
                        let val: TokenStream = piece[i + 1..].iter().cloned().collect();
                        if let Ok(e) = syn::parse2::<Expr>(val.clone()) {
                            out.push(e);
                        } else {
                            out.extend(json_like_values(val));
                        }
                    }
                }
            }
        }
    }
    out
}

fn wrap_braces(ts: TokenStream) -> TokenStream {
    let g = proc_macro2::Group::new(proc_macro2::Delimiter::Brace, ts);
    let mut out = TokenStream::new();
    out.extend(std::iter::once(proc_macro2::TokenTree::Group(g)));
    out
}

fn main() {
    let args: Vec<String> = std::env::args().collect();
    if args.len() < 3 {
        eprintln!("usage: astq <root> <file>...");
        std::process::exit(2);
    }
    let root = std::path::Path::new(&args[1]);
    let mut first = true;
    let mut failed = 0;
    println!("[");
    for f in &args[2..] {
        let p = root.join(f);
        let text = match std::fs::read_to_string(&p) {
            Ok(t) => t,
            Err(e) => {
                eprintln!("astq: cannot read {}: {}", p.display(), e);
                failed += 1;
                continue;
            }
        };
        let file = match syn::parse_file(&text) {
            Ok(f) => f,
            Err(e) => {
                eprintln!("astq: cannot parse {}: {}", p.display(), e);
                failed += 1;
                continue;
            }
        };
        let mut c = Ctx { out: String::new(), src: text.lines().map(|s| s.to_string()).collect() };
        c.out.push('{');
        c.kv("path", f);
        c.list("items", file.items.iter(), |c, i| c.item(i));
        c.out.push('}');
        if !first {
            println!(",");
        }
        first = false;
        print!("{}", c.out);
    }
    println!("\n]");
    if failed > 0 {
        std::process::exit(1);
    }
}
