"""C01 - ingested values come back unchanged: width/tag tables of the column builders (narrow claim)."""
from rules import widths as W
from rules import misc as M
from rules import builders as B


def run(ctx):
    ctx.run(W.wid1_integer_widths)
    ctx.run(W.wid2_dictionary_widths)
    ctx.run(M.tbl1_datasection_tags)
    ctx.run(M.lit1_null_patterns)
    ctx.run(W.flt2_exact_narrowing_test)
    ctx.run(M.nul1_null_map_never_ignored)
    ctx.run(M.nul2_bitmap_ones_fill_whole_bytes_only)
    ctx.run(M.nul5_builder_bitmap_written_bitwise)
    ctx.run(B.nul6_mixed_buffer_keeps_row_slots)
    ctx.run(B.flw24_integer_builder_differences)
    ctx.run(B.pan7_empty_batch_is_applicable)
    return ctx.finish(
        'Syntax-tree rules over the column builders: in every narrow branch the range bound, the '
        'element type and the encoding tag agree (a tag that disagrees with the stored element type '
        'makes the decode program reinterpret the section), DataSection tags are the identity on the '
        'plain variants, compressor element widths match the variant, and the two reserved NULL '
        'markers are defined consistently; float sections are narrowed to f32 only behind an exact round-trip equality; a null map handed to the column builder is never ignored. These are necessary conditions of the round trip; the '
        'round trip itself (null bitmaps, type degradation, thresholds, delta/offset arithmetic, '
        'hex/dictionary/pco/lz4 content) quantifies over runtime values and is NOT decided.',
        trusted_base=['syn', 'astq extractor'])
