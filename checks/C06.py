"""C06 - integer arithmetic is exact or the query fails: the checked chain."""
from rules import chk as K
from rules import shell as S
from rules import filtering as FL
from rules import operators as OP


def run(ctx):
    ctx.run(K.chk1_registry)
    ctx.run(K.chk2_who_builds_unchecked)
    ctx.run(K.chk3_rewrite)
    ctx.run(K.chk4_plan_to_operator)
    ctx.run(K.chk5_factories)
    ctx.run(K.chk6_operators_consume_flag)
    ctx.run(K.chk7_scalar_implementations)
    ctx.run(K.chk8_sum)
    ctx.run(S.erv1_final_pass)
    ctx.run(FL.flw25_decoded_once)
    ctx.run(OP.tbl20_registry_forwards_null)
    return ctx.finish(
        'Static analysis (syntax tree + compiler MIR) of the finite chain that carries "checked" '
        'from the SQL operator to the scalar implementation: registry rows, who may build '
        'unchecked plan nodes, nullability rewrite, plan->operator lowering, operator factories, '
        'operators consuming the overflow flag, scalar implementations (no raw + - *, division '
        'asserts excluded for all i64 operand regions by a partition abstract interpretation), '
        'checked SUM accumulation and merge, final pass reporting errors as values. A user-visible '
        'integer + - * / % or SUM can wrap only if one of these links maps checked to unchecked. '
        'That each operator computes the right number is not decided.',
        trusted_base=['rustc MIR printer of the pinned toolchain', 'mirlib text parser', 'syn',
                      'i64::overflowing_*/checked_*/wrapping_rem are exact as documented'])
