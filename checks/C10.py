"""C10 - a concurrent query sees a clean prefix: lock discipline of the snapshot protocol."""
from rules import locking as L
from rules import payload as O


def run(ctx):
    ctx.run(L.lck3_snapshot_atomic)
    ctx.run(L.lck4_batch_no_gap)
    ctx.run(L.lck5_compact_swap)
    ctx.run(L.lck6_declared_order)
    ctx.run(L.lck7_freeze)
    ctx.run(L.flw16_offsets_count_placed_rows)
    ctx.run(L.lck1_flush_critical_section, with_reset=False)
    ctx.run(O.opt1_shared_optional_payload)
    ctx.run(O.flw7_catalogue_lookups_on_query_path)
    ctx.run(L.flw22_busy_flag_released)
    ctx.run(O.ord17_loaded_mark_after_handles)
    ctx.run(O.pan6_cold_load_failures_are_values)
    ctx.run(O.who6_column_handles_are_never_removed)
    return ctx.finish(
        'Static lock analysis over compiler MIR (guard birth/transfer/death, must-hold sets per '
        'program point): the snapshot reads buffer, frozen buffer and partition map under all '
        'three locks; frozen rows become a partition under one frozen-buffer critical section; '
        'compaction swaps under one write lock; lock order matches the declared one; the flush '
        'never unwraps an evictable column payload. That results equal a prefix at value level is '
        'not decided.',
        trusted_base=['rustc MIR printer of the pinned toolchain', 'mirlib text parser',
                      'std::sync lock semantics'])
