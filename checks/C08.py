"""C08 - acknowledged data survives a clean restart: the durability protocol (DESIGN.md 5/C08)."""
from rules import durability as D
from rules import units as U
from rules import locking as L


def run(ctx):
    D.ord3_ack_after_durable(ctx)
    D.ord4_atomic_store(ctx)
    D.flw3_storage_errors_not_dropped(ctx)
    D.ord5_flush_order(ctx)
    D.flw4_cursor_values(ctx)
    D.flw5_replay_delete_split(ctx)
    D.ord10_cursor_before_snapshot(ctx)
    L.lck1_flush_critical_section(ctx, with_reset=False)
    L.lck2_ingest_critical_section(ctx)
    D.lit3_wal_file_names(ctx)
    U.flw17_segment_id_units(ctx)
    D.flw18_segment_id_consistency(ctx)
    D.ord15_store_not_conditional_on_presence(ctx)
    D.erv4_no_error_discarded(ctx)
    return ctx.finish(
        'Static analysis of compiler MIR: structural clauses of the write-ahead protocol that are '
        'necessary for "acknowledged data survives restart" are decided on every CFG path '
        '(dominance / must-pass-through / dataflow); value-level equality of replayed content is '
        'not decided.',
        trusted_base=['rustc MIR printer of the pinned toolchain', 'mirlib text parser',
                      'fs honours sync_all + atomic rename'])
