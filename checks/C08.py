"""C08 - acknowledged data survives a clean restart: the durability protocol (DESIGN.md 5/C08)."""
from rules import durability as D
from rules import units as U
from rules import locking as L
from rules import recovery as R
from rules import builders as B


def run(ctx):
    ctx.run(D.ord3_ack_after_durable)
    ctx.run(D.ord4_atomic_store)
    ctx.run(D.flw3_storage_errors_not_dropped)
    ctx.run(D.ord5_flush_order)
    ctx.run(D.flw4_cursor_values)
    ctx.run(D.flw5_replay_delete_split)
    ctx.run(D.ord10_cursor_before_snapshot)
    ctx.run(L.lck1_flush_critical_section, with_reset=False)
    ctx.run(L.lck2_ingest_critical_section)
    ctx.run(D.lit3_wal_file_names)
    ctx.run(U.flw17_segment_id_units)
    ctx.run(D.flw18_segment_id_consistency)
    ctx.run(D.ord15_store_not_conditional_on_presence)
    ctx.run(D.erv4_no_error_discarded)
    ctx.run(R.ord18_no_flusher_before_replay_is_complete)
    ctx.run(B.pan7_empty_batch_is_applicable)
    ctx.run(B.tbl25_decoder_validates_what_the_applier_assumes)
    return ctx.finish(
        'Static analysis of compiler MIR: structural clauses of the write-ahead protocol that are '
        'necessary for "acknowledged data survives restart" are decided on every CFG path '
        '(dominance / must-pass-through / dataflow); value-level equality of replayed content is '
        'not decided.',
        trusted_base=['rustc MIR printer of the pinned toolchain', 'mirlib text parser',
                      'fs honours sync_all + atomic rename'])
