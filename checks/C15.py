"""C15 - each column is found in its file, under any name (narrow claim)."""
from rules import paths as PT
from rules import payload as O


def run(ctx):
    ctx.run(PT.flw10_paths_from_sanitised_parts)
    ctx.run(PT.set_rules)
    ctx.run(PT.flw11_digest_when_modified)
    ctx.run(PT.ord8_routing_tables)
    ctx.run(O.ord17_loaded_mark_after_handles)
    return ctx.finish(
        'Static rules: every path below the tables directory is tables_path / '
        'sanitize_table_name(t) / partition_filename(id, key) and every wal path is a formatted u64; '
        'the acceptance sets of the two name predicates exclude path separators and NUL (constant '
        'folding of the predicates on the forbidden characters) and bound the length; a modified '
        'table name always gets the SHA-256 of the original appended; columns are sorted before '
        'grouping and the three builders of the last-column index agree; a file is marked as loaded '
        '(which makes a name without a handle read as "absent") only after the handles of its columns '
        'are installed. The range lookup itself '
        'and hash collisions are NOT decided.',
        trusted_base=['rustc MIR printer of the pinned toolchain', 'mirlib text parser', 'syn'])
