"""C03 - WHERE keeps exactly the matching rows: order-preservation and comparison tables (narrow claim)."""
from rules import misc as M
from rules import tables as T


def run(ctx):
    ctx.run(M.ord1_dictionary_sorted)
    ctx.run(M.tbl2_codec_properties)
    ctx.run(M.tbl3_comparison_registry)
    ctx.run(T.tbl17_constant_translation_is_inverse)
    return ctx.finish(
        'Static rules: the string dictionary is sorted before indices are assigned (range '
        'predicates run on dictionary indices), a codec op is declared order-/summation-preserving '
        'only if it is, and the comparison rows of the function registry are mutually consistent '
        '(GT/GTE = LT/LTE with swapped operands, mixed rows cast the integer side). Necessary '
        'conditions only; the result of a comparison, constant translation into the encoding '
        'domain, NULL semantics and filter application are NOT decided.',
        trusted_base=['rustc MIR printer of the pinned toolchain', 'mirlib text parser', 'syn'])
