"""C03 - WHERE keeps exactly the matching rows: order-preservation and comparison tables (narrow claim)."""
from rules import misc as M
from rules import tables as T
from rules import filtering as FL
from rules import operators as OP


def run(ctx):
    ctx.run(M.ord1_dictionary_sorted)
    ctx.run(M.tbl2_codec_properties)
    ctx.run(M.tbl3_comparison_registry)
    ctx.run(T.tbl17_constant_translation_is_inverse)
    ctx.run(FL.flw23_filter_exactly_once)
    ctx.run(OP.who5_in_place_operators)
    ctx.run(OP.tbl19_connectives_and_null)
    ctx.run(OP.tbl20_registry_forwards_null)
    ctx.run(OP.nul7_reused_null_map_reset_completely)
    return ctx.finish(
        'Static rules: the string dictionary is sorted before indices are assigned (range '
        'predicates run on dictionary indices), a codec op is declared order-/summation-preserving '
        'only if it is, and the comparison rows of the function registry are mutually consistent '
        '(GT/GTE = LT/LTE with swapped operands, mixed rows cast the integer side); a WHERE constant is '
        'translated by the inverse of the decode op applied once; the compiled filter is applied exactly '
        'once to everything a partition plan reads (two-point typestate Unfiltered/Filtered over a '
        'flow-sensitive MIR slice: no double filter, no partition-length source that bypasses it, every '
        'expression compiled with the WHERE filter). Necessary conditions only; the result of a '
        'comparison and NULL semantics of the operators are NOT decided.',
        trusted_base=['rustc MIR printer of the pinned toolchain', 'mirlib text parser', 'syn'])
