"""C04 - aggregates per group (narrow claim: the aggregator tables and the checked SUM chain)."""
from rules import tables as T
from rules import chk as K
from rules import filtering as FL
from rules import operators as OP


def run(ctx):
    ctx.run(T.tbl15_aggregator_plumbing)
    ctx.run(T.tbl16_aggregator_operations)
    ctx.run(T.tbl14_aggregate_merge_table)
    ctx.run(K.chk8_sum)
    ctx.run(FL.flw23_filter_exactly_once)
    ctx.run(OP.nul3_sentinel_survives_casts)
    ctx.run(OP.pan5_result_type_lattice_total)
    ctx.run(OP.nul4_in_place_null_map_moves_write_both_outcomes)
    ctx.run(OP.who5_in_place_operators)
    ctx.run(OP.pan8_range_arithmetic)
    return ctx.finish(
        'Syntax-tree table rules: an aggregate keeps its kind from the SQL text (COUNT/SUM/MIN/MAX, '
        'AVG = SUM / COUNT) through the planner to the operator; each aggregator marker type accumulates '
        'and combines with its own operation from its neutral element; partial aggregates of two '
        'partitions are merged with the operation of their own aggregator, a NULL partial result yields '
        'the other side, and the merge plan passes every aggregate column its own aggregator; integer '
        'SUM stays on the checked chain (C06); the WHERE filter is applied exactly once to grouping keys '
        'and aggregate inputs (FLW-23). These are necessary conditions of "the answer is the '
        'same whether the table is one partition or many". Group identity, the values of COUNT / SUM / '
        'MIN / MAX / AVG per group, NULL groups and the sorted-merge precondition are properties of '
        'computed data and are NOT decided.',
        trusted_base=['syn syntax tree of the unmodified sources', 'rustc MIR printer of the pinned toolchain (CHK-8)'])
