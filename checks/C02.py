"""C02 - results do not depend on physical layout (narrow claim: the structural clauses)."""
from rules import misc as M
from rules import tables as T
from rules import locking as L
from rules import operators as OP


def run(ctx):
    ctx.run(M.ord16_partials_combined_in_partition_order)
    ctx.run(T.tbl14_aggregate_merge_table)
    ctx.run(L.flw16_offsets_count_placed_rows)
    ctx.run(M.ord13_sort_structure)
    ctx.run(OP.nul3_sentinel_survives_casts)
    ctx.run(OP.pan5_result_type_lattice_total)
    ctx.run(OP.nul7_reused_null_map_reset_completely)
    return ctx.finish(
        'Equality of results across batchings, compaction states, batch sizes and thread counts is a '
        'relation between runtime values and is NOT decided. Decided are four clauses of it that are '
        'visible in the shape of the code and necessary: (1) partial results of the partitions are put '
        'together in partition order - an ordered map keyed by the start of the scanned range, only '
        'contiguous ranges merge, left before right - so the answer does not depend on which worker '
        'finishes first or on how many there are; (2) partial aggregates are merged with the operation '
        'of their own aggregator, so splitting a table into more partitions does not change a group\'s '
        'value; (3) the ephemeral partitions built from the frozen and the open buffer follow the '
        'persisted ones without gap or overlap of row offsets; (4) the per-partition sort is a stable '
        'last-to-first multi-key sort, so the merge sees the same order whatever the split.',
        trusted_base=['syn syntax tree of the unmodified sources', 'rustc MIR printer of the pinned toolchain'])
