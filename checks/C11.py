"""C11 - every call completes; a failing request does no damage."""
from rules import locking as L
from rules import shell as S
from rules import limits as LM
from rules import payload as O
from rules import chk as K
from rules import misc as M
from rules import durability as D
from rules import operators as OP
from rules import builders as B
from rules import tables as T
from rules import recovery as R


def run(ctx):
    ctx.run(L.lck8_acyclic)
    ctx.run(L.lck9_no_blocking_under_lock)
    ctx.run(L.lck10_no_reentrant_acquisition)
    ctx.run(L.cnd1_condvars)
    ctx.run(L.job1_pool_jobs)
    ctx.run(S.erv2_request_shell)
    ctx.run(S.erv1_final_pass)
    ctx.run(LM.flw1_limit_arithmetic)
    ctx.run(O.opt1_shared_optional_payload)
    ctx.run(O.flw7_catalogue_lookups_on_query_path)
    ctx.run(K.chk7_scalar_implementations)
    ctx.run(L.cnd2_every_wakeup_condition_notifies)
    ctx.run(M.ord13_top_n_limit_zero)
    ctx.run(D.erv4_no_error_discarded)
    ctx.run(L.flw22_busy_flag_released)
    ctx.run(S.pan4_constant_result_columns)
    ctx.run(OP.pan5_result_type_lattice_total)
    ctx.run(O.pan6_cold_load_failures_are_values)
    ctx.run(B.pan7_empty_batch_is_applicable)
    ctx.run(B.flw24_integer_builder_differences)
    ctx.run(B.nul6_mixed_buffer_keeps_row_slots)
    ctx.run(T.tbl17_constant_translation_is_inverse)
    ctx.run(OP.pan8_range_arithmetic)
    ctx.run(R.cnd3_block_condition_implies_flush_condition)
    ctx.run(L.lck11_worker_never_waits_for_its_own_pool)
    ctx.run(B.tbl25_decoder_validates_what_the_applier_assumes)
    return ctx.finish(
        'Static analysis of compiler MIR: deadlock-freedom clauses (acyclic lock-order graph over '
        'all lock identities, no guard across blocking calls except tabled sites, paired condvar '
        'notifications, exactly-once replies of awaited pool jobs) and no-damage clauses (request '
        'errors are values in the request shell, no unchecked arithmetic on LIMIT/OFFSET, checked '
        'scalar operators cannot hit a division/overflow assert, flush never unwraps an evictable '
        'payload). Panic-freedom of the whole operator engine and running-time bounds are not '
        'decided.',
        trusted_base=['rustc MIR printer of the pinned toolchain', 'mirlib text parser',
                      'call graph over-approximation for dyn/generic calls'])
