"""C12 - every query string gets a well-formed answer or an error value."""
from rules import shell as S
from rules import limits as LM
from rules import shape as SH
from rules import locking as L
from rules import misc as M
from rules import operators as OP


def run(ctx):
    ctx.run(S.pan2_parse_layer)
    ctx.run(S.pan3_task_construction)
    ctx.run(S.erv2_request_shell)
    ctx.run(LM.flw1_limit_arithmetic)
    ctx.run(SH.flw8_shape)
    ctx.run(SH.flw8_star_expansion_only_for_select_star)
    ctx.run(L.lck10_no_reentrant_acquisition, scope_prefixes=['engine::execution::query_task::', 'scheduler::shared_sender::', 'locustdb::'])
    ctx.run(M.ord13_top_n_limit_zero)
    ctx.run(S.pan4_constant_result_columns)
    ctx.run(OP.pan8_range_arithmetic)
    ctx.run(SH.flw26_row_and_column_view_one_window)
    ctx.run(S.tbl24_statement_destructured_exhaustively)
    return ctx.finish(
        'Static analysis of compiler MIR + syntax tree: the text -> AST -> Query -> task shell has '
        'no explicit panic source (unwrap/expect/panic!/assert/index) except tabled, reasoned '
        'sites; request errors are delivered as values; LIMIT/OFFSET arithmetic is saturating; '
        'result columns are built by zipping names with sources produced from the select list. '
        'Panics inside the external sqlparser crate and well-formedness of values are not decided.',
        trusted_base=['rustc MIR printer of the pinned toolchain', 'mirlib text parser', 'syn'])
