"""C05 - ORDER BY / LIMIT / OFFSET: limit sentinel arithmetic and single application of the offset."""
from rules import limits as LM
from rules import misc as M
from rules import tables as T
from rules import operators as OP
from rules import shape as SH
from rules import shell as S


def run(ctx):
    ctx.run(LM.flw1_limit_arithmetic)
    ctx.run(M.ord2_offset_applied_once)
    ctx.run(M.ord13_sort_structure)
    ctx.run(M.ord13_top_n_limit_zero)
    ctx.run(M.ord16_partials_combined_in_partition_order)
    ctx.run(T.tbl13_comparators)
    ctx.run(OP.nul3_sentinel_survives_casts)
    ctx.run(OP.pan5_result_type_lattice_total)
    ctx.run(SH.flw26_row_and_column_view_one_window)
    ctx.run(S.tbl24_statement_destructured_exhaustively)
    return ctx.finish(
        'MIR dataflow: interprocedural taint of values read from LimitClause fields (the limit may '
        'be the sentinel u64::MAX); no unchecked + / * on such a value and no unchecked subtraction '
        'of one, on the dev and release semantics; the offset is read only where limit+offset rows '
        'are kept and where the final result is sliced. Sort order, NULL placement, top-n vs sort '
        'and merge results are NOT decided.',
        trusted_base=['rustc MIR printer of the pinned toolchain', 'mirlib text parser'])
