"""C13 - columns may come and go; the catalogue lists each once (narrow claim)."""
from rules import misc as M
from rules import operators as OP
from rules import payload as O
from rules import builders as B


def run(ctx):
    ctx.run(M.ord7_catalogue_rows_in_same_segment)
    ctx.run(M.tbl6_ingestion_siblings)
    ctx.run(M.who3_column_names_writers)
    ctx.run(M.ord12_names_loaded_before_ingest)
    ctx.run(M.flw21_catalogue_sees_every_key)
    ctx.run(M.lit2_catalogue_literals)
    ctx.run(M.flw2_compaction_covers_names)
    ctx.run(OP.pan5_result_type_lattice_total)
    ctx.run(OP.tbl20_registry_forwards_null)
    ctx.run(O.who6_column_handles_are_never_removed)
    ctx.run(B.flw27_zero_row_tables_dropped_first)
    return ctx.finish(
        'Static rules: catalogue rows are added to the event buffer before it is cloned for the '
        'write-ahead segment; the three ingestion siblings record every incoming name under both '
        'locks before pushing; only they, the constructor and the lazy initialiser write the name '
        'set; catalogue literals agree between writer, seeder and readers; compaction covers the name '
        'set. Exactly-once listing over histories and lazy-initialisation timing are NOT decided.',
        trusted_base=['rustc MIR printer of the pinned toolchain', 'mirlib text parser', 'syn'])
