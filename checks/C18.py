"""C18 - a finished flush leaves no garbage and unblocks ingestion."""
from rules import durability as D
from rules import units as U
from rules import locking as L
from rules import recovery as R


def run(ctx):
    L.lck1_flush_critical_section(ctx, with_reset=True)
    L.cnd1_condvars(ctx)
    D.ord5_flush_order(ctx)
    D.flw14_nothing_to_delete_is_lost(ctx)
    D.ord4_atomic_store(ctx)
    R.flw15_flush_trigger(ctx)
    D.lit3_wal_file_names(ctx)
    U.flw17_segment_id_units(ctx)
    D.flw19_log_size_accounted(ctx)
    L.cnd2_every_wakeup_condition_notifies(ctx)
    return ctx.finish(
        'Static analysis of compiler MIR: the flush resets the accounted log size to 0 and '
        'notifies under the ingestion lock; every file of a merged-away partition and the frozen '
        'log range reach their delete calls on every path after the catalogue write; a successful '
        'store leaves no temp file (rename is the last step); the flush thread triggers on size, '
        'file count or pending request and answers every pending sender. The actual directory '
        'listing and boundedness over long histories are not decided.',
        trusted_base=['rustc MIR printer of the pinned toolchain', 'mirlib text parser'])
