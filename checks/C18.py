"""C18 - a finished flush leaves no garbage and unblocks ingestion."""
from rules import durability as D
from rules import units as U
from rules import locking as L
from rules import recovery as R


def run(ctx):
    ctx.run(L.lck1_flush_critical_section, with_reset=True)
    ctx.run(L.cnd1_condvars)
    ctx.run(D.ord5_flush_order)
    ctx.run(D.flw14_nothing_to_delete_is_lost)
    ctx.run(D.ord4_atomic_store)
    ctx.run(R.flw15_flush_trigger)
    ctx.run(D.lit3_wal_file_names)
    ctx.run(U.flw17_segment_id_units)
    ctx.run(D.flw19_log_size_accounted)
    ctx.run(L.cnd2_every_wakeup_condition_notifies)
    ctx.run(R.cnd3_block_condition_implies_flush_condition)
    return ctx.finish(
        'Static analysis of compiler MIR: the flush resets the accounted log size to 0 and '
        'notifies under the ingestion lock; every file of a merged-away partition and the frozen '
        'log range reach their delete calls on every path after the catalogue write; a successful '
        'store leaves no temp file (rename is the last step); the flush thread triggers on size, '
        'file count or pending request and answers every pending sender. The actual directory '
        'listing and boundedness over long histories are not decided.',
        trusted_base=['rustc MIR printer of the pinned toolchain', 'mirlib text parser'])
