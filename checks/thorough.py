"""Extra work of the thorough tier (run before the property's own rules so that everything lands in
the same evidence file):
  * release-semantics facts: the arithmetic rules are decided again on MIR dumped with
    -C overflow-checks=off -C debug-assertions=off (wrap instead of panic);
  * whole-crate inventories (panic-site census, unwrap-on-QueryError census) - reported, not armed;
  * checker validation: every catalogue mutant that names this property is applied to a scratch copy
    of /repo, facts are re-dumped and the named rule must report the named instance; a missed mutant
    is a broken checker (exit 2).  The same for the independently seeded changes (seeded/index.json)
    and, on the silent side, for the behaviour-preserving variants (mutants/equivalent).
"""
import collections
import json
import os
import subprocess
import sys

from mirlib import core, facts

RELEASE_PROPS = {'C05', 'C06', 'C11', 'C12'}


def before(ctx):
    prop = ctx.prop
    if prop in RELEASE_PROPS:
        release_rules(ctx)
    census(ctx)
    validate_mutants(ctx)


def release_rules(ctx):
    from rules import limits
    P = ctx.P_release
    sub = core.Ctx(ctx.prop, 'thorough')
    sub._program = P
    limits.flw1_limit_arithmetic(sub)
    for i in sub.instances:
        ctx.check('FLW-1(release)', i['key'].split('|', 1)[1], i['ok'],
                  '[release semantics: wraps instead of panicking] ' + i['what'], i['where'])
    ctx.rule('FLW-1(release)', 'FLW-1 decided on MIR dumped with overflow checks off')


def census(ctx):
    from rules import panics
    P = ctx.P
    kinds = collections.Counter()
    per_mod = collections.Counter()
    erv = 0
    for b in P.fn_bodies():
        if b.crate != 'locustdb':
            continue
        for ps in panics.panic_sources(b):
            kinds[ps.kind] += 1
            per_mod[b.name.split('::')[0]] += 1
            if ps.kind == 'unwrap' and any(e in (ps.term.func or '') for e in panics.ERR_TYPES):
                erv += 1
    ctx.extra['census'] = {
        'explicit_panic_sources_by_kind': dict(kinds),
        'explicit_panic_sources_by_module': dict(per_mod.most_common(12)),
        'unwraps_of_request_level_errors_whole_crate': erv,
        'note': 'inventory only; the armed scopes are listed per rule',
    }


# scratch copies evaluated side by side, each worker with its own cargo target directory
JOBS = os.environ.get('VERIF_JOBS', '4')


def validate_mutants(ctx):
    cat_path = os.path.join(facts.VERIF, 'mutants', 'catalogue.json')
    cat = json.load(open(cat_path))['mutants']
    mine = [e for e in cat if ctx.prop in e['props']]
    if os.environ.get('VERIF_REPO'):
        # we are ourselves running inside a mutant evaluation: do not recurse
        return
    env = dict(os.environ)
    env.pop('VERIF_EVIDENCE_DIR', None)
    if not mine:
        ctx.extra['checker_validation'] = {'mutants': 0}
    else:
        out = os.path.join(facts.CACHE, 'mutant_results_%s_%d.json' % (ctx.prop, os.getpid()))
        r = subprocess.run([sys.executable, os.path.join(facts.VERIF, 'tools', 'run_mutants.py'),
                            '--prop', ctx.prop, '--json', out, '--jobs', JOBS], capture_output=True, text=True, env=env)
        results = json.load(open(out)) if os.path.exists(out) else []
        if os.path.exists(out):
            os.unlink(out)
        ctx.extra['checker_validation'] = {
            'mutants': len(mine),
            'detected': sum(1 for x in results if x.get('detected')),
            'results': [{'patch': x['patch'], 'detected': x['detected'],
                         'keys': {p: v['keys'][:3] for p, v in x.get('results', {}).items()}}
                        for x in results],
        }
        missed = [x['patch'] for x in results if not x.get('detected')]
        if r.returncode != 0 or missed or len(results) != len(mine):
            raise core.CheckerError('checker validation: seeded mutants not detected: %s\n%s'
                                    % (missed, r.stdout[-1500:]))
    # silent side: behaviour-preserving variants that concern this property
    out2 = os.path.join(facts.CACHE, 'equiv_results_%s_%d.json' % (ctx.prop, os.getpid()))
    r2 = subprocess.run([sys.executable, os.path.join(facts.VERIF, 'tools', 'run_equivalents.py'),
                         '--prop', ctx.prop, '--json', out2, '--jobs', JOBS], capture_output=True, text=True, env=env)
    eq = json.load(open(out2)) if os.path.exists(out2) else []
    if os.path.exists(out2):
        os.unlink(out2)
    ctx.extra['checker_validation']['equivalent_variants'] = {
        'run': len(eq), 'silent': sum(1 for x in eq if x.get('silent')),
        'results': [{'patch': x['patch'], 'silent': x['silent']} for x in eq]}
    loud = [x['patch'] for x in eq if not x.get('silent')]
    if r2.returncode != 0 or loud:
        raise core.CheckerError('checker validation: false alarm on behaviour-preserving variants: %s\n%s'
                                % (loud, r2.stdout[-1500:]))
    # firing side 2: the independently seeded changes that break this property
    out3 = os.path.join(facts.CACHE, 'seed_results_%s_%d.json' % (ctx.prop, os.getpid()))
    r3 = subprocess.run([sys.executable, os.path.join(facts.VERIF, 'tools', 'run_seeds.py'),
                         '--prop', ctx.prop, '--json', out3, '--jobs', JOBS], capture_output=True, text=True, env=env)
    sd = json.load(open(out3)) if os.path.exists(out3) else []
    if os.path.exists(out3):
        os.unlink(out3)
    ctx.extra['checker_validation']['seeded_changes'] = {
        'run': len(sd), 'as_expected': sum(1 for x in sd if x.get('as_expected')),
        'results': [{'seed': x['seed'], 'as_expected': x['as_expected'],
                     'keys': {p: v['keys'][:2] for p, v in x.get('results', {}).items()}} for x in sd]}
    off = [x['seed'] for x in sd if not x.get('as_expected')]
    if r3.returncode != 0 or off:
        raise core.CheckerError('checker validation: seeded changes not reported as recorded: %s\n%s'
                                % (off, r3.stdout[-1500:]))
