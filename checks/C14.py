"""C14 - stored files read back as written or are rejected: envelope and codec tables."""
from rules import envelope as E
from rules import durability as D
from rules import tables as T
from rules import recovery as R
from rules import payload as O


def run(ctx):
    ctx.run(E.flw9_envelope)
    ctx.run(D.who4_envelope)
    ctx.run(T.tbl7_partition_codec)
    ctx.run(T.tbl8_event_buffer_codec)
    ctx.run(T.tbl9_catalogue_codec)
    ctx.run(R.pan1_awaited_jobs_report_failures)
    ctx.run(D.erv4_no_error_discarded)
    ctx.run(O.pan6_cold_load_failures_are_values)
    ctx.run(T.tbl26_reader_passes_stored_scalars_unchanged)
    return ctx.finish(
        'Static analysis: (a) MIR dataflow/dominance on the blob envelope - the payload is returned '
        'only after minimum-length, version, total-length and SHA-256 checks over exactly the '
        'returned bytes, and every file goes through the envelope; (b) syntax-tree table comparison '
        'of the three hand-written codecs - serialiser and deserialiser compose to the identity on '
        'variants, union members and positional fields, cross-checked with the capnp schemas; '
        '(c) recovery jobs report load/decode failures as values. capnp\'s own encoding, SHA-256 '
        'collision freedom and structural equality for all values are not decided.',
        trusted_base=['rustc MIR printer of the pinned toolchain', 'mirlib text parser', 'syn',
                      'capnp crate', 'sha2 crate'])
