"""C07 - flush, compaction and eviction never change content (narrow claim)."""
from rules import misc as M
from rules import payload as O
from rules import paths as PT
from rules import tables as T


def run(ctx):
    ctx.run(M.tbl4_decode_siblings)
    ctx.run(M.tbl5_compaction_dispatch)
    ctx.run(M.flw2_compaction_covers_names)
    ctx.run(O.opt1_shared_optional_payload)
    ctx.run(M.lit2_catalogue_literals)
    ctx.run(M.nul1_null_map_never_ignored)
    ctx.run(M.nul2_bitmap_ones_fill_whole_bytes_only)
    ctx.run(M.nul5_builder_bitmap_written_bitwise)
    ctx.run(PT.flw11_digest_when_modified)
    ctx.run(O.who6_column_handles_are_never_removed)
    ctx.run(T.tbl26_reader_passes_stored_scalars_unchanged)
    return ctx.finish(
        'Static rules on the compaction path, which re-encodes every column through a second decode '
        'routine the query path never uses: that routine handles every codec op and every '
        '(compression, element type) pair its siblings handle, the type dispatch of compaction has a '
        'pushing arm for every decoded type, compaction ranges over the full name set and all parts, '
        'the flush never unwraps an evictable payload, catalogue literals agree. That re-encoding '
        'preserves values and that partition offsets tile [0,n) are NOT decided.',
        trusted_base=['rustc MIR printer of the pinned toolchain', 'mirlib text parser', 'syn'])
