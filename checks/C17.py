"""C17 - the HTTP interface behaves like the embedded one (error mapping, insert ordering, JSON tables)."""
from rules import shell as S
from rules import tables as T
from rules import builders as B


def run(ctx):
    ctx.run(S.erv3_http_maps_errors)
    ctx.run(S.ord9_insert)
    ctx.run(T.tbl11_json_renderers)
    ctx.run(S.ord14_multi_query_positional)
    ctx.run(B.tbl25_decoder_validates_what_the_applier_assumes)
    ctx.run(T.tbl11_signature_scan_sees_every_value)
    return ctx.finish(
        'Static analysis: every handler that runs a query maps the error to a non-2xx response '
        'and none unwraps it; insert_bin answers 200 only on the Ready edge of the ingestion future '
        'and 400 without ingesting; the two JSON renderers map the Value variants identically and '
        'the column type-signature bits are distinct powers of two; the multi-query handler gathers answers in request order. Value equality between HTTP and '
        'embedded results is not decided.',
        trusted_base=['rustc MIR printer of the pinned toolchain', 'mirlib text parser', 'syn'])
