"""C16 - client/server encodings are lossless (narrow claim)."""
from rules import tables as T
from rules import widths as W
from rules import misc as M
from rules import builders as B


def run(ctx):
    ctx.run(T.tbl8_event_buffer_codec)
    ctx.run(T.tbl10_response_codec)
    ctx.run(T.tbl12_xor_stream_fields)
    ctx.run(W.wid3_response_layouts)
    ctx.run(W.flw12_widen_before_subtract)
    ctx.run(W.flt1_lossless_float_codec_compares_bits)
    ctx.run(M.lit1_null_patterns)
    ctx.run(B.pan7_empty_batch_is_applicable)
    ctx.run(B.tbl22_client_column_push_uses_row_position)
    ctx.run(B.tbl25_decoder_validates_what_the_applier_assumes)
    return ctx.finish(
        'Static rules: the ingestion message codec and the response codec map every variant to '
        'union members the reader maps back to the same variant; each narrow integer layout is '
        'guarded by the bounds of its own type on the matching statistic, double-delta layouts only '
        'when first differences fit i64; statistics widen before subtracting; NULL NaN pattern '
        'consistent; the XOR float stream codec agrees on field widths/biases and never branches on a float comparison. The XOR state machine and the delta arithmetic themselves are NOT decided.',
        trusted_base=['rustc MIR printer of the pinned toolchain', 'mirlib text parser', 'syn'])
