"""C09 - recovery after a crash at any point: ordering and ownership of file effects."""
from rules import durability as D
from rules import recovery as R


def run(ctx):
    ctx.run(D.ord4_atomic_store)
    ctx.run(D.ord5_flush_order)
    ctx.run(D.flw3_storage_errors_not_dropped)
    ctx.run(D.flw5_replay_delete_split)
    ctx.run(D.ord10_cursor_before_snapshot)
    ctx.run(D.who1_who_may_remove)
    ctx.run(D.who2_who_may_write, R.WHO2_TABLE)
    ctx.run(R.flw6_recovery_ignores_staging)
    ctx.run(R.pan1_awaited_jobs_report_failures)
    ctx.run(D.ord11_files_before_catalogue_entry)
    ctx.run(D.lit3_wal_file_names)
    ctx.run(D.ord15_store_not_conditional_on_presence)
    ctx.run(D.erv4_no_error_discarded)
    return ctx.finish(
        'Static analysis of compiler MIR: a crash between any two file effects leaves either the '
        'old catalogue with all its files and log segments or the new one, because (a) blobs are '
        'replaced atomically (create-write-sync-rename, each step checked), (b) data files precede '
        'the catalogue write and deletions follow it on every CFG path, (c) only the blob backend '
        'removes or creates files and only the flush tail / recovery call it, (d) recovery only '
        'replays *.wal files and its pool jobs report failures as values. The behaviour of a '
        'recovery run itself (content equality, idempotence) is not decided.',
        trusted_base=['rustc MIR printer of the pinned toolchain', 'mirlib text parser',
                      'fs honours sync_all + atomic rename'])
