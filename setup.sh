#!/bin/bash
# Build the verification tooling from files on disk only (offline).
set -e
cd "$(dirname "$0")"
export CARGO_NET_OFFLINE=true
(cd astq && cargo build --release --offline)
# dependency metadata for the MIR dumps + facts for the current tree (cold: ~3 min)
python3 -c "
import sys
sys.path.insert(0, '.')
from mirlib import facts, astlib
print(facts.facts_dir())
print(astlib.ast_path())
from rules import selftest
print(selftest.control_facts()[0])
"
