"""FLW-9: the versioned + checksummed blob envelope (C14)."""
import re

from mirlib.cfg import CFG
from mirlib.dataflow import DefUse, base_local, locals_in
from mirlib.program import norm_callee
from .common import calls_matching, where, blocks_assigning_ok_return
from .durability import blobwriter_method

ENV = '<VersionedChecksummedBlobWriter as BlobWriter>::'


def _consts(org):
    out = set()
    for c in org['consts']:
        m = re.match(r'^const (\d+)_usize$', c)
        if m:
            out.add(int(m.group(1)))
    return out


SLICERS = ('<Vec as Index>::index', '<[T] as Index>::index', '<[u8] as Index>::index',
           'core::slice::<impl [u8]>::get', '[u8]::get', 'core::slice::<impl [u8]>::split_at',
           '[u8]::split_at', 'core::slice::<impl [T]>::get', 'core::slice::<impl [T]>::split_at',
           '[T]::get', '[T]::split_at')


def _is_slicer(n):
    return n in SLICERS or n.endswith('::split_at') or re.search(r'(\[T\]|\[u8\]|Vec)(>)?::(get|index)$', n) is not None \
        or re.search(r'Index>::index$', n) is not None


def _byte_consts(org):
    """usize constants used to pick bytes (index / range bounds) on the way to a value."""
    out = set()
    for c in org['consts']:
        m = re.match(r'^const (\d+)_usize$', c)
        if m:
            out.add(int(m.group(1)))
    return out


def flw9_envelope(ctx):
    ctx.rule('FLW-9', 'envelope: load returns the payload only after minimum-length, version, '
                      'exact total-length and SHA-256 checks over exactly the returned bytes; store '
                      'writes version, length, digest, data', floor=8)
    P = ctx.P
    L = P.one(ENV + 'load')
    du = DefUse(L)
    cfg = CFG(L)
    okb = blocks_assigning_ok_return(L)
    ctx.require(okb, 'FLW-9: envelope load has no Ok return')
    inner = [(b, t) for (b, t) in L.calls() if not b.cleanup and blobwriter_method(t.func) == 'load']
    ctx.require(inner, 'FLW-9: envelope load does not read from the backend')
    guards = []
    for bid, blk in L.blocks.items():
        t = blk.term
        if blk.cleanup or t is None or t.kind != 'switch':
            continue
        tg = [x for (_v, x) in t.targets
              if not (L.blocks[x].term is not None and L.blocks[x].term.kind == 'unreachable')]
        if len(tg) != 2:
            continue
        pass_t = [x for x in tg if all(cfg.dominates(x, o) for o in okb)]
        fail_t = [x for x in tg if x not in pass_t and not any(cfg.can_reach(x, o) or x == o for o in okb)]
        if len(pass_t) != 1 or len(fail_t) != 1:
            continue
        org = du.origins(base_local(t.discr))
        calls = [norm_callee(c.func) for (_b, c) in org['calls']]
        cmps = [re.match(r'^(Ne|Eq|Lt|Le|Gt|Ge)\(', st.rhs).group(1) for (_b, st) in org['stmts']
                if re.match(r'^(Ne|Eq|Lt|Le|Gt|Ge)\(', st.rhs)]
        # closures handed to combinators on the way (`.filter(|len| *len == body.len())`)
        for (_b, c) in org['calls']:
            for cb in P.closures_in_text(c.func):
                cb.parse()
                for blk2 in cb.blocks.values():
                    if blk2.cleanup:
                        continue
                    for st in blk2.stmts:
                        m2 = re.match(r'^(Ne|Eq|Lt|Le|Gt|Ge)\(', st.rhs or '') if st.kind == 'assign' else None
                        if m2:
                            cmps.append(m2.group(1))
                    if blk2.term is not None and blk2.term.kind == 'call':
                        calls.append(norm_callee(blk2.term.func))
        cmps += ['Ne' if c.endswith('PartialEq>::ne') else 'Eq' for c in calls
                 if c.endswith('PartialEq>::ne') or c.endswith('PartialEq>::eq')]
        has_word = any(c.endswith('::from_be_bytes') or c.endswith('::from_le_bytes') for c in calls)
        has_len = any(c.endswith('::len') for c in calls)
        has_get = any(re.search(r'::(get|get_mut|split_at_checked|checked_sub)$', c) for c in calls)
        has_digest = any(c.endswith('::finalize') for c in calls)
        if any(c.endswith(' as Try>::branch') for c in calls) and not (has_word or has_len or has_digest):
            continue
        role = None
        if has_digest:
            role = 'digest'
        elif has_word and (has_len or has_get):
            role = 'length-word'
        elif has_word:
            role = 'version'
        elif has_len:
            role = 'min-length'
        if role:
            guards.append({'role': role, 'bid': bid, 'term': t, 'org': org, 'calls': calls,
                           'cmps': cmps, 'consts': _byte_consts(org)})
    by_role = {}
    for g in guards:
        by_role.setdefault(g['role'], []).append(g)
    for need in ('min-length', 'version', 'length-word', 'digest'):
        if need not in by_role:
            ctx.violation('FLW-9', 'load|%s-check' % need,
                          'no %s check guards the Ok return of the envelope load: a file that is '
                          'truncated, extended, bit-flipped or foreign could be decoded' % need,
                          where(L.blocks[okb[0]].term))
    if 'min-length' in by_role:
        g = by_role['min-length'][0]
        ctx.ok('FLW-9', 'load|min-length-check',
               'the length of the loaded bytes is compared (%s) before the header is read'
               % g['cmps'], where(g['term']))
    if 'version' in by_role:
        g = by_role['version'][0]
        zero = any(re.match(r'^(Ne|Eq)\(.*const 0_u64\)$', st.rhs) or re.match(r'^(Ne|Eq)\(const 0_u64', st.rhs)
                   for (_b, st) in g['org']['stmts'])
        pos = bool(g['consts']) and min(g['consts']) == 0 and max(g['consts']) <= 8
        ctx.check('FLW-9', 'load|version-check', zero and pos,
                  'version word (byte positions %s) compared with 0' % sorted(g['consts']), where(g['term']))
    if 'length-word' in by_role:
        gs = by_role['length-word']
        exact = [g for g in gs if any(c in ('Eq', 'Ne') for c in g['cmps']) and
                 any(c.endswith('::len') for c in g['calls'])]
        pos = [g for g in gs if g['consts'] and min(g['consts'] - {0}) >= 8 and max(g['consts']) <= 48]
        g = (exact or gs)[0]
        ctx.check('FLW-9', 'load|length-word-check', bool(exact) and bool(pos),
                  'total length must EQUAL header + length word (bytes 8..16): %s'
                  % ('exact comparison found' if exact else
                     'only a one-sided bound (%s / %s): a file extended by a suffix is accepted'
                     % (sorted(set(g['cmps'])), sorted(c.split('::')[-1] for c in g['calls'] if _is_slicer(c)))),
                  where(g['term']))
    # digest: hashed slice == returned slice
    upd = calls_matching(L, lambda n: n.endswith('Digest>::update') or n.endswith('::update'))

    def slice_sig(operand):
        org = du.origins(base_local(operand))
        sig = set()
        for (b_, c) in org['calls']:
            n = norm_callee(c.func)
            if _is_slicer(n):
                o2 = du.origins(base_local(c.args[1])) if len(c.args) > 1 else {'consts': set()}
                sig.add((b_, n.split('::')[-1], tuple(sorted(_byte_consts(o2)))))
        return sig
    hashed = slice_sig(upd[0][1].args[1]) if upd else None
    returned = None
    for ob in okb:
        for st in L.blocks[ob].stmts:
            if st.kind == 'assign' and st.lhs == '_0':
                returned = slice_sig(st.rhs)
    if 'digest' in by_role:
        g = by_role['digest'][0]
        bytes_cmp = any(re.search(r'PartialEq>::(ne|eq)$', c) for c in g['calls'])
        on_len = any(c.endswith('::len') for c in g['calls'])
        ctx.check('FLW-9', 'load|digest-check', bool(upd) and bytes_cmp and not on_len,
                  'stored digest bytes are compared (slice equality: %s, via len(): %s) with SHA-256 of '
                  'a slice of the file' % (bytes_cmp, on_len), where(g['term']))
        same = hashed is not None and returned is not None and \
            {(n, c) for (_b, n, c) in hashed if n != 'split_at'} == {(n, c) for (_b, n, c) in returned if n != 'split_at'} \
            and bool(hashed)
        ctx.check('FLW-9', 'load|digest-covers-returned-bytes', same,
                  'the slice that is hashed is the slice that is returned (hashed via %s, returned via %s)'
                  % (sorted((n, c) for (_b, n, c) in (hashed or [])), sorted((n, c) for (_b, n, c) in (returned or []))),
                  where(g['term']))
    # store
    S = P.one(ENV + 'store')
    dus = DefUse(S)
    cfgs = CFG(S)
    exts = calls_matching(S, lambda n: n.endswith('Vec::extend') or n.endswith('Extend>::extend')
                          or n.endswith('Vec::extend_from_slice'))
    seq = []
    for (b, t) in exts:
        org = dus.origins(base_local(t.args[1]))
        calls = [norm_callee(c.func) for (_b, c) in org['calls']]
        if any(c.endswith('u64::to_be_bytes') for c in calls):
            seq.append(('version', b.id))
        elif any(c.endswith('usize::to_be_bytes') for c in calls):
            seq.append(('length', b.id))
        elif any(c.endswith('finalize') for c in calls):
            seq.append(('digest', b.id))
        elif 3 in org['args']:
            seq.append(('data', b.id))
        else:
            seq.append(('?', b.id))
    order = [r for (r, _b) in seq]
    chain = all(cfgs.dominates(a[1], b[1]) for a, b in zip(seq, seq[1:]))
    ctx.check('FLW-9', 'store|layout', order == ['version', 'length', 'digest', 'data'] and chain,
              'store appends %s (expected version, length, digest, data)' % order,
              where(exts[0][1]) if exts else where(S.blocks[0].term))
    # digest and length are computed from the data parameter
    upds = calls_matching(S, lambda n: n.endswith('Digest>::update') or n.endswith('::update'))
    ctx.check('FLW-9', 'store|digest-of-data', bool(upds) and
              all(3 in dus.origins(base_local(t.args[1]))['args'] for (b, t) in upds),
              'the digest is computed over the data parameter', where(upds[0][1]) if upds else None)
    inner_store = [(b, t) for (b, t) in S.calls() if not b.cleanup and blobwriter_method(t.func) == 'store']
    ctx.check('FLW-9', 'store|writes-wrapped', bool(inner_store) and
              all(3 not in [base_local(t.args[2])] for (b, t) in inner_store),
              'the backend receives the wrapped buffer, not the bare data', where(inner_store[0][1]) if inner_store else None)
