"""FLW-9: the versioned + checksummed blob envelope (C14)."""
import re

from mirlib.cfg import CFG
from mirlib.dataflow import DefUse, base_local, locals_in
from mirlib.program import norm_callee
from .common import calls_matching, where, blocks_assigning_ok_return
from .durability import blobwriter_method

ENV = '<VersionedChecksummedBlobWriter as BlobWriter>::'


def _consts(org):
    out = set()
    for c in org['consts']:
        m = re.match(r'^const (\d+)_usize$', c)
        if m:
            out.add(int(m.group(1)))
    return out


def flw9_envelope(ctx):
    ctx.rule('FLW-9', 'envelope: load returns the payload only after minimum-length, version, '
                      'total-length and SHA-256 checks; store writes version, length, digest, data',
             floor=8)
    P = ctx.P
    L = P.one(ENV + 'load')
    du = DefUse(L)
    cfg = CFG(L)
    okb = blocks_assigning_ok_return(L)
    ctx.require(okb, 'FLW-9: envelope load has no Ok return')
    inner = [(b, t) for (b, t) in L.calls() if not b.cleanup and blobwriter_method(t.func) == 'load']
    ctx.require(inner, 'FLW-9: envelope load does not read from the backend')
    data_local = None
    roles = {}
    for bid, blk in L.blocks.items():
        t = blk.term
        if blk.cleanup or t is None or t.kind != 'switch' or len(t.targets) != 2:
            continue
        tg = [x for (_v, x) in t.targets]
        pass_t = [x for x in tg if all(cfg.dominates(x, o) for o in okb)]
        fail_t = [x for x in tg if x not in pass_t and not any(cfg.can_reach(x, o) or x == o for o in okb)]
        if len(pass_t) != 1 or len(fail_t) != 1:
            continue
        org = du.origins(base_local(t.discr))
        calls = [norm_callee(c.func) for (_b, c) in org['calls']]
        idx = sorted({int(m.group(1)) for (_b, c) in org['calls']
                      if norm_callee(c.func) == '<Vec as Index>::index' and len(c.args) == 2
                      for m in [re.match(r'^const (\d+)_usize$', c.args[1])] if m})
        cmp_stmt = [st for (_b, st) in org['stmts'] if re.match(r'^(Ne|Eq|Lt|Le|Gt|Ge)\(', st.rhs)]
        role = None
        if any(c.endswith('Digest>::finalize') or c.endswith('::finalize') for c in calls):
            role = 'digest'
        elif any(c in ('u64::from_be_bytes', 'core::num::<impl u64>::from_be_bytes') for c in calls):
            role = 'version'
        elif any(c in ('usize::from_be_bytes', 'core::num::<impl usize>::from_be_bytes') for c in calls):
            role = 'length-word'
        elif any(c.endswith('Vec::len') for c in calls) and cmp_stmt:
            role = 'min-length'
        elif any(c.endswith(' as Try>::branch') for c in calls):
            continue
        if role:
            roles.setdefault(role, []).append((bid, t, org, idx, cmp_stmt, pass_t[0]))
    for need in ('min-length', 'version', 'length-word', 'digest'):
        if need not in roles:
            ctx.violation('FLW-9', 'load|%s-check' % need,
                          'no %s check guards the Ok return of the envelope load: a file that is '
                          'truncated, extended, bit-flipped or foreign could be decoded' % need,
                          where(L.blocks[okb[0]].term))
    if 'min-length' in roles:
        bid, t, org, idx, cmp_stmt, pt = roles['min-length'][0]
        cs = _consts(org)
        ctx.check('FLW-9', 'load|min-length-check', sum(cs & {8, 32}) >= 40 or 48 in cs,
                  'length is compared with the header size before any header byte is read '
                  '(constants %s)' % sorted(cs), where(t))
    if 'version' in roles:
        bid, t, org, idx, cmp_stmt, pt = roles['version'][0]
        good = idx == list(range(0, 8)) and any(re.match(r'^Ne\(.*, const 0_u64\)$', st.rhs) or
                                                 re.match(r'^Eq\(.*, const 0_u64\)$', st.rhs)
                                                 for st in cmp_stmt)
        ctx.check('FLW-9', 'load|version-check', good,
                  'version word = bytes %s compared with 0' % idx, where(t))
    if 'length-word' in roles:
        bid, t, org, idx, cmp_stmt, pt = roles['length-word'][0]
        calls = [norm_callee(c.func) for (_b, c) in org['calls']]
        good = idx == list(range(8, 16)) and any(c.endswith('Vec::len') for c in calls) and \
            any(re.match(r'^(Ne|Eq)\(', st.rhs) for st in cmp_stmt)
        ctx.check('FLW-9', 'load|length-word-check', good,
                  'total length compared (== / !=) with header + length word (bytes %s)' % idx, where(t))
    # digest: hashed slice == returned slice
    starts = {}
    for (b, t) in L.calls():
        if b.cleanup:
            continue
        n = norm_callee(t.func)
        if n == '<Vec as Index>::index' and 'RangeFrom<usize>' in t.func:
            org = du.origins(base_local(t.args[1]))
            starts[base_local(t.dest)] = (frozenset(_consts(org)), t)
    upd = calls_matching(L, lambda n: n.endswith('Digest>::update') or n.endswith('::update'))
    hashed = None
    for (b, t) in upd:
        org = du.origins(base_local(t.args[1]))
        for l, (cs, tt) in starts.items():
            if l in org['locals']:
                hashed = cs
    returned = None
    for ob in okb:
        for s in L.blocks[ob].stmts:
            if s.kind == 'assign' and s.lhs == '_0':
                org = du.origins(base_local(s.rhs))
                for l, (cs, tt) in starts.items():
                    if l in org['locals']:
                        returned = cs
    if 'digest' in roles:
        bid, t, org, idx, cmp_stmt, pt = roles['digest'][0]
        rng = [c for (_b, c) in org['calls'] if norm_callee(c.func) == '<Vec as Index>::index'
               and 'Range<usize>' in c.func and 'RangeFrom' not in c.func]
        ctx.check('FLW-9', 'load|digest-check',
                  bool(rng) and hashed is not None,
                  'stored digest bytes are compared with SHA-256 of a slice of the file', where(t))
        ctx.check('FLW-9', 'load|digest-covers-returned-bytes',
                  hashed is not None and hashed == returned,
                  'the slice that is hashed starts at the same offset as the slice that is returned '
                  '(hashed from %s, returned from %s)' % (sorted(hashed or []), sorted(returned or [])),
                  where(t))
    # store
    S = P.one(ENV + 'store')
    dus = DefUse(S)
    cfgs = CFG(S)
    exts = calls_matching(S, lambda n: n.endswith('Vec::extend') or n.endswith('Extend>::extend')
                          or n.endswith('Vec::extend_from_slice'))
    seq = []
    for (b, t) in exts:
        org = dus.origins(base_local(t.args[1]))
        calls = [norm_callee(c.func) for (_b, c) in org['calls']]
        if any(c.endswith('u64::to_be_bytes') for c in calls):
            seq.append(('version', b.id))
        elif any(c.endswith('usize::to_be_bytes') for c in calls):
            seq.append(('length', b.id))
        elif any(c.endswith('finalize') for c in calls):
            seq.append(('digest', b.id))
        elif 3 in org['args']:
            seq.append(('data', b.id))
        else:
            seq.append(('?', b.id))
    order = [r for (r, _b) in seq]
    chain = all(cfgs.dominates(a[1], b[1]) for a, b in zip(seq, seq[1:]))
    ctx.check('FLW-9', 'store|layout', order == ['version', 'length', 'digest', 'data'] and chain,
              'store appends %s (expected version, length, digest, data)' % order,
              where(exts[0][1]) if exts else where(S.blocks[0].term))
    # digest and length are computed from the data parameter
    upds = calls_matching(S, lambda n: n.endswith('Digest>::update') or n.endswith('::update'))
    ctx.check('FLW-9', 'store|digest-of-data', bool(upds) and
              all(3 in dus.origins(base_local(t.args[1]))['args'] for (b, t) in upds),
              'the digest is computed over the data parameter', where(upds[0][1]) if upds else None)
    inner_store = [(b, t) for (b, t) in S.calls() if not b.cleanup and blobwriter_method(t.func) == 'store']
    ctx.check('FLW-9', 'store|writes-wrapped', bool(inner_store) and
              all(3 not in [base_local(t.args[2])] for (b, t) in inner_store),
              'the backend receives the wrapped buffer, not the bare data', where(inner_store[0][1]) if inner_store else None)
