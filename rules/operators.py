"""Rules over the vectorised operators (C02, C03, C04): who may overwrite an input buffer (WHO-5),
in-band NULL markers survive conversions between sentinel-carrying types (NUL-3)."""
import re

from mirlib.program import norm_callee
from .common import where

# ------------------------------------------------------------------------------------ WHO-5
# Operator types that declare `mutates(..)`, i.e. overwrite one of their *input* buffers, and are
# constructed on the way from a query plan to an executor.  The planner shares identical
# sub-plans (common sub-expression elimination), so an input buffer can have any number of other
# consumers; the executor only orders a mutating operator after the *other* consumers of the
# buffer it overwrites, which is impossible when one of those consumers also (transitively) reads
# the mutator's output - e.g. a predicate leaf that occurs twice in one WHERE tree.
WHO5_TABLE = {
    'Compact': 'compaction of an aggregation accumulator: `data` is the output of an aggregate operator, '
               'its only other consumers are selector computations that do not read the compacted result',
    'CompactNullable': 'same, nullable accumulator',
    'CompactNullableNullable': 'same, nullable accumulator and nullable selector',
    'CompactWithNullable': 'same, nullable selector',
    'NonzeroCompact': 'COUNT accumulator compacted by itself (selector = data)',
    'NonzeroCompactNullable': 'COUNT accumulator compacted by itself, nullable',
}


def who5_in_place_operators(ctx):
    ctx.rule('WHO-5', 'an operator that overwrites one of its input buffers is put into an execution plan '
                      'only for the tabled accumulator compactions: predicate and expression buffers are '
                      'shared by the planner\'s common-subexpression elimination, and an in-place operator '
                      'destroys its input for the second consumer', floor=6)
    P = ctx.P
    # mutating operator types = impls of VecOperator that override `mutates`
    mut_types = {}
    for b in P.fn_bodies():
        if b.crate != 'locustdb' or not b.name.endswith('::mutates'):
            continue
        m = re.search(r'<(\w+)(?:<[^>]*>)? as (?:[\w:]*::)?VecOperator', b.name)
        if m:
            mut_types[m.group(1)] = b
    ctx.require(len(mut_types) >= 6, 'WHO-5: fewer than 6 operator types override VecOperator::mutates (%s)' % sorted(mut_types))
    # bodies reachable from the lowering of a query plan
    roots = [b for b in P.find('query_plan::prepare') if b.kind == 'fn' and '{closure' not in b.name]
    ctx.require(roots, 'WHO-5: engine::planning::query_plan::prepare not found')
    reach = set(P.reachable_bodies(roots))
    pat = re.compile(r'^engine::operators::\w+::(\w+)(?:::<.*?>)? \{')
    seen = {}
    for name in reach:
        b = P.body(name)
        if b is None or b.crate != 'locustdb':
            continue
        if b._lines is not None and not any(('engine::operators::' in l and ' { ' in l) for l in b._lines):
            continue
        b.parse()
        for bid, blk in b.blocks.items():
            if blk.cleanup:
                continue
            for s in blk.stmts:
                if s.kind != 'assign':
                    continue
                m = pat.match(s.rhs.strip())
                if m and m.group(1) in mut_types:
                    seen.setdefault(m.group(1), []).append((b.name, s))
    for ty in sorted(mut_types):
        sites = seen.get(ty, [])
        if not sites:
            ctx.ok('WHO-5', '%s|not-in-any-plan' % ty,
                   'overwrites an input buffer but is not constructed by anything a query plan is lowered through',
                   None)
            continue
        fns = sorted({re.sub(r'^.*?(\w+::\w+)$', r'\1', n) for (n, _s) in sites})
        if ty in WHO5_TABLE:
            ctx.exception('WHO-5', ty, WHO5_TABLE[ty])
            ctx.ok('WHO-5', '%s|tabled' % ty, 'constructed in %s (%d sites); tabled: %s'
                   % (fns, len(sites), WHO5_TABLE[ty]), where(sites[0][1]))
        else:
            ctx.violation('WHO-5', '%s|in-place-operator-enters-the-plan' % ty,
                          'operator %s overwrites one of its inputs (declares mutates) and is now constructed '
                          'in %s, reachable from query_plan::prepare: an expression that occurs twice in a query '
                          'is one shared buffer, and the second consumer reads what the first one left behind'
                          % (ty, fns), where(sites[0][1]))
    stale = [t for t in WHO5_TABLE if t not in mut_types]
    ctx.check('WHO-5', 'table-has-no-stale-row', not stale,
              'every tabled operator still exists and still declares mutates (stale: %s)' % stale, None)


# ------------------------------------------------------------------------------------ NUL-3
SENTINEL = {'i64': 'I64_NULL', 'of64': 'F64_NULL', 'OrderedFloat<f64>': 'F64_NULL'}
NULL_OF = {'of64': r'const [\w:]*F64_NULL', 'OrderedFloat<f64>': r'const [\w:]*F64_NULL',
           'i64': r'const [\w:]*I64_NULL', 'Val': r'Val::<[^>]*>::Null|Val::Null'}


def _canon(t):
    t = t.strip()
    t = re.sub(r"<'\w+>", '', t)
    t = {'of64': 'of64', 'OrderedFloat<f64>': 'of64', 'ordered_float::OrderedFloat<f64>': 'of64'}.get(t, t)
    return t.split('::')[-1] if '<' not in t else t


def nul3_sentinel_survives_casts(ctx):
    ctx.rule('NUL-3', 'the in-band NULL markers (I64_NULL in i64 vectors, F64_NULL in f64 vectors) are '
                      'translated by every element conversion into another NULL-capable representation '
                      '(i64 -> f64, i64 -> Val, f64 -> Val): partial results of two partitions are unified '
                      'through these casts, and an untranslated marker turns NULL into 9.2e18 or into '
                      'Integer(i64::MAX)', floor=3)
    P = ctx.P
    found = {}
    for b in P.fn_bodies():
        # identified by signature, not by the impl header: impls generated by a macro_rules! macro
        # print as `<$t as Cast<..>>`
        if b.crate != 'locustdb' or not re.search(r'::cast(#\d+)?$', b.name) or 'Cast<' not in b.name:
            continue
        if len(b.args) != 1 or not b.ret:
            continue
        src, dst = _canon(b.args[0][1]), _canon(b.ret)
        found[(src, dst)] = b
    want = [('i64', 'of64'), ('i64', 'Val'), ('of64', 'Val')]
    for (src, dst) in want:
        b = found.get((src, dst))
        ctx.require(b is not None, 'NUL-3: no element conversion %s -> %s found (impl Cast<%s> for %s)' % (src, dst, dst, src))
        b.parse()
        sent = SENTINEL[src]
        # the comparison with the source marker
        true_targets = []
        for bid, blk in b.blocks.items():
            if blk.cleanup or blk.term is None or blk.term.kind != 'switch':
                continue
            dl = re.search(r'_(\d+)', blk.term.discr or '')
            if not dl:
                continue
            cmp_ = [s for s in blk.stmts if s.kind == 'assign' and s.lhs.strip() == '_%s' % dl.group(1)
                    and s.rhs.startswith(('Eq(', 'Ne('))]
            if not cmp_:
                continue
            rhs = cmp_[0].rhs
            ok_cmp = False
            if src == 'i64':
                ok_cmp = bool(re.search(r'const [\w:]*%s\b' % sent, rhs)) or 'const 9223372036854775807_i64' in rhs
            else:
                # bit comparison of the argument with the marker: two to_bits results, the marker through a promoted constant
                nbits = sum(1 for (_bb, t) in b.calls() if norm_callee(t.func or '').endswith('to_bits'))
                prom = [p for p in P.all_bodies() if getattr(p, 'raw_name', '') and p.kind == 'promoted'
                        and (p.raw_name or '').startswith(b.raw_name or '\0')]
                marker = any(sent in l for p in prom for l in (p._lines or [])) or \
                    any(sent in (s.rhs or '') for bb in b.blocks.values() for s in bb.stmts if s.kind == 'assign')
                ok_cmp = nbits >= 2 and marker
            if ok_cmp:
                neg = rhs.startswith('Ne(')
                for (v, tg) in blk.term.targets:
                    if (v == '0') == neg:
                        true_targets.append(tg)
        null_pat = re.compile(NULL_OF[dst])
        maps = False
        for tg in true_targets:
            blk = b.blocks.get(tg)
            if blk and any(s.kind == 'assign' and s.lhs.strip() == '_0' and null_pat.search(s.rhs) for s in blk.stmts):
                maps = True
        ctx.check('NUL-3', '%s->%s|marker-translated' % (src, dst), maps,
                  'the conversion %s -> %s %s' % (src, dst,
                      'compares its argument with %s and yields the NULL of the target on that edge' % sent if maps else
                      'does not translate %s into the NULL of the target (%s)' % (sent, 'no comparison with the marker'
                       if not true_targets else 'the marker edge does not produce NULL')), where(b.blocks[0].term))


# ------------------------------------------------------------------------------------ PAN-5
def pan5_result_type_lattice_total(ctx):
    """Partial results of two partitions can carry any pair of result types (a column may be absent in
    one partition - type Null -, hold strings in one batch and numbers in another, be nullable in one
    and not in the other).  The functions that pick the common type and insert the casts run on the
    worker thread under the query-state lock; an `unimplemented!` there kills the worker."""
    from . import panics
    ctx.rule('PAN-5', 'unifying the types of two partial results never panics: least_upper_bound, '
                      'unify_types and null_to_val have no explicit panic source (every pair of result '
                      'types has a common type)', floor=3)
    P = ctx.P
    pats = ['EncodingType::least_upper_bound', 'batch_merging::unify_types', 'batch_merging::null_to_val']
    for pat in pats:
        bs = [b for b in P.find(pat) if b.kind == 'fn' and '{closure' not in b.name]
        ctx.require(bs, 'PAN-5: %s not found' % pat)
        for b in bs:
            srcs = [ps for ps in panics.panic_sources(b) if ps.kind in ('panic', 'unwrap')]
            short = re.sub(r'^.*?(\w+::\w+)$', r'\1', b.name)
            if not srcs:
                ctx.ok('PAN-5', '%s|total' % short, 'no panic!/unimplemented!/unwrap in %s' % short,
                       where(b.blocks[0].term) if b.blocks else None)
            for ps in srcs:
                ctx.violation('PAN-5', '%s|%s' % (short, ps.what.split(' ')[0]),
                              '%s can panic (%s): two partitions whose result types have no tabled common type '
                              '(a string column absent in one partition, strings in one batch and numbers in '
                              'another) kill the worker that merges them; the query is canceled and the worker '
                              'is lost' % (short, ps.what), ps.where())


# ------------------------------------------------------------------------------------ NUL-4
def nul4_in_place_null_map_moves_write_both_outcomes(ctx):
    """An operator that compacts a nullable buffer *in place* moves null bits inside one bitmap:
    position j receives the bit of position i >= j.  Whatever was at j before is a stale bit of a row
    that has been dropped, so the move has to write both outcomes (`set` when the source bit is set,
    `unset` when it is not).  A move that only sets leaves a group whose inputs were all NULL
    looking non-NULL (SUM = 0 instead of NULL) whenever it lands on the slot of a group that had a
    value.  Moves into a fresh, zeroed bitmap need `set` only and are out of scope."""
    from mirlib.cfg import CFG
    from mirlib.dataflow import DefUse, base_local
    ctx.rule('NUL-4', 'where a null map is compacted in place (bits are read with is_set and written '
                      'with set on the same bitmap), the opposite edge of every is_set test clears the '
                      'target bit', floor=2)
    P = ctx.P
    n = 0
    for b in P.fn_bodies():
        if b.crate != 'locustdb' or not b.name.startswith('engine::operators::'):
            continue
        if b._lines is not None and not any('BitVecMut>::set' in l for l in b._lines):
            continue
        b.parse()
        sets = [(blk, t) for (blk, t) in b.calls() if not blk.cleanup and norm_callee(t.func or '').endswith('BitVecMut>::set')]
        if not sets:
            continue
        du = DefUse(b)
        cfg = CFG(b)

        def bitmap_origin(arg):
            org = du.origins(base_local(arg))
            return frozenset((bid, t.func) for (bid, t) in org['calls']
                             if re.search(r'Scratchpad::<[^>]*>::get_mut_null|Scratchpad::get_mut_null', t.func or ''))
        tests = [(blk, t) for (blk, t) in b.calls() if not blk.cleanup and norm_callee(t.func or '').endswith('BitVec>::is_set')]
        unsets = [(blk, t) for (blk, t) in b.calls() if not blk.cleanup and norm_callee(t.func or '').endswith('BitVecMut>::unset')]
        short = re.sub(r'^engine::operators::\w+::', '', b.name)
        short = re.sub(r"<(\w+)(?:<[^>]*>)? as VecOperator<'a>>", r'\1', short)
        for k, (sblk, st) in enumerate(sets):
            so = bitmap_origin(st.args[0])
            if not so:
                continue        # written bitmap is not an input obtained mutably: fresh / output bitmap
            for (tblk, tt) in tests:
                if bitmap_origin(tt.args[0]) != so:
                    continue
                # the switch on this test's result
                r = base_local(tt.dest)
                sw = [(bid, o) for (bid, kind, o) in du.uses.get(r, []) if kind == 'term' and o.kind == 'switch']
                for (bid, o) in sw:
                    t_edges = [tg for (v, tg) in o.targets if v != '0']
                    f_edges = [tg for (v, tg) in o.targets if v == '0']
                    if not any(cfg.dominates(te, sblk.id) for te in t_edges):
                        continue
                    n += 1
                    cleared = any(bitmap_origin(ut.args[0]) == so and any(cfg.dominates(fe, ublk.id) for fe in f_edges)
                                  for (ublk, ut) in unsets)
                    ctx.check('NUL-4', '%s|in-place-move-clears-target-bit' % short, cleared,
                              'the null map is compacted in place (is_set and set on the bitmap of the same '
                              'get_mut_nullable): the not-set edge %s' %
                              ('clears the target bit with unset' if cleared else
                               'does not clear the target bit - a stale bit of a dropped row survives and an '
                               'all-NULL group reads as 0 / i64::MIN instead of NULL'), where(st))
    ctx.require(n >= 2, 'NUL-4: fewer than 2 in-place null-map moves found (%d)' % n)


# ------------------------------------------------------------------------------------ TBL-19
def _pat_names(p):
    from mirlib.astlib import walk
    return [n.get('name') or n.get('path') for n in walk(p) if isinstance(n, dict) and (n.get('name') or n.get('path'))]


def tbl19_connectives_and_null(ctx):
    """AND / OR with NULL, as far as it is visible in the shape of the planner:
    (a) `QueryPlan::compile_expr`: an operand whose type is Null (missing column, all-NULL partition)
        makes a conjunction NULL - the arm must hand back *that* operand - and leaves a disjunction
        equal to its other operand;
    (b) `planner::propagate_nullability`: a nullable AND may intersect the null maps of its operands
        (NULL AND x is never true), a nullable OR may not: NULL OR TRUE is TRUE, and marking the
        result NULL wherever an operand is NULL drops rows for which the predicate holds."""
    from mirlib.astlib import find, walk
    ctx.rule('TBL-19', 'NULL operands of AND / OR: a Null-typed operand annihilates a conjunction and is '
                       'neutral in a disjunction (compile_expr); the nullable rewrite of OR does not mark '
                       'the result NULL whenever one operand is NULL (propagate_nullability)', floor=3)
    ast = ctx.ast
    fn = ast.fn('QueryPlan::compile_expr', 'engine/planning/query_plan.rs')
    arms = {}
    for m in find(fn, 'match'):
        for a in m.get('arms', []):
            names = _pat_names(a['pat'])
            if 'Func2' in names:
                for conn in ('And', 'Or'):
                    if conn in names and conn not in arms:
                        arms[conn] = a
    ctx.require('And' in arms and 'Or' in arms, 'TBL-19: compile_expr has no Func2(And, ..) / Func2(Or, ..) arm')
    for conn, want_same in (('And', True), ('Or', False)):
        n = 0
        for iff in find(arms[conn]['body'], 'if'):
            cond = iff.get('cond') or {}
            if cond.get('k') != 'binary' or cond.get('op') != '==':
                continue
            sides = [cond.get('lhs') or {}, cond.get('rhs') or {}]
            fld = [s for s in sides if s.get('k') == 'field' and s.get('member') == 'decoded']
            nul = [s for s in sides if s.get('k') == 'path' and s.get('path', '').endswith('Null')]
            if not fld or not nul:
                continue
            tested = (fld[0].get('base') or {}).get('path')
            rets = [r for r in find(iff.get('then'), 'return')]
            if not rets:
                continue
            tup = [t for t in find(rets[0], 'tuple')]
            if not tup or len(tup[0].get('elems', [])) != 2:
                continue
            returned_ty = tup[0]['elems'][1].get('path')
            n += 1
            same = returned_ty == tested
            ok = same == want_same
            ctx.check('TBL-19', 'compile_expr|%s|null-typed-operand' % conn, ok,
                      '%s: when `%s` is of type Null the arm returns %s operand - %s' %
                      (conn, tested, 'that' if same else 'the other',
                       ('NULL AND x is never true, the conjunction stays NULL' if want_same else
                        'NULL OR x is true exactly when x is') if ok else
                       ('a conjunction with a NULL operand keeps every row of the other operand'
                        if want_same else 'a disjunction with a NULL operand loses the other operand')),
                      'src/engine/planning/query_plan.rs:%s' % iff.get('l'))
        ctx.require(n >= 2, 'TBL-19: the %s arm of compile_expr does not test both operand types for Null (%d)' % (conn, n))
    # (b)
    pn = ast.fn('propagate_nullability', 'engine/planning/planner.rs')
    seen = {}
    for m in find(pn, 'match'):
        for a in m.get('arms', []):
            names = _pat_names(a['pat'])
            for conn in ('And', 'Or'):
                if names and names[0] == conn and conn not in seen:
                    seen[conn] = a
    ctx.require('And' in seen and 'Or' in seen, 'TBL-19: propagate_nullability has no And / Or arm')
    for conn in ('And', 'Or'):
        calls = [c for c in find(seen[conn]['body'], 'call')]
        strict = [c for c in calls if (c.get('func') or {}).get('path', '').split('::')[-1] in ('combine_nulls', 'combine_nulls2')]
        strict += [x for x in walk(seen[conn]['body']) if isinstance(x, dict) and x.get('k') == 'struct_lit'
                   and str(x.get('path', '')).endswith('CombineNullMaps')]
        if conn == 'And':
            ctx.ok('TBL-19', 'propagate_nullability|And|null-maps',
                   'nullable AND: result is NULL where an operand is NULL (%s) - as a filter, never true there'
                   % ('intersection of the null maps' if strict else 'custom handling'),
                   'src/engine/planning/planner.rs:%s' % seen[conn].get('l', seen[conn]['pat'].get('l')))
        else:
            ctx.check('TBL-19', 'propagate_nullability|Or|three-valued', not strict,
                      'nullable OR %s' % ('does not intersect the null maps of its operands' if not strict else
                                          'marks the result NULL wherever one operand is NULL (combine_nulls): '
                                          'NULL OR TRUE must be TRUE - `a IS NULL OR a > 3` loses every row where a is NULL'),
                      'src/engine/planning/planner.rs:%s' % seen[conn]['pat'].get('l'))


# ------------------------------------------------------------------------------------ TBL-20
def tbl20_registry_forwards_null(ctx):
    """A column that a partition does not contain (or that is NULL in all of its rows) is planned with
    type Null.  Every binary operator of the registry must accept Null on either side for every
    operand type it otherwise accepts and yield NULL - otherwise `a + b`, `a < b`, `s = 'x'` are a
    TypeError for the whole query as soon as *one* partition lacks the column, while the sibling
    operators (`*`, `/`, `<=`, `>`) answer NULL."""
    from mirlib.astlib import last_seg
    from .chk import registry_entries, _signatures
    ctx.rule('TBL-20', 'every operator of the function registry has NULL-forwarding rows (Null, T) and (T, Null) '
                       'for each operand type T it accepts, and (Null, Null): the sibling operators agree on what '
                       'a missing / all-NULL column means', floor=11)
    reg = registry_entries(ctx)
    ctx.require(len(reg) >= 11, 'TBL-20: fewer than 11 operators in the registry (%s)' % sorted(reg))
    for op in sorted(reg):
        entries, node = reg[op]
        accepted = set()
        fwd = set()
        for e in entries:
            sigs, kind = _signatures(e)
            if kind in ('forward_left_null', 'forward_right_null'):
                t = last_seg(e['args'][0].get('path', '')) if e.get('args') else '?'
                fwd.add(('Null', t) if kind == 'forward_left_null' else (t, 'Null'))
                continue
            for (l, r) in (sigs or []):
                if l == 'Null' or r == 'Null':
                    fwd.add((l, r))
                accepted |= {l, r}
        accepted.discard('Null')
        need = set()
        for t in sorted(accepted) + ['Null']:
            need |= {('Null', t), (t, 'Null')}
        missing = sorted(need - fwd)
        ctx.check('TBL-20', '%s|null-forwarding-rows' % op, not missing,
                  '%s accepts %s; %s' % (op, sorted(accepted),
                                        'Null is forwarded on either side for each of them' if not missing else
                                        'no row for %s: the expression is a TypeError for the whole query when one '
                                        'partition lacks the column' % ', '.join('(%s, %s)' % m for m in missing)),
                  'src/engine/planning/query_plan.rs:%s' % (node.get('l') if isinstance(node, dict) else '?'))


# ------------------------------------------------------------------------------------ PAN-8
def pan8_range_arithmetic(ctx):
    """The planner derives the value range of a grouping expression from column ranges and constants
    of the query (`encoding_range`) and sizes the grouping key from it.  All of that is i64 arithmetic
    on values the user controls (`x / 0`, `p * r`, a column spanning all of i64, three wide columns);
    an overflow or a zero divisor there is a panic on the worker thread."""
    from mirlib.cfg import CFG
    from mirlib.dataflow import DefUse, base_local
    ctx.rule('PAN-8', 'value-range arithmetic of the grouping planner: encoding_range computes with checked '
                      'operations only, its callers take the range through a filter that rejects ranges the '
                      'key arithmetic cannot handle, and bit packing tests the combined width against 63 '
                      'before it shifts', floor=4)
    P = ctx.P
    ER = [b for b in P.find('query_plan::encoding_range') if b.kind == 'fn' and '{closure' not in b.name]
    ctx.require(len(ER) == 1, 'PAN-8: query_plan::encoding_range not found')
    bodies = [ER[0]] + list(P.closures_of(ER[0]))
    # helpers that encoding_range calls and that call it back (`product_range(lhs, rhs, qp)`) are part of
    # the range computation, not consumers of its result
    er_reach = set(P.reachable_bodies([ER[0]]))
    part = set()
    for nm in er_reach:
        hb = P.body(nm)
        if hb is None or hb.crate != 'locustdb' or hb.name == ER[0].name or '{closure' in nm:
            continue
        if hb._lines is not None and not any('encoding_range' in l for l in hb._lines):
            continue
        if ER[0].name in P.reachable_bodies([hb]):
            part.add(hb.name)
            bodies.append(hb)
            bodies += list(P.closures_of(hb))
    raw = []
    for b in bodies:
        b.parse()
        for bid, blk in b.blocks.items():
            t = blk.term
            if blk.cleanup or t is None or t.kind != 'assert':
                continue
            msg = getattr(t, 'msg', '') or t.code
            if re.search(r'attempt to (compute|add|subtract|multiply|divide|negate|shift|calculate)', msg):
                raw.append((b, t))
    ctx.check('PAN-8', 'encoding_range|checked-arithmetic-only', not raw,
              'encoding_range and its closures contain %d plain arithmetic operation(s) that can overflow or divide '
              'by zero%s' % (len(raw), '' if not raw else ' (e.g. %s): a query such as SELECT x / 0, count(1) or '
                             'SELECT p * r, count(1) panics the worker' % (raw[0][1].span.short() if raw[0][1].span else '?')),
              where(raw[0][1]) if raw else where(ER[0].blocks[0].term))
    # callers
    n = 0
    for b in P.fn_bodies():
        if b.crate != 'locustdb' or b.name == ER[0].name or b.name.startswith(ER[0].name + '::'):
            continue
        if b.name in part or any(b.name.startswith(x + '::') for x in part):
            continue
        if b._lines is not None and not any('encoding_range' in l for l in b._lines):
            continue
        b.parse()
        sites = [(blk, t) for (blk, t) in b.calls() if not blk.cleanup and norm_callee(t.func or '').endswith('query_plan::encoding_range')]
        if not sites:
            continue
        du = DefUse(b)
        short = re.sub(r'^.*?(\w+::\w+)$', r'\1', b.name)
        for (blk, t) in sites:
            n += 1
            fw = du.forward(base_local(t.dest))
            guarded = False
            for (b2, t2) in b.calls():
                if b2.cleanup or not t2.args:
                    continue
                c2 = norm_callee(t2.func or '')
                if c2.endswith('Option::filter') and base_local(t2.args[0]) in fw:
                    # the predicate: a crate fn (or closure) whose body uses checked arithmetic
                    preds = list(P.closures_in_text(t2.func or ''))
                    m = re.search(r'\{([\w:]+)\}', t2.func or '')
                    if m:
                        preds += [x for x in P.find(m.group(1).split('::')[-1]) if x.kind == 'fn']
                    for pb in preds:
                        pb.parse()
                        if any(re.search(r'::checked_(sub|add|neg)$', norm_callee(t3.func or '')) for (_b3, t3) in pb.calls()):
                            guarded = True
            ctx.check('PAN-8', '%s|range-taken-through-guard' % short, guarded,
                      'the range returned by encoding_range is %s' %
                      ('filtered by a predicate with checked arithmetic before the key is sized from it' if guarded else
                       'used as it is: max - min, -min + 1 overflow for a column that spans (almost) all of i64'),
                      where(t))
    ctx.require(n >= 2, 'PAN-8: fewer than 2 callers of encoding_range (%d)' % n)
    # the shift
    TB = P.one('query_plan::try_bitpacking')
    TB.parse()
    cfg = CFG(TB)
    du = DefUse(TB)
    shl = []
    for bid, blk in TB.blocks.items():
        if blk.cleanup:
            continue
        for s in blk.stmts:
            if s.kind == 'assign' and re.match(r'^Shl(Unchecked)?\(', s.rhs.strip()) and 'i64' in (TB.local_type(base_local(s.lhs)) or ''):
                shl.append((bid, s))
    ctx.require(shl, 'PAN-8: try_bitpacking does not shift the key into place (anchor)')
    tests = []
    for bid, blk in TB.blocks.items():
        t = blk.term
        if blk.cleanup or t is None or t.kind != 'switch':
            continue
        dl = base_local(t.discr)
        for d in du.defs.get(dl, []):
            if d[1] == 'stmt' and re.match(r'^(Gt|Ge|Lt|Le)\(.*const 6[34]_i64\)$|^(Gt|Ge|Lt|Le)\(const 6[34]_i64, ', d[2].rhs.strip()):
                tests.append(bid)
    for k, (bid, s) in enumerate(shl):
        ok = any(cfg.dominates(tb, bid) and tb != bid for tb in tests)
        ctx.check('PAN-8', 'try_bitpacking|width-tested-before-shift', ok,
                  'the shift that places a column into the combined key is %s' %
                  ('dominated by a comparison of the accumulated width with 63' if ok else
                   'reached without a test of the accumulated width: three 32-bit-wide grouping columns shift by 64'),
                  where(s))


# ------------------------------------------------------------------------------------ NUL-7
LIMITING = ('take', 'skip', 'step_by', 'take_while', 'skip_while', 'split_at', 'split_at_mut', 'chunks', 'get', 'get_mut')


def nul7_reused_null_map_reset_completely(ctx):
    """Streaming operators reuse their output buffers from batch to batch.  A filter that writes null
    bits with `set` only relies on the reused output bitmap being all zero when a batch starts; the
    reset loop therefore has to cover the whole bitmap.  A reset limited to `len / 8` bytes of the
    previous batch (rounded down) keeps the "present" bits of its last, partly used byte, and NULLs of
    the next batch read as present zeros - only when a partition is longer than `batch_size`, i.e. the
    result depends on the configured batch size."""
    from mirlib.astlib import find, walk
    ctx.rule('NUL-7', 'where a streaming operator zeroes its reused output null map (`for p in map.iter_mut() { *p = 0 }`) '
                      'the loop covers the whole bitmap: no take / skip / sub-slice on the iterator', floor=2)
    ast = ctx.ast
    n = 0
    for (path, qual, node) in ast.fns:
        if '/engine/operators/' not in path and not path.startswith('src/engine/operators/'):
            continue
        if not node.get('body'):
            continue
        for f in find(node, 'for'):
            body = f.get('body') or {}
            stmts = body.get('stmts', []) if body.get('k') == 'block' else [body]
            if len(stmts) != 1:
                continue
            e = stmts[0].get('expr', stmts[0]) if isinstance(stmts[0], dict) else {}
            if e.get('k') != 'assign':
                continue
            lhs, rhs = e.get('lhs') or {}, e.get('rhs') or {}
            if not (lhs.get('k') == 'unary' and lhs.get('op') == '*' and rhs.get('k') == 'lit' and str(rhs.get('int')) == '0'):
                continue
            chain = [m.get('method') for m in walk(f.get('iter') or {}) if isinstance(m, dict) and m.get('k') == 'mcall']
            has_index = any(isinstance(m, dict) and m.get('k') in ('index', 'range') for m in walk(f.get('iter') or {}))
            if 'iter_mut' not in chain:
                continue
            n += 1
            limited = [m for m in chain if m in LIMITING]
            short = qual.split('::')[-2] if '::' in qual else qual
            short = re.sub(r"<(\w+)(?:<[^>]*>)? as VecOperator<'a>>", r'\1', qual.rsplit('::', 1)[0])
            ctx.check('NUL-7', '%s|reset-covers-whole-map' % short, not limited and not has_index,
                      'the zeroing loop over the reused buffer %s' % ('covers all of it' if not limited and not has_index else
                                                                       'is limited by %s: bits beyond the limit survive into the next batch '
                                                                       '(a NULL then reads as a present 0; visible only when a partition is longer '
                                                                       'than batch_size)' % (limited or 'a sub-slice')),
                      '%s:%s' % (path, f.get('l')))
    ctx.require(n >= 2, 'NUL-7: fewer than 2 zeroing loops over a reused null map in the operators (%d)' % n)
