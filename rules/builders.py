"""Rules over the column builders and the ingestion buffer (C01, C08, C11): PAN-7, NUL-6, FLW-24."""
import re

from mirlib.astlib import find, walk
from mirlib.cfg import CFG
from mirlib.dataflow import DefUse, base_local
from mirlib.program import norm_callee
from .common import calls_matching, where


def _diverging_panic_blocks(F):
    """Blocks from which no return is reachable on normal edges and which lead to a panic call: the
    failure side of an `assert!` (with a message the panic call sits several blocks behind the test -
    the format arguments are built first)."""
    cfg = CFG(F)
    can_return = set()
    work = [b for b in cfg.return_blocks()]
    while work:
        x = work.pop()
        if x in can_return:
            continue
        can_return.add(x)
        work.extend(cfg.pred.get(x, []))
    panics_ = set()
    for bid, blk in F.blocks.items():
        t = blk.term
        if t is not None and t.kind == 'call' and re.search(r'core::panicking::|std::rt::begin_panic|panic_fmt|assert_failed', t.func or ''):
            panics_.add(bid)
    out = set()
    for bid, blk in F.blocks.items():
        if blk.cleanup or bid in can_return:
            continue
        if bid in panics_ or (cfg.reachable_from(bid) & panics_):
            out.add(bid)
    return out


# ------------------------------------------------------------------------------------ PAN-7
def pan7_empty_batch_is_applicable(ctx):
    """`ingest_efficient` hands the batch to the write-ahead log *before* it applies it to the table
    buffers (ORD-3), and replay applies every segment it finds.  A batch that is accepted for the log
    but panics when applied is a poison pill: the request dies with the ingestion lock held, and every
    later start of the database panics in the replay loop - all acknowledged data becomes
    unreachable.  The one shape the wire format can deliver that carries no rows (a table buffer of
    length 0, columns all `Empty`) must therefore have a panic-free path through the routine that
    appends a batch."""
    ctx.rule('PAN-7', 'Buffer::push_typed_cols (applies a batch to a table buffer, also during replay) has a '
                      'path from entry to return that passes no assert!/panic! - the path of a batch without '
                      'rows; otherwise a zero-row table buffer, already written to the log, panics ingestion '
                      'and every later start-up', floor=2)
    P = ctx.P
    F = P.one('ingest::buffer::Buffer::push_typed_cols')
    F.parse()
    cfg = CFG(F)
    pan = _diverging_panic_blocks(F)
    guards = set()
    for bid, blk in F.blocks.items():
        t = blk.term
        if blk.cleanup or t is None:
            continue
        if t.kind == 'switch' and any(tg in pan for (_v, tg) in t.targets):
            guards.add(bid)
        elif t.kind == 'assert':
            pass        # arithmetic / bounds checks are not shape assertions
    rets = [b for b in cfg.return_blocks() if not F.blocks[b].cleanup]
    reach = cfg.reachable_from(0, avoid=guards | pan)
    ok = (0 not in guards) and any(r in reach for r in rets)
    pushes = [blk.id for (blk, t) in F.calls() if not blk.cleanup and re.search(r'ColumnBuffer::push_', norm_callee(t.func or ''))]
    # the conversion of a wire column into an input column runs on the same path (ingestion after the
    # segment is logged, and replay): it must not assert on the relation between a column's length and
    # the table's row count - a shorter column means trailing NULLs
    G = P.one('ingest::input_column::InputColumn::from_column_data')
    G.parse()
    gpan = _diverging_panic_blocks(G)
    gsrc = [blk for bid, blk in G.blocks.items() if not blk.cleanup and blk.term is not None and blk.term.kind == 'switch'
            and any(tg in gpan for (_v, tg) in blk.term.targets)]
    ctx.check('PAN-7', 'InputColumn::from_column_data|no-shape-assertion', not gsrc,
              'from_column_data contains %d assert!/panic! on the shape of a wire column%s' %
              (len(gsrc), '' if not gsrc else ': a string column that ends before the table does (legal output of the '
               'client row API) panics ingestion after the segment was logged, and every later start-up'),
              where(gsrc[0].term) if gsrc else where(G.blocks[0].term))
    ctx.check('PAN-7', 'Buffer::push_typed_cols|empty-batch-path', ok,
              '%d shape assertion(s) (assert! on lengths), %d column pushes; %s' %
              (len(guards), len(pushes),
               'a path from entry to return avoids all of them (batch without rows returns early)' if ok else
               'every path from entry to return passes an assertion on the batch length: a table buffer '
               'with zero rows panics after its segment has been written to the log'),
              where(F.blocks[0].term))


# ------------------------------------------------------------------------------------ NUL-6
def nul6_mixed_buffer_keeps_row_slots(ctx):
    ctx.rule('NUL-6', 'MixedColBuffer::finalize turns every buffered element into exactly one string slot: '
                      'each arm of the match over RawVal pushes once (a skipped NULL shortens the column and '
                      'shifts every later value up one row)', floor=4)
    ast = ctx.ast
    fn = ast.fn('MixedColBuffer::finalize', 'mem_store/column_buffer.rs')
    ms = [m for m in find(fn, 'match')]
    ctx.require(ms, 'NUL-6: MixedColBuffer::finalize has no match over the buffered values')
    m = max(ms, key=lambda x: len(x.get('arms', [])))
    for a in m.get('arms', []):
        names = [n.get('path') or n.get('name') for n in walk(a['pat']) if isinstance(n, dict) and (n.get('path') or n.get('name'))]
        label = next((x for x in names if x and 'RawVal' in x), names[0] if names else '_')
        pushes = [c for c in find(a['body'], 'mcall') if c.get('method') in ('push', 'push_str', 'push_val')]
        ctx.check('NUL-6', 'MixedColBuffer::finalize|%s|one-slot' % label.split('::')[-1], len(pushes) == 1,
                  'arm %s pushes %d element(s) into the string column' % (label, len(pushes)),
                  'src/mem_store/column_buffer.rs:%s' % a['pat'].get('l'))


# ------------------------------------------------------------------------------------ FLW-24
def flw24_integer_builder_differences(ctx):
    """The integer column builder subtracts i64 values in two places whose operands span the whole
    domain: the width of the value range (`max - min`) and the steps of a delta-coded column
    (`curr - previous`).  Both differences can exceed i64."""
    ctx.rule('FLW-24', 'differences of column values that can exceed i64 are never a plain i64 subtraction: '
                       'the value-range width is computed wide / wrapping, and delta coding is allowed only '
                       'if every step (upwards as well as downwards) passed checked_sub', floor=2)
    P = ctx.P
    F = P.one('mem_store::integers::IntegerColumn::new_boxed')
    F.parse()
    du = DefUse(F)
    byname = {}
    for (nm, place) in F.debug_all:
        m = re.match(r'^_(\d+)$', place.strip())
        if m:
            byname.setdefault(nm, int(m.group(1)))
    ctx.require('min' in byname and 'max' in byname, 'FLW-24: new_boxed has no min / max parameters')
    lo, hi = byname['min'], byname['max']
    n = 0
    for bid, blk in F.blocks.items():
        if blk.cleanup:
            continue
        for s in blk.stmts:
            if s.kind != 'assign':
                continue
            m = re.match(r'^Sub(WithOverflow|Unchecked)?\((.*), (.*)\)$', s.rhs.strip())
            if not m:
                continue
            a, b = base_local(m.group(2)), base_local(m.group(3))
            if a is None or b is None:
                continue
            if 'i64' not in (F.local_type(a) or '') or 'i64' not in (F.local_type(b) or ''):
                continue
            oa, ob = du.origins(a)['locals'], du.origins(b)['locals']
            if (hi in oa and lo in ob) or (lo in oa and hi in ob):
                n += 1
                ctx.violation('FLW-24', 'IntegerColumn::new_boxed|range-width-plain-sub',
                              'the width of the value range is computed with a plain i64 subtraction of the column '
                              'bounds: min = i64::MIN, max = 0 overflows (panic in the thread that builds the '
                              'column; in release builds it wraps)', where(s))
    # the same subtraction inside a helper that receives the two bounds (`value_interval(min, max)`)
    for (blk, t) in F.calls():
        if blk.cleanup or not t.func:
            continue
        cs = [c for c in P.resolve(t.func, F.crate) if c.crate == F.crate and c.kind == 'fn']
        if len(cs) != 1:
            continue
        G = cs[0]
        pos = {}
        for i, a in enumerate(t.args):
            l = base_local(a)
            if l is None:
                continue
            o = du.origins(l)['locals']
            if hi in o:
                pos.setdefault('hi', i)
            if lo in o:
                pos.setdefault('lo', i)
        if len(pos) != 2 or pos['hi'] == pos['lo'] or len(G.args) != len(t.args):
            continue
        if (G.ret or '').strip() not in ('u64', 'u128', 'usize'):
            continue        # only a helper that computes the width itself (returns it as an unsigned number)
        G.parse()
        dg = DefUse(G)
        ghi, glo = G.args[pos['hi']][0], G.args[pos['lo']][0]
        for bid, gb in G.blocks.items():
            if gb.cleanup:
                continue
            for s2 in gb.stmts:
                m2 = re.match(r'^Sub(WithOverflow|Unchecked)?\((.*), (.*)\)$', (s2.rhs or '').strip()) if s2.kind == 'assign' else None
                if not m2:
                    continue
                a2, b2 = base_local(m2.group(2)), base_local(m2.group(3))
                if a2 is None or b2 is None or 'i64' not in (G.local_type(a2) or '') or 'i64' not in (G.local_type(b2) or ''):
                    continue
                oa2, ob2 = dg.origins(a2)['locals'], dg.origins(b2)['locals']
                if (ghi in oa2 and glo in ob2) or (glo in oa2 and ghi in ob2):
                    n += 1
                    ctx.violation('FLW-24', 'IntegerColumn::new_boxed|range-width-plain-sub',
                                  'the width of the value range is computed with a plain i64 subtraction of the column '
                                  'bounds (in helper %s): min = i64::MIN, max = 0 overflows' % G.name.split('::')[-1], where(s2))
    if n == 0:
        wide = calls_matching(F, lambda x: re.search(r'i64>?::(wrapping_sub|checked_sub|abs_diff|overflowing_sub)$', x) is not None)
        ctx.ok('FLW-24', 'IntegerColumn::new_boxed|range-width',
               'no plain i64 subtraction of the two column bounds (%d wrapping / checked / widened difference(s))' % len(wide),
               where(F.blocks[0].term))
    # delta steps: IntColBuffer::push must test every step
    G = P.one('mem_store::column_buffer::IntColBuffer::push')
    G.parse()
    dug = DefUse(G)
    chk = calls_matching(G, lambda x: x.endswith('::checked_sub'))
    psh = [(blk, t) for (blk, t) in G.calls() if not blk.cleanup and re.search(r'Vec::<i64>::push$|Vec::push$', norm_callee(t.func or ''))
           and 'i64' in (t.func or '')]
    ctx.require(chk and psh, 'FLW-24: IntColBuffer::push has no checked_sub / no data.push')
    # the only admissible bypass: the very first value (nothing to subtract from): drop the true edge of
    # a switch on `is_empty()` / `len() == 0`
    removed = set()
    for blk, t in G.calls():
        if blk.cleanup:
            continue
        if re.search(r'::is_empty$', norm_callee(t.func or '')):
            r = base_local(t.dest)
            for (b2, k2, o2) in dug.uses.get(r, []):
                if k2 == 'term' and o2.kind == 'switch':
                    for (v, tg) in o2.targets:
                        if v != '0':
                            removed.add((b2, tg))
                if k2 == 'stmt' and o2.rhs and o2.rhs.startswith('Not('):
                    nl = base_local(o2.lhs)
                    for (b3, k3, o3) in dug.uses.get(nl, []):
                        if k3 == 'term' and o3.kind == 'switch':
                            for (v, tg) in o3.targets:
                                if v == '0':
                                    removed.add((b3, tg))
    cfg = CFG(G, removed_edges=removed)
    ok = all(any(cfg.dominates(cb.id, pb.id) for (cb, _c) in chk) for (pb, _p) in psh if pb.id in cfg.reachable())
    ctx.check('FLW-24', 'IntColBuffer::push|every-step-checked', ok,
              'the checked_sub test of the step to the previous value %s' %
              ('is on every path to data.push (except for the first value)' if ok else
               'is bypassed on some path (e.g. only evaluated for non-increasing steps): an upward step larger '
               'than i64::MAX leaves delta coding enabled and `curr - previous` overflows when the column is built'),
              where(chk[0][1]))


# ------------------------------------------------------------------------------------ TBL-22
def tbl22_client_column_push_uses_row_position(ctx):
    """`ColumnBuffer::push(value, existing_len)` (client side of the ingestion message) appends a value
    at row `existing_len`; rows the column did not mention so far are NULL.  Every arm that stores the
    value has to place it at that row: a dense vector may be appended to only if its length equals the
    row position (otherwise the column turns sparse), a sparse entry carries the row position, and an
    arm that converts the representation re-dispatches with the same position.  An arm that never looks
    at `existing_len` stores the value at the wrong row as soon as the column skipped one."""
    ctx.rule('TBL-22', 'every arm of ColumnBuffer::push that stores the value uses the row position it was '
                       'given (directly or by re-dispatching to push with it)', floor=10)
    ast = ctx.ast
    fn = ast.fn('ColumnBuffer::push', 'locustdb-serialization/src/event_buffer.rs')
    pos = None
    for prm in fn.get('params', []):
        if prm.get('name') and prm.get('name') not in ('self', 'value'):
            pos = prm['name']
    pos = pos or 'existing_len'
    ms = [m for m in find(fn, 'match')]
    ctx.require(ms, 'TBL-22: ColumnBuffer::push has no match over (column data, value)')
    m = max(ms, key=lambda x: len(x.get('arms', [])))
    n = 0
    for a in m.get('arms', []):
        names = [x.get('path') or x.get('name') for x in walk(a['pat']) if isinstance(x, dict) and (x.get('path') or x.get('name'))]
        variants = [x.split('::')[-1] for x in names if x and ('ColumnData::' in x or 'AnyVal::' in x)]
        if 'Null' in variants:
            continue                      # a NULL stores nothing
        body = a['body']
        b0 = body
        while isinstance(b0, dict) and b0.get('k') == 'block' and len(b0.get('stmts', [])) == 1:
            b0 = b0['stmts'][0]
        if isinstance(b0, dict) and b0.get('k') == 'macro' and b0.get('path') in ('unimplemented', 'panic', 'todo', 'unreachable'):
            continue
        uses = [x for x in walk(body) if isinstance(x, dict) and x.get('k') == 'path' and x.get('path') == pos]
        n += 1
        label = '-'.join(variants) or 'arm%d' % n
        ctx.check('TBL-22', 'ColumnBuffer::push|%s|uses-row-position' % label, bool(uses),
                  'arm (%s) %s' % (', '.join(variants), 'places the value at row `%s`' % pos if uses else
                                   'never looks at `%s`: after a skipped row the value is stored at an earlier row' % pos),
                  'locustdb-serialization/src/event_buffer.rs:%s' % a['pat'].get('l'))
    ctx.require(n >= 10, 'TBL-22: fewer than 10 storing arms in ColumnBuffer::push (%d)' % n)


# ------------------------------------------------------------------------------------ FLW-27
def flw27_zero_row_tables_dropped_first(ctx):
    """A table buffer without rows must leave no trace: if it created the table and its catalogue rows,
    the table would have no partition after the next flush, would not be restored by a restart, and the
    next real batch would create it - and its catalogue rows - a second time (`SELECT *` then returns
    every column twice)."""
    ctx.rule('FLW-27', 'ingest_efficient drops table buffers without rows before it creates tables, writes '
                       'catalogue rows or hands the request to the log', floor=1)
    P = ctx.P
    F = P.one('InnerLocustDB::ingest_efficient')
    F.parse()
    cfg = CFG(F)
    drops = []
    for blk, t in F.calls():
        if blk.cleanup or not norm_callee(t.func or '').endswith('HashMap::retain'):
            continue
        if 'TableBuffer' not in (t.func or ''):
            continue
        for cb in P.closures_in_text(t.func or ''):
            cb.parse()
            if any(norm_callee(c.func or '').endswith('TableBuffer::len') or norm_callee(c.func or '').endswith('TableBuffer::is_empty')
                   for (_b, c) in cb.calls()):
                drops.append((blk, t))
    firsts = [(blk, t) for (blk, t) in F.calls() if not blk.cleanup and
              (norm_callee(t.func or '').endswith('InnerLocustDB::create_if_empty_no_ingest') or
               'std::thread::spawn' in norm_callee(t.func or '') or norm_callee(t.func or '').endswith('thread::spawn'))]
    ctx.require(firsts, 'FLW-27: ingest_efficient neither creates tables nor spawns the log writer (anchor)')
    ok = bool(drops) and all(any(cfg.dominates(db_.id, fb.id) and db_.id != fb.id for (db_, _t) in drops) for (fb, _f) in firsts)
    ctx.check('FLW-27', 'ingest_efficient|zero-row-tables-dropped-first', ok,
              'table buffers with len() == 0 %s' % ('are removed from the request before any table is created and before the '
                                                    'log writer is started' if ok else
                                                    'are not removed up front: a zero-row batch creates the table and its '
                                                    'catalogue rows, which are written again after the next flush + restart'),
              where(drops[0][1]) if drops else where(firsts[0][1]))


# ------------------------------------------------------------------------------------ TBL-25
def tbl25_decoder_validates_what_the_applier_assumes(ctx):
    """The applier of a batch (`Buffer::push_typed_cols`, `InputColumn::from_column_data`) relies on two
    shape facts of every column: it is not longer than the table, and the row indices of a sparse
    column are strictly increasing and below the table length (it pads the gaps with
    `push_nulls(i - next_i)`).  Both are facts about a *wire message*; the one place that can refuse a
    message before it is written to the log is its decoder.  A schema-valid message that violates them
    must come back as an error from `EventBuffer::deserialize_reader`."""
    ctx.rule('TBL-25', 'EventBuffer::deserialize_reader refuses messages whose columns are longer than the table or '
                       'whose sparse row indices are out of order / out of range (the applier assumes both and runs '
                       'after the request has been written to the log)', floor=4)
    P = ctx.P
    F = P.one('event_buffer::EventBuffer::deserialize_reader')
    F.parse()
    du = DefUse(F)
    cfg = CFG(F)
    from .common import classify_result_use, err_return_blocks
    # (a) sparse indices are validated by a fallible helper (or inline comparisons) in each sparse arm;
    # the arms may have moved into a helper of the decoder (`deserialize_column_data`)
    bodies = [F]
    for (blk, t) in F.calls():
        if blk.cleanup or not t.func:
            continue
        for hb in P.resolve(t.func, F.crate):
            if hb.crate == F.crate and hb.kind == 'fn' and hb not in bodies:
                hb.parse()
                if any(norm_callee(t3.func or '').endswith('::get_indices') for (_b3, t3) in hb.calls()):
                    bodies.append(hb)
    idx_calls = [(B, blk, t) for B in bodies for (blk, t) in B.calls() if not blk.cleanup and norm_callee(t.func or '').endswith('::get_indices')]
    ctx.require(len(idx_calls) >= 2, 'TBL-25: fewer than 2 sparse arms (get_indices) in the ingestion message decoder')
    F0 = F
    for k, (F, blk, t) in enumerate(idx_calls):
        du = DefUse(F)
        fw = du.forward(base_local(t.dest))
        validated = False
        for (b2, t2) in F.calls():
            if b2.cleanup or not t2.args:
                continue
            if not any(base_local(a) in fw for a in t2.args):
                continue
            ty = F.local_type(base_local(t2.dest)) or ''
            if 'result::Result<()' in ty.replace(' ', '') or 'Result<(), capnp::Error>' in ty:
                use = classify_result_use(F, du, t2)
                if use['kind'] in ('try', 'match', 'returned'):
                    # the helper must compare an index with the table length
                    for hb in P.resolve(t2.func, F.crate):
                        hbs = [hb] + list(P.closures_of(hb))
                        cmps = []
                        for h2 in hbs:
                            h2.parse()
                            cmps += [s for bb in h2.blocks.values() for s in bb.stmts
                                     if s.kind == 'assign' and re.match(r'^(Ge|Gt|Le|Lt)\(', s.rhs)]
                        # range (index against the table length) and order (index against its predecessor)
                        if len(cmps) >= 2:
                            validated = True
        ctx.check('TBL-25', 'deserialize_reader|sparse-indices-validated%s' % ('' if k == 0 else '#%d' % (k + 1)), validated,
                  'the row indices of a sparse column %s' % ('are checked (order, range, one value per index) by a fallible '
                                                             'helper whose error is propagated' if validated else
                                                             'go into the EventBuffer unchecked: indices out of order or beyond the '
                                                             'table length underflow `i - next_i` in the applier after the request was logged'),
                  where(t))
    # (c) the embedded path: ingest_efficient runs the same validation before it logs the request and
    # before it takes the ingestion lock (an EventBuffer can also be built by hand - TableBuffer::new
    # takes the number of entries of a sparse column for the row count)
    validators = set()
    for (B, blk, t) in idx_calls:
        dB = DefUse(B)
        fwB = dB.forward(base_local(t.dest))
        for (b2, t2) in B.calls():
            if b2.cleanup or not t2.args or not any(base_local(a) in fwB for a in t2.args):
                continue
            ty = B.local_type(base_local(t2.dest)) or ''
            if 'result::Result<()' in ty.replace(' ', ''):
                for hb in P.resolve(t2.func, B.crate):
                    validators.add(hb.name)
    ING = P.one('InnerLocustDB::ingest_efficient')
    ING.parse()
    icfg = CFG(ING)
    vsites = []
    for (blk, t) in ING.calls():
        if blk.cleanup or not t.func:
            continue
        for cb in list(P.resolve(t.func, ING.crate)) + list(P.closures_in_text(t.func)):
            if validators & set(P.reachable_bodies([cb])) or cb.name in validators:
                vsites.append(blk.id)
    def locks_or_spawns(f):
        n = norm_callee(f or '')
        return bool(re.search(r'Mutex::<[^>]*>::lock$|Mutex::lock$', n) or n.endswith('thread::spawn') or
                    'std::thread::spawn' in n)
    firsts = [blk.id for (blk, t) in ING.calls() if not blk.cleanup and locks_or_spawns(t.func)]
    # ... or through a helper of the crate that takes the lock / starts the writer (a wrapper that
    # waits for the log to be below its limit and returns the guard)
    direct = {b.name for (b, _blk, _t) in P.call_sites(locks_or_spawns)}
    for (blk, t) in ING.calls():
        if blk.cleanup or not t.func or blk.id in firsts or blk.id in vsites:
            continue
        cbs = list(P.resolve(t.func, ING.crate)) + list(P.closures_in_text(t.func))
        if cbs and direct & (set(P.reachable_bodies(cbs)) | {cb.name for cb in cbs}):
            firsts.append(blk.id)
    # the validation usually sits in a loop over the tables of the request: the loop (its header) has to
    # come before the lock / the log writer on every path
    loops = {h: icfg.natural_loop(h) for h in icfg.loop_headers()}
    anchors = set(vsites)
    for v in vsites:
        hs = [h for h, lp in loops.items() if v in lp]
        if hs:
            h = max(hs, key=lambda x: len(loops[x]))
            anchors.add(('loop', h))
    def before(fb):
        for a in anchors:
            if isinstance(a, tuple):
                h = a[1]
                if fb not in loops[h] and icfg.dominates(h, fb):
                    return True
            elif a != fb and icfg.dominates(a, fb):
                return True
        return False
    okc = bool(vsites) and bool(firsts) and all(before(fb) for fb in firsts)
    ctx.check('TBL-25', 'ingest_efficient|validated-before-log-and-lock', okc,
              'the embedded ingestion path %s' % ('runs the decoder\'s validation before it takes the ingestion lock and before '
                                                  'the request is handed to the log writer' if okc else
                                                  'does not validate a hand-built EventBuffer before logging it: TableBuffer::new with only '
                                                  'sparse columns takes the entry count for the row count, the request is logged, '
                                                  'ingestion panics, and the database cannot be opened again'),
              where(ING.blocks[0].term))
    # (b) column length against table length
    F = F0
    du = DefUse(F)
    lens = [(blk, t) for (blk, t) in F.calls() if not blk.cleanup and norm_callee(t.func or '').endswith('ColumnData::len')]
    tl = [(blk, t) for (blk, t) in F.calls() if not blk.cleanup and norm_callee(t.func or '').endswith('::get_len')]
    ok = False
    site = None
    if lens and tl:
        tfw = set()
        for (_b, t) in tl:
            tfw |= du.forward(base_local(t.dest))
        for (blk, t) in lens:
            lfw = du.forward(base_local(t.dest))
            for bid, bb in F.blocks.items():
                for s in bb.stmts:
                    m = re.match(r'^(Gt|Ge|Lt|Le)\((.*), (.*)\)$', s.rhs) if s.kind == 'assign' else None
                    if m and {base_local(m.group(2)) in lfw, base_local(m.group(3)) in lfw} == {True, False} and \
                            (base_local(m.group(2)) in tfw or base_local(m.group(3)) in tfw):
                        ok = True
                        site = s
    ctx.check('TBL-25', 'deserialize_reader|column-not-longer-than-table', ok,
              'the number of values of a column is %s' % ('compared with the table length before the column is accepted' if ok else
                                                          'never compared with the table length: a dense column longer than the '
                                                          'table fails an assertion in the applier after the request was logged'),
              where(site) if site is not None else where(F.blocks[0].term))
