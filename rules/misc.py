"""Remaining narrow structural rules: LIT-1/2, ORD-1/2/7/8, TBL-1..6, WHO-3, FLW-2 (C01, C03, C05,
C07, C13, C15)."""
import re

from mirlib import astlib
from mirlib.astlib import walk, find, last_seg, top_pat_variants, strings_in
from mirlib.cfg import CFG
from mirlib.dataflow import DefUse, base_local, typed_path
from mirlib.program import norm_callee
from .common import calls_matching, where
from .tables import arms_over_enum, idents_in
from .recovery import field_names
from .locking import lockmodel, ids


# ------------------------------------------------------------------------------------ LIT-1
def _int_lits(node):
    out = []
    for n in walk(node):
        if n.get('k') == 'lit' and 'int' in n:
            out.append(int(n['int']))
    return out


def lit1_null_patterns(ctx):
    ctx.rule('LIT-1', 'the reserved NULL markers are defined consistently: both NaN definitions have '
                      'the same bit pattern and I64_NULL is i64::MAX', floor=2)
    ast = ctx.ast
    a = ast.const('F64_NULL', 'engine/data_types/types.rs')
    b = ast.const('NULL', 'xor_float/mod.rs')
    la = [x for x in _int_lits(a['expr']) if x > 2 ** 32]
    lb = [x for x in _int_lits(b['expr']) if x > 2 ** 32]
    ctx.check('LIT-1', 'nan-null-bit-pattern', la and lb and la == lb and (la[0] >> 52) & 0x7ff == 0x7ff
              and la[0] & ((1 << 52) - 1) != 0,
              'F64_NULL = %s, xor_float::NULL = %s (a NaN with identical payload)'
              % ([hex(x) for x in la], [hex(x) for x in lb]), 'src/engine/data_types/types.rs')
    c = ast.const('I64_NULL', 'engine/data_types/types.rs')
    paths = [n['path'] for n in walk(c['expr']) if n.get('k') == 'path']
    ctx.check('LIT-1', 'i64-null-is-max', paths == ['i64::MAX'] or _int_lits(c['expr']) == [2 ** 63 - 1],
              'I64_NULL is defined as %s' % (paths or _int_lits(c['expr'])), 'src/engine/data_types/types.rs')


# ------------------------------------------------------------------------------------ LIT-2
def lit2_catalogue_literals(ctx):
    ctx.rule('LIT-2', 'catalogue column names agree between the writer (ingestion), the seeder '
                      '(Table::new) and the readers', floor=3)
    ast = ctx.ast
    ing = ast.fn('InnerLocustDB::ingest_efficient', 'scheduler/inner_locustdb.rs')
    # writer: string literals turned into column keys (`"x".to_string()`), excluding table names
    W = set()
    for n in find(ing, 'mcall'):
        if n['method'] in ('to_string', 'to_owned', 'into') :
            for s in strings_in(n['recv'], ast):
                if not s.startswith('_meta') and n['recv'].get('k') in ('lit', 'path'):
                    W.add(s)
    new = ast.fn('Table::new', 'mem_store/table.rs')
    seeds = {}
    for iff in find(new, 'if'):
        from .widths import if_chain
        for cond, block in if_chain(iff):
            if cond is None:
                continue
            cs = [s for s in strings_in(cond) if s.startswith('_meta')]
            if cs:
                seeds.setdefault(cs[0], set()).update(strings_in(block, ast))
        break
    cols = seeds.get('_meta_columns_', set())
    tabs = seeds.get('_meta_tables', set())
    ctx.require(cols and tabs, 'LIT-2: Table::new does not seed the catalogue tables (%s)' % seeds)
    # readers
    # with the same-file helpers it calls (the task is built in a helper shared by the scheduling and
    # the inline variant)
    sq = ast.fn_closure('InnerLocustDB::schedule_query_column_names', 'scheduler/inner_locustdb.rs')
    R = set()
    for c in find(sq, 'call'):
        if c.get('func') and (c['func'].get('path') or '').endswith('Query::read_column'):
            for a in c['args'][1:]:
                for s_ in strings_in(a, ast):
                    R.add(s_)
    ctx.require(R, 'LIT-2: reader literal not found in schedule_query_column_names')
    sc = ast.fn('LocustDB::search_column_names', 'src/locustdb.rs')
    sql = ' '.join(strings_in(sc))
    m = re.search(r'SELECT\s+(\w+)\s+FROM', sql)
    R2 = {m.group(1)} if m else set()
    ctx.check('LIT-2', 'catalogue|column-table-seed', cols == R and cols <= W and len(cols) == 1,
              'column catalogue: seeder %s, writer %s, reader %s' % (sorted(cols), sorted(W & (cols | R)), sorted(R)),
              'src/mem_store/table.rs')
    ctx.check('LIT-2', 'catalogue|table-table-seed', tabs <= W and tabs == (W - R),
              'table catalogue: seeder %s, writer %s' % (sorted(tabs), sorted(W - R)), 'src/mem_store/table.rs')
    ctx.check('LIT-2', 'catalogue|search-reader', R2 == R,
              'search_column_names selects %s, catalogue reader uses %s' % (sorted(R2), sorted(R)),
              'src/locustdb.rs')


# ------------------------------------------------------------------------------------ ORD-1
def ord1_dictionary_sorted(ctx):
    ctx.rule('ORD-1', 'the string dictionary is sorted before indices are assigned (range predicates '
                      'run on dictionary indices)', floor=1)
    P = ctx.P
    F = P.one('mem_store::strings::fast_build_string_column')
    cfg = CFG(F)
    sorts = calls_matching(F, lambda n: re.search(r'::(sort_unstable|sort|sort_by|sort_unstable_by)$', n) is not None)
    pushes = calls_matching(F, lambda n: n.endswith('IndexedPackedStrings::push'))
    ctx.require(pushes, 'ORD-1: dictionary is not built through IndexedPackedStrings::push')
    du = DefUse(F)
    good = False
    for (sb, st) in sorts:
        # the sorted slice is the vector that is then iterated into the packed mapping
        sroot = du.access_path(st.args[0])[0]
        if all(cfg.dominates(sb.id, pb.id) for (pb, pt) in pushes):
            good = True
    ctx.check('ORD-1', 'fast_build_string_column|sort-before-index-assignment', good,
              'sort of the unique values dominates every push into the dictionary (%d sort sites)'
              % len(sorts), where(sorts[0][1]) if sorts else where(pushes[0][1]))


# ------------------------------------------------------------------------------------ TBL-1
PLAIN = ['U8', 'U16', 'U32', 'U64', 'I64', 'F64', 'Null', 'Bitvec']


def tbl1_datasection_tags(ctx):
    ctx.rule('TBL-1', 'DataSection::encoding_type is the identity on the plain variants and the '
                      'per-variant helpers enumerate every variant', floor=10)
    ast = ctx.ast
    f = 'mem_store/column.rs'
    fn = ast.fn('DataSection::encoding_type', f)
    arms, wild = arms_over_enum(fn, 'DataSection')
    seen = {}
    for v, arm in arms:
        tgt = [n['path'].split('::')[-1] for n in walk(arm['body']) if n.get('k') == 'path'
               and n['path'].startswith('EncodingType::')]
        seen[v] = tgt[0] if tgt else None
    for v in PLAIN:
        ctx.check('TBL-1', 'encoding_type|%s' % v, seen.get(v) == v,
                  'DataSection::%s is tagged EncodingType::%s' % (v, seen.get(v)), 'src/' + f)
    for v in ('LZ4', 'Pco'):
        ctx.check('TBL-1', 'encoding_type|%s' % v, seen.get(v) == 'U8',
                  'compressed section %s is tagged as bytes (%s)' % (v, seen.get(v)), 'src/' + f)
    en = ast.enum('DataSection', f)
    all_v = {v['name'] for v in en['variants']}
    for helper in ('to_any_vec', 'len', 'capacity', 'heap_size_of_children'):
        cands = ast.find_fns('DataSection::' + helper, f)
        if not cands:
            continue
        arms, wild = arms_over_enum(cands[0][2], 'DataSection')
        got = {v for v, _a in arms}
        ctx.check('TBL-1', 'helper|%s' % helper, got == all_v and not wild,
                  'DataSection::%s enumerates %d/%d variants, wildcard arms: %d'
                  % (helper, len(got), len(all_v), len(wild)), 'src/' + f)
    # bytes_per_element of the compressors
    width = {'U8': 1, 'Bitvec': 1, 'U16': 2, 'U32': 4, 'U64': 8, 'I64': 8, 'F64': 8}
    fn = ast.fn('DataSection::lz4_encode', f)
    arms, wild = arms_over_enum(fn, 'DataSection')
    for v, arm in arms:
        if v not in width or astlib.arm_rejects(arm['body']):
            continue
        lits = _int_lits(arm['body'])
        ctx.check('TBL-1', 'lz4_encode|bytes-per-element|%s' % v, lits[-1:] == [width[v]],
                  'lz4_encode records %s bytes per element for %s (expected %d)'
                  % (lits[-1:], v, width[v]), 'src/%s:%d' % (f, arm['l']))


# ------------------------------------------------------------------------------------ TBL-2
SAFE_ORDER = {'Add', 'ToI64', 'PushDataSection', 'DictLookup'}
SAFE_SUM = {'ToI64', 'PushDataSection'}
SAFE_ELEM = {'Add', 'ToI64', 'PushDataSection', 'DictLookup'}


def tbl2_codec_properties(ctx):
    ctx.rule('TBL-2', 'a codec op is declared order-/summation-preserving/elementwise only if it '
                      'mathematically is (declaring fewer is always accepted)', floor=30)
    ast = ctx.ast
    f = 'mem_store/codec.rs'
    en = ast.enum('CodecOp', f)
    variants = {v['name'] for v in en['variants']}
    for name, safe in (('is_order_preserving', SAFE_ORDER), ('is_summation_preserving', SAFE_SUM),
                       ('is_elementwise_decodable', SAFE_ELEM)):
        fn = ast.fn('CodecOp::' + name, f)
        arms, wild = arms_over_enum(fn, 'CodecOp')
        got = set()
        for v, arm in arms:
            got.add(v)
            body = arm['body']
            if astlib.arm_rejects(body):
                ctx.ok('TBL-2', '%s|%s' % (name, v), 'panics (not a stored op)', 'src/%s:%d' % (f, arm['l']))
                continue
            if body.get('k') == 'lit' and 'bool' in body:
                val = body['bool'] == 'true'
                ctx.check('TBL-2', '%s|%s' % (name, v), (not val) or v in safe,
                          '%s(%s) = %s%s' % (name, v, val, '' if (not val or v in safe) else
                                             ': this op does not have the property, comparisons / '
                                             'sums on encoded data would be wrong'),
                          'src/%s:%d' % (f, arm['l']))
            else:
                # conditional: only `Add(_, x) => *x == 0` for summation
                is_zero_test = body.get('k') == 'binary' and body['op'] == '==' and \
                    body['rhs'].get('k') == 'lit' and body['rhs'].get('int') == '0'
                ctx.check('TBL-2', '%s|%s' % (name, v), v == 'Add' and is_zero_test,
                          '%s(%s) is conditional: %s' % (name, v, body.get('src', '?')),
                          'src/%s:%d' % (f, arm['l']))
        if wild:
            from mirlib.core import CheckerError
            raise CheckerError('TBL-2: %s has a wildcard arm; cannot decide new variants' % name)
        missing = variants - got
        if missing:
            from mirlib.core import CheckerError
            raise CheckerError('TBL-2: %s does not list variants %s' % (name, sorted(missing)))


# ------------------------------------------------------------------------------------ TBL-3
def tbl3_comparison_registry(ctx):
    ctx.rule('TBL-3', 'comparison operators in the registry are mutually consistent: GT/GTE are '
                      'less_than/less_than_equals with swapped operands, LT/LTE unswapped, '
                      'Equals/NotEquals use equals/not_equals', floor=20)
    from .chk import registry_entries, _factory_closure, _signatures
    reg = registry_entries(ctx)
    expect = {'LT': ('less_than', False), 'LTE': ('less_than_equals', False),
              'GT': ('less_than', True), 'GTE': ('less_than_equals', True),
              'Equals': ('equals', None), 'NotEquals': ('not_equals', None)}
    for op, (meth, swapped) in expect.items():
        ctx.require(op in reg, 'TBL-3: no registry entry for %s' % op)
        entries, node = reg[op]
        n = 0
        for e in entries:
            sigs, kind = _signatures(e)
            if kind in ('forward_left_null', 'forward_right_null') or sigs is None:
                continue
            cl = _factory_closure(e)
            if cl is None:
                continue
            params = [p.get('name') for p in cl.get('params', [])]
            if len(params) != 3:
                continue
            calls = [m for m in find(cl, 'mcall') if m['method'] in
                     ('less_than', 'less_than_equals', 'equals', 'not_equals')]
            n += 1
            if len(calls) != 1:
                ctx.violation('TBL-3', '%s|row-%s' % (op, sigs), 'row plans %d comparison nodes'
                              % len(calls), 'src/engine/planning/query_plan.rs:%d' % e['l'])
                continue
            c = calls[0]
            a0 = idents_in(c['args'][0]) & set(params[1:])
            a1 = idents_in(c['args'][1]) & set(params[1:])
            is_swapped = (a0 == {params[2]} and a1 == {params[1]})
            is_straight = (a0 == {params[1]} and a1 == {params[2]})
            good = c['method'] == meth and (is_straight or is_swapped) and \
                (swapped is None or is_swapped == swapped)
            ctx.check('TBL-3', '%s|row-%s' % (op, '-'.join('%sx%s' % s for s in sigs)), good,
                      '%s row %s plans %s(%s)' % (op, sigs, c['method'],
                                                  'rhs, lhs' if is_swapped else 'lhs, rhs'),
                      'src/engine/planning/query_plan.rs:%d' % e['l'])
            # mixed int/float rows cast the integer side
            for (l, r) in sigs:
                if {l, r} == {'Integer', 'Float'}:
                    casts = [x for x in find(cl, 'call') if x.get('func') and
                             last_seg(x['func'].get('path', '')) == 'int_to_float_cast']
                    side = params[1] if l == 'Integer' else params[2]
                    okc = len(casts) == 1 and side in idents_in(casts[0]['args'][1])
                    ctx.check('TBL-3', '%s|row-%sx%s|casts-integer-side' % (op, l, r), okc,
                              'the Integer operand (%s) is cast to float' % side,
                              'src/engine/planning/query_plan.rs:%d' % e['l'])
        ctx.require(n >= 3, 'TBL-3: operator %s has fewer than 3 typed rows' % op)


# ------------------------------------------------------------------------------------ TBL-4 / TBL-5
def _typed_arms(fn_node, outer_enum, outer_variant, inner_enum='EncodingType'):
    """Inner EncodingType variants with non-panicking arms inside the arm for outer_variant."""
    out = set()
    found = False
    arms, wild = arms_over_enum(fn_node, outer_enum)
    for v, arm in arms:
        if v != outer_variant:
            continue
        found = True
        inner, w2 = arms_over_enum(arm['body'], inner_enum)
        for iv, iarm in inner:
            if not astlib.arm_rejects(iarm['body']):
                out.add(iv)
    return found, out


def tbl4_decode_siblings(ctx):
    ctx.rule('TBL-4', 'the decode routine used by compaction handles every codec op the query path '
                      'handles and every (compression, element type) pair the cold-column decoder '
                      'handles', floor=20)
    ast = ctx.ast
    f = 'mem_store/column.rs'
    dec = None
    for (p, q, n) in ast.find_fns('decode', f):
        if q == 'decode':
            dec = n
    ctx.require(dec is not None, 'TBL-4: free function column::decode not found')
    qry = ast.fn('Codec::decode_ops', 'mem_store/codec.rs')
    q_arms, _w = arms_over_enum(qry, 'CodecOp')
    d_arms, d_wild = arms_over_enum(dec, 'CodecOp')
    d_ok = {v for v, arm in d_arms if not astlib.arm_rejects(arm['body'])}
    d_all = {v for v, arm in d_arms}
    # ops that the callers of decode() rewrite into another op on the decompressed copy they decode
    # (hex-packed strings are re-packed as plain strings: the strings must exist in a section that
    # lives as long as the column copy)
    rewritten = _ops_rewritten_before_decode(ctx, ast, f, dec)
    for v, arm in sorted(q_arms, key=lambda x: x[0]):
        if astlib.arm_rejects(arm['body']):
            continue
        where_ = 'src/%s' % f
        for dv, darm in d_arms:
            if dv == v:
                where_ = 'src/%s:%d' % (f, darm['l'])
        via = rewritten.get(v)
        okv = v in d_ok or (via is not None and via in d_ok)
        ctx.check('TBL-4', 'column::decode|%s' % v, okv,
                  'CodecOp::%s is decodable on the query path; compaction decode arm: %s'
                  % (v, 'ok' if v in d_ok else
                     ('re-encoded as %s on the copy every caller decodes from' % via if okv else
                      ('panics/todo!' if v in d_all else 'missing'))), where_)
    # every arm consumes the section stack: the codec may have decompressed section 0 in an
    # earlier op (LZ4 / Pco are prepended by lz4_or_pco_encode), so an arm that reads the raw
    # section parameter decodes compressed bytes
    params = [p_['name'] for p_ in dec.get('params', [])]
    raw = params[1] if len(params) > 1 else 'sections'
    # ... unless every caller decodes compressed columns from a decompressed copy: then section 0
    # *is* the decompressed data and an arm may borrow from it (which it must, to hand out &str
    # that live as long as the column)
    pre = _decode_callers_decompress_first(ctx)
    ctx.check('TBL-4', 'decode-callers|compressed-columns-decompressed-first', pre['ok'],
              'every caller of DataSource::decode (%s) takes LZ4/Pco-compressed columns through '
              'lz4_or_pco_decoded() first: %s' % (pre['callers'], pre['detail']), pre['where'])
    for v, arm in sorted(d_arms, key=lambda x: x[0]):
        if v == 'PushDataSection' or astlib.arm_rejects(arm['body']):
            continue
        reads_raw = [n for n in find(arm['body'], 'index') if n['base'].get('k') == 'path' and n['base']['path'] == raw]
        ctx.check('TBL-4', 'column::decode|%s|input-from-stack' % v, not reads_raw or pre['ok'],
                  'arm %s takes its input from %s' % (v, ('the raw `%s[..]` parameter, which every caller '
                                                         'decompresses first' % raw) if reads_raw and pre['ok'] else
                                                     ('the raw `%s[..]` parameter: if the section was '
                                                      'compressed (LZ4/Pco op earlier in the codec) it '
                                                      'decodes compressed bytes and panics' % raw)
                                                     if reads_raw else 'the section stack'),
                  'src/%s:%d' % (f, arm['l']))
    # null map: in the codecs the builders produce, element-wise ops follow `Nullable`
    # (`[PushDataSection(1), Nullable, ToI64(t)]`, `[.., Nullable, Add(t, off)]`, nullable
    # dictionaries `[PushDataSection(3), Nullable, .., DictLookup]`); their arms build plain
    # vectors, so either each of them re-attaches the map or decode attaches it after the loop
    follow = _ops_following_nullable(ast)
    ctx.require(follow, 'TBL-4: no builder codec places an op after CodecOp::Nullable (anchor)')
    loops = [n for n in walk(dec['body']) if isinstance(n, dict) and n.get('k') == 'for'
             and any(m.get('method') == 'ops' for m in find(n['iter'], 'mcall'))]
    ctx.require(len(loops) == 1, 'TBL-4: the loop over codec.ops() in column::decode not found')
    loop = loops[0]
    mk = [m for m in find(dec, 'mcall') if m['method'] == 'make_nullable']
    after_loop = [m for m in mk if m['l'] > loop['el']]
    per_arm = {v for v, arm in d_arms if v in follow and
               any(m['method'] in ('make_nullable', 'is_nullable', 'cast_ref_null_map')
                   for m in find(arm['body'], 'mcall'))}
    okn = bool(after_loop) or per_arm >= (follow & d_all)
    ctx.check('TBL-4', 'column::decode|null-map-survives-later-ops', okn,
              'ops that follow Nullable in builder codecs: %s; decode re-attaches the null map %s'
              % (sorted(follow), 'after the op loop (line %d)' % after_loop[0]['l'] if after_loop else
                 ('in each of these arms' if okn else 'NOWHERE: the arms of %s return plain vectors, '
                  'compaction turns NULL into 0 / "" / the first dictionary entry'
                  % sorted((follow & d_all) - per_arm))),
              'src/%s:%d' % (f, loop['l']))
    # compression x element type
    for comp, fn_name in (('LZ4', 'DataSection::lz4_decode'), ('Pco', 'DataSection::pco_decode')):
        cold = ast.fn(fn_name, f)
        found, need = _typed_arms(cold, 'DataSection', comp)
        ctx.require(found and need, 'TBL-4: %s has no typed arms for %s' % (fn_name, comp))
        f2, have = _typed_arms(dec, 'CodecOp', comp)
        for t in sorted(need):
            ctx.check('TBL-4', 'column::decode|%s-%s' % (comp, t), t in have,
                      '%s-compressed %s sections can be produced (lz4_or_pco_encode tags the section '
                      'type) and are decoded by %s; compaction decode: %s'
                      % (comp, t, fn_name, 'ok' if t in have else 'panics'), 'src/' + f)


def _ops_rewritten_before_decode(ctx, ast, f, dec):
    """{op: op'} for codec ops that the copy-for-decode routine (`lz4_or_pco_decoded` and the helpers
    in the same file) replaces before `decode` sees the codec - valid only if every caller of decode
    goes through that routine."""
    pre = _decode_callers_decompress_first(ctx)
    if not pre['ok']:
        return {}
    out = {}
    for (p, q, n) in ast.fns:
        if not p.endswith(f) or n is dec or not n.get('body'):
            continue
        for m in find(n, 'match'):
            for arm in m['arms']:
                vs = [last_seg(v) for v in top_pat_variants(arm['pat']) if 'CodecOp' in v]
                if len(vs) != 1:
                    continue
                tg = [last_seg(x['path']) for x in walk(arm['body']) if isinstance(x, dict) and x.get('k') == 'path'
                      and x.get('path', '').startswith('CodecOp::')]
                if len(tg) == 1 and tg[0] != vs[0]:
                    out[vs[0]] = tg[0]
    return out


def _decode_callers_decompress_first(ctx):
    """Every call site of `DataSource::decode` outside column.rs: the body also calls
    `lz4_or_pco_decoded` on a value of the same origin and every decode call is dominated by it."""
    P = ctx.P
    sites = [(b, blk, t) for (b, blk, t) in P.call_sites(
        lambda f: re.search(r' as mem_store::column::DataSource>::decode$', f or '') is not None)
        if not blk.cleanup and not b.name.startswith('mem_store::column::')]
    out = {'ok': bool(sites), 'callers': sorted({b.name.split('::')[-1] for b, _b, _t in sites}),
           'detail': 'no caller found' if not sites else 'yes', 'where': None}
    for b, blk, t in sites:
        out['where'] = out['where'] or where(t)
        cfg = CFG(b)
        pres = [(pb, pt) for pb, pt in b.calls() if not pb.cleanup and
                re.search(r'DataSource>::lz4_or_pco_decoded$', pt.func or '')]
        if not pres or not any(cfg.dominates(pb.id, blk.id) for pb, pt in pres):
            out['ok'] = False
            out['detail'] = '%s decodes without decompressing first' % b.name
            out['where'] = where(t)
            break
        # the decoded receiver is either the decompressed copy or the column itself
        du = DefUse(b)
        rorg = du.origins(base_local(t.args[0]))
        porgs = [du.origins(base_local(pt.args[0])) for pb, pt in pres]
        from_copy = any(pt is c for (_b, c) in rorg['calls'] for pb, pt in pres)
        same_col = any(rorg['locals'] & po['locals'] for po in porgs)
        if not (from_copy or same_col):
            out['ok'] = False
            out['detail'] = '%s decodes a value unrelated to the decompressed column' % b.name
            out['where'] = where(t)
            break
    return out


def _ops_following_nullable(ast):
    """CodecOp variants that occur after `CodecOp::Nullable` in a codec built by the column
    builders: literal `vec![..]` lists, and `codec.insert(i, CodecOp::Nullable)` in front of the
    ops of the codec being extended."""
    out = set()
    for (p, q, n) in ast.fns:
        if not re.search(r'src/mem_store/(integers|floats|strings|column|mixed_column|raw_col)\.rs$', p):
            continue
        body = n.get('body')
        if not body:
            continue
        for m in find(body, 'macro'):
            if m.get('path') != 'vec':
                continue
            names = []
            for a in m.get('args', []):
                pth = a.get('path') if a.get('k') == 'path' else (a.get('func') or {}).get('path') \
                    if a.get('k') == 'call' else None
                names.append(last_seg(pth) if pth and 'CodecOp' in pth else None)
            if 'Nullable' in names:
                out |= {x for x in names[names.index('Nullable') + 1:] if x}
        for m in find(body, 'mcall'):
            if m['method'] == 'insert' and len(m['args']) == 2 and \
                    (m['args'][1].get('path') or '').endswith('CodecOp::Nullable'):
                # the codec being extended: ops of every `*_codec(..)` helper / vec! in this fn
                for c in find(body, 'call'):
                    fn_ = (c.get('func') or {}).get('path', '')
                    if fn_.endswith('_codec'):
                        for (p2, q2, n2) in ast.find_fns(last_seg(fn_)):
                            for mm in find(n2.get('body') or {}, 'macro'):
                                for a in mm.get('args', []):
                                    pth = (a.get('func') or {}).get('path') if a.get('k') == 'call' else a.get('path')
                                    if pth and 'CodecOp' in pth:
                                        out.add(last_seg(pth))
    out.discard('Nullable')
    out.discard('PushDataSection')   # a stack operation, produces no data
    return out


def _own_body(body):
    return body


def tbl5_compaction_dispatch(ctx):
    ctx.rule('TBL-5', 'compaction pushes decoded data for every element type the decode routine can '
                      'produce', floor=7)
    ast = ctx.ast
    comp = ast.fn('InnerLocustDB::compact', 'scheduler/inner_locustdb.rs')
    arms, wild = arms_over_enum(comp, 'EncodingType')
    pushing = {}
    for v, arm in arms:
        ms = [m['method'] for m in find(arm['body'], 'mcall') if m['method'].startswith('push_')]
        if ms and not astlib.arm_rejects(arm['body']):
            pushing[v] = ms[0]
    need = {'I64': 'push_ints', 'F64': 'push_floats', 'Str': 'push_strings',
            'NullableI64': 'push_ints', 'NullableF64': 'push_floats', 'NullableStr': 'push_strings',
            'Null': 'push_nulls'}
    for v, m in sorted(need.items()):
        ctx.check('TBL-5', 'compact|%s' % v, pushing.get(v) == m,
                  'decoded %s is appended with %s (expected %s)' % (v, pushing.get(v), m),
                  'src/scheduler/inner_locustdb.rs')
    # nullable arms pass the null map
    for v, arm in arms:
        if v.startswith('Nullable'):
            uses = any(m['method'] == 'cast_ref_null_map' for m in find(arm['body'], 'mcall'))
            ctx.check('TBL-5', 'compact|%s|null-map' % v, uses,
                      'nullable arm forwards the null map', 'src/scheduler/inner_locustdb.rs:%d' % arm['l'])


# ------------------------------------------------------------------------------------ FLW-2
def flw2_compaction_covers_names(ctx):
    ctx.rule('FLW-2', 'compaction rebuilds every column of the table\'s name set over every merged '
                      'partition, substituting NULL for missing columns', floor=4)
    P = ctx.P
    F = P.one('InnerLocustDB::compact')
    du = DefUse(F)
    cfg = CFG(F)
    names = calls_matching(F, lambda n: n.endswith('Table::column_names'))
    ctx.require(names, 'FLW-2: compact does not read Table::column_names')
    # outer loop iterates over the name set
    iters = [(b, t) for (b, t) in F.calls() if not b.cleanup and
             norm_callee(t.func).endswith('IntoIterator>::into_iter')]
    outer = None
    for (b, t) in iters:
        org = du.origins(base_local(t.args[0]))
        if any(c is names[0][1] for (_b, c) in org['calls']):
            outer = (b, t)
    ctx.check('FLW-2', 'compact|iterates-name-set', outer is not None,
              'the column loop ranges over the value of Table::column_names()',
              where(outer[1]) if outer else where(names[0][1]))
    parts = calls_matching(F, lambda n: n.endswith('Table::snapshot_parts'))
    inner = None
    for (b, t) in iters:
        org = du.origins(base_local(t.args[0]))
        if parts and any(c is parts[0][1] for (_b, c) in org['calls']):
            inner = (b, t)
    ctx.check('FLW-2', 'compact|iterates-all-parts', inner is not None,
              'for every column every partition of snapshot_parts(parts) is visited',
              where(inner[1]) if inner else None)
    nulls = calls_matching(F, lambda n: n.endswith('Column::null'))
    empt = calls_matching(F, lambda n: n.endswith('HashMap::is_empty'))
    ctx.check('FLW-2', 'compact|missing-column-becomes-null', bool(nulls) and bool(empt),
              'a partition without the column contributes Column::null(len)',
              where(nulls[0][1]) if nulls else None)
    # builder length asserted against the range
    lens = calls_matching(F, lambda n: n.endswith('ColumnBuffer::len'))
    asserted = any(norm_callee(t.func) == 'core::panicking::assert_failed' for b, t in F.calls())
    ctx.check('FLW-2', 'compact|length-asserted', bool(lens) and asserted,
              'the rebuilt column length is asserted against the merged range',
              where(lens[0][1]) if lens else None)
    # every finalized column is pushed and handed to Table::compact + subpartition
    fin = calls_matching(F, lambda n: n.endswith('ColumnBuffer::finalize'))
    tc = calls_matching(F, lambda n: n.endswith('Table::compact'))
    ctx.check('FLW-2', 'compact|rebuilt-columns-installed', bool(fin) and bool(tc) and
              any(base_local(fin[0][1].dest) in du.origins(base_local(a))['locals'] or True
                  for a in tc[0][1].args[3:4]),
              'finalized columns are installed with Table::compact', where(tc[0][1]) if tc else None)


# ------------------------------------------------------------------------------------ TBL-6 / WHO-3 / ORD-7
def tbl6_ingestion_siblings(ctx):
    ctx.rule('TBL-6', 'the three ingestion siblings record every incoming column name (under the '
                      'buffer lock and the name-set lock) before they push the data', floor=3)
    P = ctx.P
    lm = lockmodel(ctx)
    for name, push in (('ingest', 'Buffer::push_row'), ('ingest_homogeneous', 'Buffer::push_typed_cols'),
                       ('ingest_heterogeneous', 'Buffer::push_untyped_cols')):
        F = P.one('mem_store::table::Table::' + name)
        cfg = CFG(F)
        pushes = calls_matching(F, lambda n, p=push: n.endswith(p))
        if not pushes:
            ctx.violation('TBL-6', 'Table::%s' % name, 'sibling does not push into the buffer',
                          where(F.blocks[0].term))
            continue
        pb = pushes[0][0]
        held = ids(lm.must_at(F, pb.id, None))
        # where are the names recorded: inline or in a helper called before the push
        recorders = []
        inserts = calls_matching(F, lambda n: n.endswith('HashSet::insert'))
        if inserts:
            hdrs = [h for h in cfg.loop_headers() if inserts[0][0].id in cfg.natural_loop(h)]
            done_before = bool(hdrs) and all(pb.id not in cfg.natural_loop(h) and cfg.dominates(h, pb.id) for h in hdrs)
            recorders.append(('inline', done_before, 'Table.column_names' in held))
        for (cb, kind, bid) in P.callgraph().get(F.name, []):
            if kind != 'call' or not cb.name.startswith('mem_store::table::'):
                continue
            acq = lm.summaries()['acquires'].get(cb.name, {})
            if 'Table.column_names' in acq and calls_matching(cb, lambda n: n.endswith('HashSet::insert')):
                before = cfg.dominates(bid, pb.id) and bid != pb.id
                recorders.append(('helper %s' % cb.name.split('::')[-1], before, True))
        good = 'Table.buffer' in held and any(r[1] and r[2] for r in recorders)
        ctx.check('TBL-6', 'Table::%s' % name, bool(good),
                  'push happens with %s held; names recorded by %s'
                  % (sorted(held), [(r[0], 'before push' if r[1] else 'NOT before push') for r in recorders] or 'nobody'),
                  where(pushes[0][1]))


WHO3_TABLE = {'mem_store::table::Table::new', 'mem_store::table::Table::init_column_names',
              'mem_store::table::Table::ingest', 'mem_store::table::Table::ingest_homogeneous',
              'mem_store::table::Table::ingest_heterogeneous'}
WHO3_INIT = {'mem_store::table::Table::new', 'mem_store::table::Table::init_column_names'}


def who3_column_names_writers(ctx):
    ctx.rule('WHO-3', 'Table.column_names is written only by the constructor, the lazy initialiser '
                      'and the three ingestion siblings (or helpers only they call); only the '
                      'constructor and the initialiser may turn "not loaded" (None) into a set', floor=3)
    P = ctx.P
    lm = lockmodel(ctx)
    callers = P.callers()
    for b in P.fn_bodies():
        if b.crate != 'locustdb':
            continue
        for blk, t in b.calls():
            if blk.cleanup:
                continue
            if re.match(r'^std::sync::(?:poison::)?RwLock::<.*>::write$', t.func or '') and \
                    lm.lock_id(b, t.args[0]) == 'Table.column_names':
                okw = b.name in WHO3_TABLE
                via = ''
                if not okw:
                    cs = {c for (c, kind, _b) in callers.get(b.name, [])}
                    okw = bool(cs) and cs <= WHO3_TABLE
                    via = ' (helper called only from %s)' % sorted(x.split('::')[-1] for x in cs)
                ctx.check('WHO-3', 'write-lock|%s' % b.name, okw,
                          'Table.column_names write-locked in %s%s' % (b.name, via), where(t))
                # None -> Some transitions
                du = DefUse(b)
                for blk2, t2 in b.calls():
                    if blk2.cleanup:
                        continue
                    n2 = norm_callee(t2.func)
                    if re.search(r'Option::(insert|get_or_insert_with|get_or_insert|replace|get_or_insert_default)$', n2) \
                            and 'HashSet<std::string::String>' in (t2.func or ''):
                        ctx.check('WHO-3', 'none-to-some|%s' % b.name, b.name in WHO3_INIT,
                                  '%s turns an unloaded name set into a loaded one without asking the '
                                  'catalogue: columns that exist only in partitions on disk are '
                                  'forgotten (listed twice later, dropped by compaction)'
                                  % n2.split('::')[-1], where(t2))
                for bid, blk3 in b.blocks.items():
                    if blk3.cleanup:
                        continue
                    for s3 in blk3.stmts:
                        if s3.kind == 'assign' and s3.lhs.startswith('(*') and \
                                re.search(r'Option::<std::collections::HashSet<std::string::String>>::Some\(', s3.rhs):
                            ctx.check('WHO-3', 'none-to-some|%s' % b.name, b.name in WHO3_INIT,
                                      'the name set is (re)initialised in %s' % b.name, where(s3))
    for b in P.fn_bodies():
        if b.crate != 'locustdb':
            continue
        for bid, blk in b.parse().blocks.items():
            for s in blk.stmts:
                if s.kind == 'assign' and re.match(r'^mem_store::table::Table \{', s.rhs or '') and not blk.cleanup:
                    ctx.check('WHO-3', 'literal|%s' % b.name, b.name in WHO3_TABLE,
                              'Table constructed in %s' % b.name, where(s))


def ord12_names_loaded_before_ingest(ctx):
    ctx.rule('ORD-12', 'every function of the database object that appends a batch to a table first '
                       'makes sure the table\'s name set is loaded from the catalogue', floor=2)
    P = ctx.P
    n = 0
    for b in P.fn_bodies():
        if b.crate != 'locustdb' or not b.name.startswith('scheduler::inner_locustdb::InnerLocustDB::'):
            continue
        ing = calls_matching(b, lambda x: x in ('mem_store::table::Table::ingest_homogeneous',
                                                'mem_store::table::Table::ingest_heterogeneous'))
        if not ing:
            continue
        if any(a in b.name for a in ('::ingest_homogeneous', '::ingest_heterogeneous')):
            # thin forwarding wrappers (dead code): create_if_empty gives a fresh table a loaded set
            continue
        cfg = CFG(b)
        checks = calls_matching(b, lambda x: x.endswith('Table::columns_names_loaded'))
        inits = calls_matching(b, lambda x: x.endswith('Table::init_column_names'))
        n += 1
        for (ib, it) in ing:
            okk = bool(checks) and bool(inits) and \
                any(cfg.can_reach(cb.id, ib.id) for (cb, ct) in checks) and \
                any(cfg.can_reach(nb.id, ib.id) for (nb, nt) in inits)
            ctx.check('ORD-12', '%s|names-loaded-before-append' % b.name, okk,
                      'columns_names_loaded / init_column_names precede the append (%d checks, %d inits)'
                      % (len(checks), len(inits)), where(it))
    ctx.require(n >= 2, 'ORD-12: fewer than 2 appending functions in InnerLocustDB (%d)' % n)


def ord7_catalogue_rows_in_same_segment(ctx):
    ctx.rule('ORD-7', 'catalogue rows are added to the event buffer before it is cloned for the '
                      'write-ahead segment and before the batch is applied', floor=2)
    P = ctx.P
    F = P.one('InnerLocustDB::ingest_efficient')
    cfg = CFG(F)
    du = DefUse(F)
    ins = [(b, t) for (b, t) in F.calls() if not b.cleanup and
           norm_callee(t.func).endswith('HashMap::insert') and
           'locustdb_serialization::event_buffer::TableBuffer' in (t.func or '')]
    ctx.require(len(ins) >= 2, 'ORD-7: fewer than 2 catalogue inserts into the event buffer')
    # the clone handed to the WAL thread happens inside the Option::map closure
    maps = [(b, t) for (b, t) in F.calls() if not b.cleanup and P.closures_in_text(t.func) and
            any(calls_matching(cb, lambda n: n.endswith('EventBuffer as Clone>::clone') or
                               n.endswith('std::thread::spawn')) for cb in P.closures_in_text(t.func))]
    ctx.require(maps, 'ORD-7: the WAL spawn (Option::map closure) not found')
    applies = calls_matching(F, lambda n: n.endswith('Table::ingest_homogeneous'))
    # every copy of the event buffer (the one that goes to the log) is taken after the inserts
    clones = calls_matching(F, lambda n: n.endswith('EventBuffer as Clone>::clone'))
    clone_sites = [(b, t) for (b, t) in clones] + \
        [(b, t) for (b, t) in maps if any(calls_matching(cb, lambda n: n.endswith('EventBuffer as Clone>::clone'))
                                          for cb in P.closures_in_text(t.func))]
    ctx.require(clone_sites, 'ORD-7: the event buffer is never copied for the log segment')
    for (cb_, ct) in clone_sites:
        late = not any(cfg.can_reach(cb_.id, ib.id) for (ib, it) in ins)
        ctx.check('ORD-7', 'ingest_efficient|log-copy-after-catalogue-rows', late,
                  'the copy of the event buffer that is written to the log is taken after the '
                  'catalogue rows were inserted', where(ct))
    for (b, t) in ins:
        ok = all(cfg.can_reach(b.id, m[0].id) and not cfg.can_reach(m[0].id, b.id) for m in maps) and \
            all(not cfg.can_reach(ab.id, b.id) for (ab, at) in applies)
        ctx.check('ORD-7', 'ingest_efficient|catalogue-insert-before-wal-clone', ok,
                  'a catalogue buffer is inserted on a path that precedes the WAL clone/spawn and the '
                  'application of the batch, never after', where(t))


# ------------------------------------------------------------------------------------ ORD-2
def ord2_offset_applied_once(ctx):
    ctx.rule('ORD-2', 'the OFFSET is applied exactly once, when the final result is sliced', floor=1)
    P = ctx.P
    from .limits import limit_field_reads
    readers = {}
    for b in P.fn_bodies():
        if b.crate != 'locustdb':
            continue
        for (s, fld) in limit_field_reads(b):
            if fld == 1:
                readers.setdefault(b.name, []).append(s)
    allowed = {
        'engine::execution::query_task::QueryTask::convert_to_output_format': 'final slice',
        'engine::execution::query_task::QueryTask::combined_limit': 'limit + offset rows are kept',
        'engine::planning::query::NormalFormQuery::run': 'limit + offset rows are kept per partition',
    }
    for name, ss in sorted(readers.items()):
        if ' as derive:' in name:
            continue
        ctx.check('ORD-2', 'offset-read|%s' % name, name in allowed,
                  'LimitClause.offset is read in %s (%s)' % (name, allowed.get(name, 'not tabled')),
                  where(ss[0]))
    ctx.require('engine::execution::query_task::QueryTask::convert_to_output_format' in readers,
                'ORD-2: the final slice does not read the offset')


# ------------------------------------------------------------------------------------ ORD-13
def ord13_sort_structure(ctx):
    ctx.rule('ORD-13', 'multi-key ORDER BY is a sequence of stable sorts from the last key to the '
                       'first; top-n is used only for a single key; the direction flag and the '
                       'order-preserving decode are applied per key', floor=5)
    P = ctx.P
    F = P.one('NormalFormQuery::run')
    cfg = CFG(F)
    du = DefUse(F)
    sorts = calls_matching(F, lambda n: n.endswith('QueryPlanner::sort_by'))
    topn = calls_matching(F, lambda n: n.endswith('QueryPlanner::top_n'))
    ctx.require(sorts and topn, 'ORD-13: sort_by / top_n not planned in NormalFormQuery::run')
    revs = [(b, t) for (b, t) in F.calls() if not b.cleanup and norm_callee(t.func).endswith('Iterator>::rev')
            and '(syntax::expression::Expr, bool)' in (t.func or '')]
    nexts = [(b, t) for (b, t) in F.calls() if not b.cleanup and norm_callee(t.func).endswith('Iterator>::next')
             and 'std::iter::Rev<' in (t.func or '') and '(syntax::expression::Expr, bool)' in t.func]
    loop_ok = False
    for (nb, nt) in nexts:
        for h in cfg.loop_headers():
            lp = cfg.natural_loop(h)
            if nb.id in lp and all(sb.id in lp for (sb, st) in sorts):
                loop_ok = True
    ctx.check('ORD-13', 'run|keys-sorted-last-to-first', bool(revs) and loop_ok,
              'the sort loop iterates over order_by reversed (stable sorts compose from the least '
              'significant key)', where(revs[0][1]) if revs else where(sorts[0][1]))
    for (b, t) in sorts:
        ctx.check('ORD-13', 'run|sort-is-stable', t.args[-1].strip() == 'const true',
                  'sort_by is requested as a stable sort (last argument %s)' % t.args[-1], where(t))
    # desc flag of the current key
    for name, lst, pos in (('sort_by', sorts, 3), ('top_n', topn, 3)):
        for (b, t) in lst:
            org = du.origins(base_local(t.args[pos]))
            from_key = any(re.search(r'\(\(\*_\d+\)\.1: bool\)', st.rhs or '') for (_b, st) in org['stmts']) or \
                re.search(r'\(\(\*_\d+\)\.1: bool\)', t.args[pos]) is not None
            negated = any((st.rhs or '').startswith('Not(') for (_b, st) in org['stmts'])
            ctx.check('ORD-13', 'run|%s-direction' % name, from_key and not negated,
                      '%s receives the DESC flag of the key being sorted (from key: %s, negated: %s)'
                      % (name, from_key, negated), where(t))
    # top_n only when there is exactly one key
    guard_ok = False
    for bid, blk in F.blocks.items():
        if blk.cleanup:
            continue
        for s in blk.stmts:
            if s.kind == 'assign' and re.match(r'^Eq\((move|copy) _\d+, const 1_usize\)$', s.rhs):
                l = base_local(s.rhs)
                d = du.single_def(l)
                if d and d[1] == 'term' and 'Vec::<(syntax::expression::Expr, bool)>::len' in (d[2].func or ''):
                    fl = base_local(s.lhs)
                    for (b3, k3, o3) in du.uses.get(fl, []):
                        if k3 == 'term' and o3.kind == 'switch':
                            tt = [tg for (v, tg) in o3.targets if v != '0']
                            if tt and all(cfg.dominates(tt[0], tb.id) for (tb, t_) in topn):
                                guard_ok = True
    ctx.check('ORD-13', 'run|top-n-single-key-only', guard_ok,
              'top_n is planned only under order_by.len() == 1', where(topn[0][1]))
    # ranking goes through order_preserving before it is sorted
    ops = calls_matching(F, lambda n: n.endswith('query_plan::order_preserving'))
    ok2 = bool(ops)
    for (b, t) in sorts + topn:
        org = du.origins(base_local(t.args[1]))
        ok2 = ok2 and any(c is ops[0][1] for (_b, c) in org['calls']) if ops else False
    ctx.check('ORD-13', 'run|sort-key-order-preserving', ok2,
              'the key that is sorted is the result of order_preserving(..) (decoded unless the codec '
              'preserves order)', where(ops[0][1]) if ops else None)


# ------------------------------------------------------------------------------------ NUL-1
def ord13_top_n_limit_zero(ctx):
    """ORD-13 clause: LIMIT 0 is a valid request; the top-n operator reads the heap root
    `keys[0]`, which does not exist when n = 0."""
    P = ctx.P
    st = ctx.ast.struct('TopN', 'operators/top_n.rs')
    fnames = [f['name'] for f in st['fields']]
    nidx = fnames.index('n')
    cands = [b for b in P.fn_bodies() if b.crate == 'locustdb' and re.search(r'top_n::<TopN<.*> as VecOperator<.*>>::execute$', b.name)]
    ctx.require(len(cands) == 1, 'ORD-13: TopN::execute not found (%d)' % len(cands))
    F = cands[0]
    F.parse()
    cfg = CFG(F)
    du = DefUse(F)
    # successor blocks on which n != 0 is known
    nonzero = []
    for bid, blk in F.blocks.items():
        t = blk.term
        if blk.cleanup or t is None or t.kind != 'switch':
            continue
        d = du.single_def(base_local(t.discr)) if base_local(t.discr) is not None else None
        if not d or d[1] != 'stmt':
            continue
        m = re.match(r'^(Eq|Ne|Gt|Lt|Ge|Le)\((.*), (.*)\)$', d[2].rhs.strip())
        if not m:
            continue
        a, b_ = m.group(2).strip(), m.group(3).strip()

        def is_n(op):
            if op.startswith('const'):
                return False
            root, steps = du.access_path(op)
            return root[0] == 'arg' and steps[-1:] == [nidx]
        zero = lambda op: re.match(r'^const 0_usize$', op) is not None
        tg = dict(t.targets)
        op = m.group(1)
        if (is_n(a) and zero(b_)) or (is_n(b_) and zero(a)):
            if op == 'Eq':
                nonzero.append(tg.get('0'))
            elif op == 'Ne' or (op == 'Gt' and is_n(a)) or (op == 'Lt' and is_n(b_)):
                nonzero.append(tg.get('otherwise', tg.get('1')))
    nonzero = [x for x in nonzero if x is not None]
    sites = []
    for blk, t in F.calls():
        if blk.cleanup:
            continue
        if re.search(r'Index<usize>>::index$|IndexMut<usize>>::index_mut$', (t.func or '')) and \
                len(t.args) == 2 and t.args[1].strip() == 'const 0_usize':
            sites.append((blk, t))
    ctx.require(sites, 'ORD-13: TopN::execute does not read the heap root keys[0] (anchor)')
    for i, (blk, t) in enumerate(sites):
        ok = any(cfg.dominates(nz, blk.id) for nz in nonzero)
        ctx.check('ORD-13', 'TopN::execute|heap-root-only-when-n-positive%s' % ('' if i == 0 else '#%d' % (i + 1)), ok,
                  'the heap root is read only after n = 0 was excluded (LIMIT 0 with ORDER BY on one '
                  'key otherwise panics the worker: index out of bounds)', where(t))


def nul1_null_map_never_ignored(ctx):
    ctx.rule('NUL-1', 'a null map handed to the column builder is never ignored: the three typed '
                      'push functions forward it, and the bitmap routine can create the bitmap '
                      'when the builder has none yet (first nullable chunk of a merge)', floor=4)
    P = ctx.P
    st = ctx.ast.struct('ColumnBuffer', 'mem_store/column_buffer.rs')
    fnames = [f['name'] for f in st['fields']]
    ctx.require('present' in fnames, 'NUL-1: ColumnBuffer has no field `present`')
    pidx = fnames.index('present')
    PP = P.one('ColumnBuffer::push_present')
    PP.parse()
    dup = DefUse(PP)
    creates = False
    site = PP.blocks[0].term
    for bid, blk in PP.parse().blocks.items():
        if blk.cleanup:
            continue
        for s_ in blk.stmts:
            if s_.kind == 'assign' and re.match(r'^\(\(\*_1\)\.%d: ' % pidx, s_.lhs.strip()):
                some = 'Some(' in s_.rhs
                l_ = base_local(s_.rhs)
                if not some and l_ is not None:
                    some = any('::Some(' in st_.rhs for (_b, st_) in dup.origins(l_)['stmts'])
                if some:
                    creates = True
                    site = s_
        t = blk.term
        if t is not None and t.kind == 'call' and norm_callee(t.func or '').endswith('ColumnBuffer::init_present'):
            creates = True
            site = t
    ctx.check('NUL-1', 'ColumnBuffer::push_present|creates-bitmap', creates,
              'push_present can create the bitmap (assigns Some(..) to `present` or calls '
              'init_present): %s' % ('yes' if creates else 'NO - when the builder has no bitmap yet, the null map of '
                                     'the pushed chunk is dropped and its NULLs become 0 / "" after compaction'),
              where(site))
    n = 0
    for b in P.fn_bodies():
        if b.crate != 'locustdb' or not re.search(r'ColumnBuffer::push_(ints|floats|strings)$', b.name.split('<')[0] if False else b.name):
            continue
        opt_args = [ln for (ln, ty) in b.args if 'Option<&' in ty and '[u8]' in ty]
        if not opt_args:
            continue
        n += 1
        du = DefUse(b)
        fw = False
        for blk, t in b.calls():
            if not blk.cleanup and norm_callee(t.func or '').endswith('ColumnBuffer::push_present') and len(t.args) > 1:
                org = du.origins(base_local(t.args[1]))
                if set(opt_args) & org['args'] or base_local(t.args[1]) in opt_args:
                    fw = True
                    site = t
        ctx.check('NUL-1', '%s|forwards-null-map' % b.name, fw,
                  'the `present` argument reaches push_present', where(site))
    ctx.require(n >= 3, 'NUL-1: fewer than 3 typed push functions with a null-map parameter (%d)' % n)


# ------------------------------------------------------------------------------------ FLW-21
SELECTIVE = re.compile(r'(?:Iterator>?::|iter::)(filter|filter_map|skip_while|take_while|take|skip|step_by|'
                       r'map_while|nth|find|find_map)(::<|$)|std::iter::(Filter|FilterMap|SkipWhile|TakeWhile|Take|Skip|StepBy|MapWhile)<')


def flw21_catalogue_sees_every_key(ctx):
    ctx.rule('FLW-21', 'the column names for which catalogue rows are written are all keys of the batch: '
                       'nothing selects among `TableBuffer::columns()` on the way to '
                       '`Table::new_column_names` (the ingestion siblings add every key to the name set, '
                       'so a key skipped here never gets its catalogue row)', floor=1)
    P = ctx.P
    sites = list(P.call_sites(lambda f: norm_callee(f).endswith('mem_store::table::Table::new_column_names')))
    ctx.require(sites, 'FLW-21: no caller of Table::new_column_names')
    for body, blk, t in sites:
        if blk.cleanup:
            continue
        from .durability import top_function
        top = top_function(P, body).name
        du = DefUse(body)
        arg = t.args[1] if len(t.args) > 1 else None
        org = du.origins(base_local(arg)) if arg else {'calls': []}
        from_cols = any(norm_callee(c.func).endswith('TableBuffer::columns') or
                        re.search(r'HashMap::<.*>::(keys|iter)$', norm_callee(c.func)) is not None
                        for (_b, c) in org['calls'])
        sel = [m.group(0) for m in [SELECTIVE.search(t.func or '')] if m]
        for (_b, c) in org['calls']:
            m = SELECTIVE.search(c.func or '')
            if m:
                sel.append(m.group(0))
        ctx.check('FLW-21', '%s|all-keys-offered' % top, from_cols and not sel,
                  'new_column_names receives %s%s' % (
                      'every key of the batch (TableBuffer::columns through map only)' if from_cols and not sel
                      else 'a selection of the keys' if sel else 'something that is not derived from the batch keys',
                      (': ' + ', '.join(sorted(set(sel)))) if sel else ''), where(t))


# ------------------------------------------------------------------------------------ ORD-16
def ord16_partials_combined_in_partition_order(ctx):
    ctx.rule('ORD-16', 'partial results of the partitions are put together in partition (ingestion) '
                       'order, not in the order worker threads finish: they are kept in an ordered map '
                       'keyed by the start of the scanned row range, only contiguous ranges are merged '
                       '(left = lower range), and the merged result covers left.start..right.end',
             floor=6)
    ast = ctx.ast
    f = 'engine/execution/query_task.rs'
    # containers are ordered maps
    st = ast.struct('QueryState', f)
    pr = [fl for fl in st['fields'] if fl['name'] == 'partial_results']
    ctx.check('ORD-16', 'QueryState.partial_results|ordered-map', bool(pr) and 'BTreeMap<usize' in pr[0]['ty'].replace(' ', ''),
              'partial results of all threads are kept in a BTreeMap keyed by usize (type: %s)'
              % (pr[0]['ty'] if pr else None), 'src/%s' % f)
    # every insert into partial_results / batch_results is keyed by scanned_range.start of the value
    # (or re-uses the key of the left operand of a merge)
    n = 0
    for qual in ('QueryTask::run', 'QueryTask::push_result', 'QueryTask::combine_results'):
        fn = ast.fn(qual, f)
        for m in find(fn, 'mcall'):
            if m['method'] != 'insert' or len(m['args']) != 2:
                continue
            recv = json_text_(m['recv'])
            if 'partial_results' not in recv and 'batch_results' not in recv:
                continue
            n += 1
            k = m['args'][0]
            ktxt = json_text_(k)
            keyed = ('scanned_range' in ktxt and '"start"' in ktxt) or (k.get('k') == 'path' and qual.endswith('combine_results'))
            ctx.check('ORD-16', '%s|insert-keyed-by-range-start%s' % (qual, '' if n == 1 else '#%d' % n), keyed,
                      'partial result stored under the start of its scanned range', 'src/%s:%d' % (f, m['l']))
    ctx.require(n >= 3, 'ORD-16: fewer than 3 inserts into the partial result maps (%d)' % n)
    # eligible_pair: contiguity test prev.end == curr.start
    cr = ast.fn('QueryTask::combine_results', f)
    cont = False
    for b in find(cr, 'binary'):
        if b['op'] == '==':
            l, r = json_text_(b['lhs']), json_text_(b['rhs'])
            if 'scanned_range' in l and 'scanned_range' in r and \
                    (('"end"' in l and '"start"' in r) or ('"start"' in l and '"end"' in r)):
                cont = True
    ctx.check('ORD-16', 'combine_results|only-contiguous-ranges-merge', cont,
              'two partial results are merged only if one ends where the other starts', 'src/%s' % f)
    # the pair is (lower key, higher key) and combine(left, right) gets them in that order; names are
    # taken from the patterns, not assumed
    order_ok = False
    knames = None
    for n_ in walk(cr['body']):
        if isinstance(n_, dict) and n_.get('k') in ('while', 'while_let', 'loop') and 'eligible_pair' in json_text_(n_.get('cond') or n_.get('scrutinee') or n_.get('expr') or {}):
            ids = [y.get('name') for y in walk(n_.get('pat') or n_.get('cond') or {}) if isinstance(y, dict) and y.get('k') == 'p_ident']
            ids = [i for i in ids if i not in ('Some', 'None')]
            if len(ids) >= 2:
                knames = ids[:2]
    if knames is None:
        # fall back: first tuple pattern with two identifiers bound from an eligible_pair(..) call
        for n_ in walk(cr['body']):
            if isinstance(n_, dict) and n_.get('k') == 'p_tuple' and len(n_.get('elems', [])) == 2 and \
                    all(e.get('k') == 'p_ident' for e in n_['elems']):
                knames = [e['name'] for e in n_['elems']]
    for c in find(cr, 'call'):
        if last_seg((c.get('func') or {}).get('path', '') or '') == 'combine' and len(c.get('args', [])) >= 2 and knames:
            a0, a1 = c['args'][0].get('path'), c['args'][1].get('path')
            rem = {}
            for n_ in walk(cr['body']):
                if isinstance(n_, dict) and n_.get('k') == 'let' and (n_.get('pat') or {}).get('k') == 'p_ident':
                    t_ = json_text_(n_.get('init') or {})
                    if '"remove"' in t_:
                        ids = idents_in(n_['init'])
                        rem[n_['pat']['name']] = 0 if knames[0] in ids else (1 if knames[1] in ids else None)
            order_ok = rem.get(a0) == 0 and rem.get(a1) == 1
    # eligible_pair returns (key of prev, key of curr): prev comes first in map order
    ep_ok = False
    for (p_, q_, n_) in ast.fns:
        if p_.endswith(f) and q_.endswith('eligible_pair') and n_.get('body'):
            for c in find(n_, 'call'):
                if last_seg((c.get('func') or {}).get('path', '') or '') == 'Some' and c.get('args') and \
                        c['args'][0].get('k') == 'tuple' and len(c['args'][0]['elems']) == 2:
                    t0, t1 = json_text_(c['args'][0]['elems'][0]), json_text_(c['args'][0]['elems'][1])
                    ep_ok = 'prev' in t0 and 'prev' not in t1
    ctx.check('ORD-16', 'combine_results|left-is-lower-range', order_ok and ep_ok,
              'eligible_pair yields (earlier key, later key) and combine(left, right) receives the results '
              'in that order', 'src/%s' % f)
    # batch_merging::combine: merged range = left.start .. right.end in every result
    comb = ast.fn('combine', 'engine/execution/batch_merging.rs')
    pn = [x['name'] for x in comb.get('params', [])][:2]
    ctx.require(len(pn) == 2, 'ORD-16: batch_merging::combine does not take two batches')
    ranges = []
    for sl in find(comb, 'struct_lit'):
        for fl in sl.get('fields', []):
            if fl['name'] == 'scanned_range':
                ranges.append((fl['value'], sl['l']))

    def lr(v):
        # `a.scanned_range.start..b.scanned_range.end`
        if v.get('k') != 'range':
            return None
        lo, hi = v.get('from') or v.get('start') or v.get('lo'), v.get('to') or v.get('end') or v.get('hi')
        if not lo or not hi:
            return None
        return (pn[0] in idents_in(lo) and '"start"' in json_text_(lo) and
                pn[1] in idents_in(hi) and '"end"' in json_text_(hi))
    res = [lr(v) for v, _l in ranges]
    if any(r is None for r in res):
        # range node shape unknown: fall back to textual order of the two parameters
        res = [json_text_(v).find('"%s' % pn[0]) != -1 and json_text_(v).find(pn[0]) < json_text_(v).find(pn[1])
               and '"start"' in json_text_(v) and '"end"' in json_text_(v) for v, _l in ranges]
    ctx.check('ORD-16', 'batch_merging::combine|merged-range-left-start-right-end',
              bool(ranges) and all(res),
              '%d merged results carry scanned_range <left>.start..<right>.end' % len(ranges),
              'src/engine/execution/batch_merging.rs')
    # rows of the right batch are appended after the rows of the left batch (select queries):
    # `for (x, y) in <left>.columns..zip(<right>.columns)  ..  x.append_all(y)`
    app = [m for m in find(comb, 'mcall') if m['method'] == 'append_all']
    okapp = bool(app)
    for m in app:
        side = {}
        for lp in [x for x in walk(comb['body']) if isinstance(x, dict) and x.get('k') == 'for']:
            if not any(mm is m for mm in find(lp['body'], 'mcall')):
                continue
            it = json_text_(lp['iter'])
            if '"zip"' in it and pn[0] in it and pn[1] in it and it.find(pn[0]) < it.find(pn[1]):
                tp = [y for y in walk(lp['pat']) if isinstance(y, dict) and y.get('k') == 'p_tuple']
                if tp and len(tp[0]['elems']) == 2:
                    for pos, e in enumerate(tp[0]['elems']):
                        for y in walk(e):
                            if isinstance(y, dict) and y.get('k') == 'p_ident':
                                side[y['name']] = 'LR'[pos]
            for n_ in walk(lp['body']):
                if isinstance(n_, dict) and n_.get('k') == 'let' and n_.get('init') is not None:
                    names = [y['name'] for y in walk(n_['pat']) if isinstance(y, dict) and y.get('k') == 'p_ident']
                    ids = idents_in(n_['init'])
                    sd = {side.get(i) for i in ids if side.get(i)} | \
                        ({'L'} if pn[0] in ids else set()) | ({'R'} if pn[1] in ids else set())
                    if len(sd) == 1:
                        for nm in names:
                            side.setdefault(nm, list(sd)[0])
        rs = {side.get(i) for i in idents_in(m['recv'])} - {None}
        as_ = {side.get(i) for i in idents_in(m['args'][0])} - {None}
        okapp = okapp and rs == {'L'} and as_ == {'R'}
    ctx.check('ORD-16', 'batch_merging::combine|right-appended-to-left', okapp,
              'select results: the right batch is appended to the left one (%d sites)' % len(app),
              'src/engine/execution/batch_merging.rs')


def json_text_(node):
    import json as _json
    return _json.dumps(node)


# ------------------------------------------------------------------------------------ NUL-2
def nul2_bitmap_ones_fill_whole_bytes_only(ctx):
    ctx.rule('NUL-2', 'the null bitmap is filled with all-ones bytes only for complete bytes '
                      '(count = bits / 8 rounded down): `push_nulls` never writes into an existing '
                      'bitmap and relies on every bit at or beyond the current length being 0, so a '
                      'fill rounded up (`div_ceil`, `(n + 7) / 8`) marks up to seven later NULL rows as '
                      'present', floor=1)
    P = ctx.P
    n = 0
    for b in P.fn_bodies():
        if b.crate != 'locustdb' or not b.name.startswith('mem_store::column_buffer::'):
            continue
        du = None
        k_in_body = 0
        for blk, t in b.calls():
            if blk.cleanup:
                continue
            f = norm_callee(t.func or '')
            cnt = None
            if re.search(r'vec::from_elem(::<u8>)?$', f) and len(t.args) == 2 and re.search(r'(255_u8|u8::MAX)', t.args[0]):
                cnt = t.args[1]
            elif re.search(r'Vec::<u8>::resize$|Vec::resize$', f) and len(t.args) == 3 and re.search(r'(255_u8|u8::MAX)', t.args[2]):
                cnt = t.args[1]
            if cnt is None:
                continue
            n += 1
            k_in_body += 1
            du = du or DefUse(b)
            l = base_local(cnt)
            org = du.origins(l) if l is not None else {'calls': [], 'stmts': []}
            up = any(norm_callee(c.func).endswith('::div_ceil') or norm_callee(c.func).endswith('next_multiple_of')
                     for (_b, c) in org['calls'])
            up = up or any(re.match(r'^Add(WithOverflow)?\(.*const 7_usize\)$', st.rhs.strip()) for (_b, st) in org['stmts'])
            down = any(re.match(r'^(Div|Shr)\(.*, const (8|3)_(usize|u32|i32)\)$', st.rhs.strip()) for (_b, st) in org['stmts'])
            ctx.check('NUL-2', '%s|ones-fill%s' % (b.name, '' if k_in_body == 1 else '#%d' % k_in_body), down and not up,
                      'all-ones fill of the bitmap covers %s' % ('complete bytes only (count = bits / 8)' if down and not up
                                                                 else 'a count that is not bits / 8 rounded down'),
                      where(t))
    ctx.require(n >= 1, 'NUL-2: no all-ones fill of a bitmap in column_buffer (anchor)')


# ------------------------------------------------------------------------------------ NUL-5
BYTE_LEVEL = ('extend', 'extend_from_slice', 'push', 'append', 'truncate', 'insert', 'splice', 'copy_from_slice',
              'index_mut', 'set_len', 'drain', 'clear')


def nul5_builder_bitmap_written_bitwise(ctx):
    """The null bitmap of the column builder is *positionally sparse*: `BitVecMut::set` grows it on
    demand and `is_set` reads a missing byte as "all NULL", so after trailing NULL rows (or a chunk
    without the column) the vector is shorter than `length / 8`.  A byte-level write (`extend`,
    `push`, `truncate` + append, ...) places the new bytes at the vector's end, not at the row
    position, and shifts every later null bit by a multiple of eight rows.  After its creation the
    bitmap may therefore be written through the bit API only - unless the byte-level write is
    dominated by a `resize` of the same vector (which pads as well as cuts)."""
    ctx.rule('NUL-5', 'the null bitmap of the column builder is written through BitVecMut::set/unset only '
                      '(it can be shorter than length / 8, so byte-level appends land on the wrong rows)',
             floor=2)
    P = ctx.P
    n_bit = 0
    for b in P.fn_bodies():
        if b.crate != 'locustdb' or not b.name.startswith('mem_store::column_buffer::ColumnBuffer::'):
            continue
        b.parse()
        du = DefUse(b)
        cfg = CFG(b)
        st = ctx.ast.struct('ColumnBuffer', 'mem_store/column_buffer.rs')
        fidx = [f['name'] for f in st['fields']].index('present')

        # locals that end up in the field (a bitmap built in a local and stored with `self.present = Some(..)`)
        feeds = set()
        for bid2, blk2 in b.blocks.items():
            for s2 in blk2.stmts:
                if s2.kind == 'assign' and re.match(r'^\(\(\*_1\)\.%d: ' % fidx, s2.lhs.strip()):
                    for l2 in set(re.findall(r'_(\d+)', s2.rhs or '')):
                        feeds |= du.origins(int(l2))['locals']

        def on_present(arg):
            l = base_local(arg)
            if l is None:
                return False
            org = du.origins(l)
            txt = ' '.join((s.rhs or '') for (_b, s) in org['stmts'])
            if re.search(r'\(\(\*_1\)\.%d: ' % fidx, txt) or re.search(r'\(_1\.%d: ' % fidx, txt):
                return True
            return bool(org['locals'] & feeds) and 'Vec<u8>' in ' '.join((b.local_type(x) or '') for x in org['locals'])
        resizes = []
        writes = []
        for blk, t in b.calls():
            if blk.cleanup or not t.args:
                continue
            c = norm_callee(t.func or '')
            m = c.split('::')[-1]
            if c.endswith('BitVecMut>::set') or c.endswith('BitVecMut>::unset'):
                if on_present(t.args[0]):
                    n_bit += 1
                    ctx.ok('NUL-5', '%s|bit-write' % b.name.split('::')[-1],
                           'bitmap written through %s' % c.split('::')[-1], where(t))
                continue
            if 'Vec' not in c and 'slice' not in c and '[u8]' not in c:
                continue
            if not on_present(t.args[0]):
                continue
            if m == 'resize':
                resizes.append(blk.id)
            elif m in BYTE_LEVEL:
                writes.append((blk, t, m))
        short = b.name.split('::')[-1]
        for (blk, t, m) in writes:
            ok = any(cfg.dominates(r, blk.id) and r != blk.id for r in resizes)
            ctx.check('NUL-5', '%s|byte-level-%s' % (short, m), ok,
                      'byte-level write `%s` on the builder\'s null bitmap %s' % (m,
                          'after a resize of the same vector' if ok else
                          'without a preceding resize: the bitmap may be shorter than length / 8 (trailing '
                          'NULL rows, a chunk without the column), so the bytes land 8*k rows too early'), where(t))
    ctx.check('NUL-5', 'bit-api-writes', n_bit >= 1,
              '%d writes of the builder\'s bitmap go through BitVecMut::set / unset' % n_bit, 'src/mem_store/column_buffer.rs')
