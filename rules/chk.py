"""CHK-1..8: the checked-arithmetic chain (C06)."""
import re

from mirlib import astlib
from mirlib.astlib import walk, find, last_seg, top_pat_variants
from mirlib.cfg import CFG
from mirlib.dataflow import DefUse, base_local, operand_place, locals_in
from mirlib.program import norm_callee
from .common import calls_matching, where

OPS = {'Add': 'add', 'Subtract': 'subtract', 'Multiply': 'multiply', 'Divide': 'divide',
       'Modulo': 'modulo'}
UNCHECKED_METHODS = set(OPS.values())
OP_STRUCT = {'Add': 'Addition', 'Subtract': 'Subtraction', 'Multiply': 'Multiplication',
             'Divide': 'Division', 'Modulo': 'Modulo'}
FACTORY = {'Add': 'addition', 'Subtract': 'subtraction', 'Multiply': 'multiplication',
           'Divide': 'division', 'Modulo': 'modulo'}
PLANNER = 'engine::planning::planner::QueryPlanner::'

CHK2_TABLE = {
    ('mem_store::codec::Codec::decode_ops', 'add'):
        'offset decode of an ingested column: encoded + offset reproduces an ingested i64, in '
        'range by construction',
    ('engine::planning::query_plan::compile_grouping_key', 'add'):
        're-basing of a grouping key whose value range was computed to fit before the offset is '
        'applied; not user-visible arithmetic',
    ('engine::planning::query_plan::try_bitpacking', 'add'):
        're-basing of bit-packed grouping key components inside the computed bit budget; not '
        'user-visible arithmetic',
    ('engine::planning::query_plan::function2_registry', 'multiply'):
        'float product row and the Null x Integer row (result is NULL) of the registry; '
        'structure checked by CHK-1',
}


def _method_calls(node):
    return [n for n in walk(node) if n.get('k') == 'mcall']


def _signatures(entry):
    """(lhs, rhs) BasicType pairs of a registry entry, or None for helper constructors."""
    if entry.get('k') == 'call':
        f = entry['func'].get('path', '') if entry.get('func') else ''
        name = last_seg(f)
        if name == 'integer_op':
            return [('Integer', 'Integer')], name
        if name in ('forward_left_null', 'forward_right_null'):
            return [], name
        if name == 'comparison_op':
            t = last_seg(entry['args'][1].get('path', '')) if len(entry['args']) > 1 else '?'
            return [(t, t)], name
        return None, name
    if entry.get('k') == 'struct_lit':
        sigs = []
        for f in entry['fields']:
            if f['name'] == 'input_type_signatures':
                for tup in find(f['value'], 'tuple'):
                    el = [last_seg(e.get('path', '')) for e in tup['elems']]
                    if len(el) == 2:
                        sigs.append(tuple(el))
        return sigs, 'literal'
    return None, '?'


def _factory_closure(entry):
    if entry.get('k') == 'call':
        cl = find(entry, 'closure')
        return cl[0] if cl else None
    if entry.get('k') == 'struct_lit':
        for f in entry['fields']:
            if f['name'] == 'factory':
                cl = find(f['value'], 'closure')
                return cl[0] if cl else None
    return None


def registry_entries(ctx):
    fn = ctx.ast.fn('function2_registry', 'engine/planning/query_plan.rs')
    out = {}
    for tup in find(fn, 'tuple'):
        el = tup['elems']
        if len(el) != 2 or el[0].get('k') != 'path' or not el[0]['path'].startswith('Func2Type::'):
            continue
        op = el[0]['path'].split('::')[-1]
        entries = []
        if el[1].get('k') == 'macro' and last_seg(el[1].get('path')) == 'vec':
            entries = el[1].get('args', [])
        out[op] = (entries, tup)
    return out


def chk1_registry(ctx):
    ctx.rule('CHK-1', 'registry: every (Integer, Integer) row of + - * / % plans only through the '
                      'checked planner method of that operator', floor=5)
    reg = registry_entries(ctx)
    for op, meth in OPS.items():
        if op not in reg:
            ctx.violation('CHK-1', 'registry|%s|present' % op, 'operator %s has no registry entry' % op)
            continue
        entries, node = reg[op]
        n_int = 0
        for i, e in enumerate(entries):
            sigs, kind = _signatures(e)
            if sigs is None:
                ctx.violation('CHK-1', 'registry|%s|row-shape' % op,
                              'unrecognised registry row constructor %s' % kind, 'query_plan.rs:%d' % e['l'])
                continue
            cl = _factory_closure(e)
            called = [m['method'] for m in _method_calls(cl)] if cl else []
            arith = [m for m in called if m in UNCHECKED_METHODS or m.startswith('checked_')
                     or m.startswith('nullable_checked_')]
            is_int = ('Integer', 'Integer') in sigs
            if is_int:
                n_int += 1
                good = arith == ['checked_' + meth]
                ctx.check('CHK-1', 'registry|%s|integer-row' % op, good,
                          '(Integer, Integer) row of %s plans through %s (expected checked_%s)'
                          % (op, arith, meth), 'src/engine/planning/query_plan.rs:%d' % e['l'])
            else:
                # non-integer rows must not smuggle an unchecked *integer* op: if they use an
                # unchecked method, every signature must involve Float or Null
                un = [m for m in arith if m in UNCHECKED_METHODS]
                if un:
                    safe = all(('Float' in s) or ('Null' in s) for s in sigs) and sigs
                    ctx.check('CHK-1', 'registry|%s|non-integer-row' % op, bool(safe),
                              'unchecked %s used only for signatures %s' % (un, sigs),
                              'src/engine/planning/query_plan.rs:%d' % e['l'])
        if n_int == 0:
            ctx.violation('CHK-1', 'registry|%s|integer-row' % op,
                          'no (Integer, Integer) row for %s' % op)


def chk2_who_builds_unchecked(ctx):
    ctx.rule('CHK-2', 'unchecked integer plan nodes are built only at tabled, non-user-arithmetic '
                      'sites', floor=5)
    P = ctx.P
    from .durability import top_function
    for meth in sorted(UNCHECKED_METHODS):
        sites = [(b, blk, t) for b, blk, t in P.call_sites(lambda f, m=meth: norm_callee(f) == PLANNER + m)
                 if not blk.cleanup]
        for (b, blk, t) in sites:
            top = top_function(P, b).name
            reason = CHK2_TABLE.get((top, meth))
            if reason:
                ctx.exception('CHK-2', '%s %s' % (top, meth), reason)
            ctx.check('CHK-2', '%s|%s' % (top, meth), reason is not None,
                      'QueryPlanner::%s (unchecked) called from %s%s'
                      % (meth, b.name, ' [tabled]' if reason else
                         ': user-visible integer arithmetic could wrap silently'), where(t))
        if not sites:
            ctx.ok('CHK-2', 'no-caller|%s' % meth, 'QueryPlanner::%s (unchecked) has no caller' % meth)


def chk3_rewrite(ctx):
    ctx.rule('CHK-3', 'nullability rewrite maps CheckedX to NullableCheckedX, never to X', floor=5)
    fn = ctx.ast.fn('propagate_nullability', 'engine/planning/planner.rs')
    seen = set()
    for m in find(fn, 'match'):
        for arm in m['arms']:
            vs = [last_seg(v) for v in top_pat_variants(arm['pat'])]
            for v in vs:
                if v and v.startswith('Checked') and v[7:] in OPS:
                    op = v[7:]
                    seen.add(op)
                    lits = [last_seg(s['path']) for s in find(arm['body'], 'struct_lit')]
                    good = ('NullableChecked' + op) in lits and op not in lits
                    ctx.check('CHK-3', 'propagate_nullability|%s' % v, good,
                              'arm %s emits %s' % (v, [l for l in lits if op in l]),
                              'src/engine/planning/planner.rs:%d' % arm['l'])
    for op in OPS:
        if op not in seen:
            ctx.violation('CHK-3', 'propagate_nullability|Checked%s' % op,
                          'no rewrite arm for Checked%s (a nullable checked op would be lowered '
                          'as non-nullable)' % op)


def chk4_plan_to_operator(ctx):
    ctx.rule('CHK-4', 'prepare(): a checked plan node is lowered to the checked operator factory of '
                      'the same operator', floor=11)
    fn = ctx.ast.fn('prepare', 'engine/planning/query_plan.rs')
    expected = {}
    for op, fac in FACTORY.items():
        expected['Checked' + op] = 'checked_' + fac
        expected['NullableChecked' + op] = 'nullable_checked_' + fac
    expected['CheckedAggregate'] = 'checked_aggregate'
    seen = set()
    for m in find(fn, 'match'):
        for arm in m['arms']:
            for v in [last_seg(x) for x in top_pat_variants(arm['pat'])]:
                if v in expected:
                    seen.add(v)
                    calls = [last_seg(c['func'].get('path')) for c in find(arm['body'], 'call')
                             if c.get('func') and (c['func'].get('path') or '').startswith('operator::')]
                    ctx.check('CHK-4', 'prepare|%s' % v, calls == [expected[v]],
                              'QueryPlan::%s -> operator::%s (expected %s)' % (v, calls, expected[v]),
                              'src/engine/planning/query_plan.rs:%d' % arm['l'])
    for v in expected:
        if v not in seen:
            ctx.violation('CHK-4', 'prepare|%s' % v, 'no lowering arm for QueryPlan::%s' % v)


def chk5_factories(ctx):
    ctx.rule('CHK-5', 'checked_* operator factories construct only Checked*/NullableChecked* '
                      'operators of the right scalar operation', floor=11)
    P = ctx.P
    pre = 'engine::operators::vector_operator::operator::'
    for op, fac in FACTORY.items():
        for prefix, want in (('checked_', 'Checked'), ('nullable_checked_', 'NullableChecked')):
            name = pre + prefix + fac
            b = P.body(name)
            if b is None:
                ctx.violation('CHK-5', '%s%s|present' % (prefix, fac), 'factory %s not found' % name)
                continue
            b.parse()
            built = []
            for bid, blk in b.blocks.items():
                if blk.cleanup:
                    continue
                for s in blk.stmts:
                    m = re.match(r'^engine::operators::binary_operator::(\w+)::<(.*)> \{', s.rhs or '')
                    if s.kind == 'assign' and m:
                        opm = re.search(r'numeric_operators::(\w+)<', m.group(2))
                        built.append((m.group(1), opm.group(1) if opm else '?'))
            good = bool(built) and all(st.startswith(want) and (want != 'Checked' or not st.startswith('Nullable'))
                                       and o == OP_STRUCT[op] for (st, o) in built)
            ctx.check('CHK-5', '%s%s' % (prefix, fac), good,
                      '%s%s builds %s' % (prefix, fac, sorted(set(built))), where(b.blocks[0].term))
    b = P.body(pre + 'checked_aggregate')
    if b is None:
        ctx.violation('CHK-5', 'checked_aggregate|present', 'factory checked_aggregate not found')
    else:
        b.parse()
        built = set()
        for bid, blk in b.blocks.items():
            for s in blk.stmts:
                m = re.match(r'^engine::operators::aggregate::(\w+)::<', s.rhs or '')
                if s.kind == 'assign' and m and not blk.cleanup:
                    built.add(m.group(1))
        ctx.check('CHK-5', 'checked_aggregate', bool(built) and all(x.startswith('CheckedAggregate') for x in built),
                  'checked_aggregate builds %s' % sorted(built), where(b.blocks[0].term))


def sticky_flag_violations(body, cfg, du, switch_local):
    """The local tested by the final `if overflow` must accumulate: every definition inside a loop
    is `BitOr(copy flag, x)` (|=); a plain overwrite in the loop loses earlier overflows."""
    # resolve through `_t = copy _flag` temporaries to the multi-def variable
    seen = set()
    cur = switch_local
    while cur is not None and cur not in seen:
        seen.add(cur)
        d = du.single_def(cur)
        if d and d[1] == 'stmt' and re.match(r'^(copy|move) _\d+$', d[2].rhs.strip()):
            cur = base_local(d[2].rhs)
        else:
            break
    flag = cur
    loops = [cfg.natural_loop(h) for h in cfg.loop_headers()]
    bad = []
    for (bid, kind, obj) in du.defs.get(flag, []):
        in_loop = any(bid in lp for lp in loops)
        if not in_loop:
            continue
        rhs = obj.rhs.strip() if kind == 'stmt' else ''
        m = re.match(r'^BitOr\((.*)\)$', rhs)
        if m and re.search(r'\bcopy _%d\b|\bmove _%d\b' % (flag, flag), m.group(1)):
            continue
        bad.append((bid, obj))
    return flag, bad


def chk6_operators_consume_flag(ctx):
    ctx.rule('CHK-6', 'checked operators call the checked scalar op and return Ok only when no '
                      'overflow flag was raised', floor=8)
    P = ctx.P
    targets = []
    for b in P.fn_bodies():
        if b.crate != 'locustdb' or not b.name.endswith('::execute'):
            continue
        if re.search(r'<(Nullable)?CheckedBinary(VS|SV)?Operator<.*> as VecOperator<', b.name) or \
                re.search(r'<CheckedAggregate(Nullable)?<.*> as VecOperator<', b.name):
            targets.append(b)
    ctx.require(len(targets) >= 8, 'CHK-6: expected >= 8 checked operator execute bodies, found %d' % len(targets))
    for b in sorted(targets, key=lambda x: x.name):
        short = re.search(r'<(\w+)<', b.name).group(1)
        du = DefUse(b)
        cfg = CFG(b)
        checked = calls_matching(b, lambda n: n.endswith('CheckedBinaryOp>::perform_checked') or
                                 n.endswith('CheckedAggregator>::accumulate_checked'))
        unchecked = calls_matching(b, lambda n: n.endswith(' as BinaryOp>::perform') or
                                   n.endswith(' as Aggregator>::accumulate'))
        ctx.check('CHK-6', '%s|uses-checked-scalar-op' % short, bool(checked) and not unchecked,
                  'execute calls %d checked and %d unchecked scalar ops' % (len(checked), len(unchecked)),
                  where(checked[0][1]) if checked else where(b.blocks[0].term))
        # Ok(()) only on the no-overflow edge of a switch over a value derived from field .1
        flag_locals = set()
        for (cb, ct) in checked:
            d = base_local(ct.dest)
            for (bid, kind, obj) in du.uses.get(d, []):
                if kind == 'stmt' and obj.kind == 'assign' and re.search(r'\(_%d\.1: bool\)' % d, obj.rhs):
                    flag_locals |= du.forward(base_local(obj.lhs))
        # control dependence (`overflow && present`): values assigned under a branch on the flag
        changed = True
        dom = cfg.dominators()
        while changed:
            changed = False
            for bid, blk in b.blocks.items():
                t = blk.term
                if blk.cleanup or t is None or t.kind != 'switch' or base_local(t.discr) not in flag_locals:
                    continue
                for (_v, tg) in t.targets:
                    if cfg.pred.get(tg) != [bid]:
                        continue
                    for b2, blk2 in b.blocks.items():
                        if blk2.cleanup or b2 not in dom or tg not in dom[b2]:
                            continue
                        for s2 in blk2.stmts:
                            if s2.kind == 'assign':
                                l2 = base_local(s2.lhs)
                                if l2 is not None and l2 not in flag_locals and l2 != 0:
                                    flag_locals |= du.forward(l2)
                                    changed = True
                        t2 = blk2.term
                        if t2 is not None and t2.kind == 'call':
                            l2 = base_local(t2.dest)
                            if l2 is not None and l2 not in flag_locals and l2 != 0:
                                flag_locals |= du.forward(l2)
                                changed = True
        okb = []
        errb = []
        for bid, blk in b.blocks.items():
            if blk.cleanup:
                continue
            for s in blk.stmts:
                if s.kind == 'assign' and s.lhs == '_0':
                    if re.search(r'Result::<.*>::Ok\(', s.rhs):
                        okb.append(bid)
                    elif re.search(r'Result::<.*>::Err\(', s.rhs):
                        errb.append(bid)
        sw = [(bid, blk.term) for bid, blk in b.blocks.items() if not blk.cleanup and blk.term is not None
              and blk.term.kind == 'switch' and base_local(blk.term.discr) in flag_locals]
        good = False
        for (sb, st) in sw:
            z = [t for (v, t) in st.targets if v == '0']
            nz = [t for (v, t) in st.targets if v != '0']
            if z and nz and okb and errb and all(cfg.dominates(z[0], o) for o in okb) and \
                    any(cfg.dominates(nz[0], e) for e in errb):
                good = True
        ctx.check('CHK-6', '%s|ok-depends-on-overflow-flag' % short, good,
                  'Ok(()) is returned only on the false edge of the accumulated overflow flag, '
                  'the true edge returns Err', where(b.blocks[okb[0]].term) if okb else where(b.blocks[0].term))
        for (sb, st) in sw[:1]:
            flag, bad = sticky_flag_violations(b, cfg, du, base_local(st.discr))
            ctx.check('CHK-6', '%s|flag-accumulates' % short, not bad,
                      'the overflow flag is accumulated with |= inside the loop (overwrites: %d)' % len(bad),
                      where(bad[0][1]) if bad else where(st))


# ------------------------------------------------------------------------------------ CHK-7
I64_MIN = -(2 ** 63)
I64_MAX = 2 ** 63 - 1
DIV_ASSERTS = ('attempt to divide', 'attempt to calculate the remainder',
               'attempt to compute `{} / {}`', 'attempt to compute the remainder of')
EXACT_CALLS = re.compile(r'^(?:core::num::<impl i64>|i64)::(overflowing_(add|sub|mul|neg)|checked_(add|sub|mul|div|rem|neg)|wrapping_rem|overflowing_rem|checked_rem_euclid)$')
INEXACT_CALLS = re.compile(r'^(?:core::num::<impl i64>|i64)::(wrapping_(add|sub|mul|div|neg)|saturating_(add|sub|mul|div)|unchecked_|overflowing_div)')


def _const_i64(op):
    m = re.match(r'^const (-?\d+)_(i64|isize|i32|u8|u16|u32|u64|usize)$', op.strip())
    if m:
        return int(m.group(1))
    if op.strip() in ('const core::num::<impl i64>::MAX', 'const i64::MAX'):
        return I64_MAX
    if op.strip() in ('const core::num::<impl i64>::MIN', 'const i64::MIN'):
        return I64_MIN
    return None


class _Undecidable(Exception):
    pass


def _abstract_run(body, lhs, rhs):
    """Region-partition abstract interpretation of a perform_checked body: lhs/rhs stand for every
    value of their region (all operations on them are comparisons with constants, checked below).
    Returns list of failing asserts [(term, msg)]."""
    env = {}
    bid = 0
    steps = 0
    failures = []

    def val(op):
        op = op.strip()
        c = _const_i64(op)
        if c is not None:
            return c
        if op == 'const true':
            return True
        if op == 'const false':
            return False
        if op.startswith('const '):
            return ('opaque', op)
        pl = operand_place(op)
        m = re.match(r'^_(\d+)$', pl)
        if m:
            return env.get(int(m.group(1)), ('opaque', pl))
        m = re.match(r'^\(\*_(\d+)\)$', pl)
        if m:
            v = env.get(int(m.group(1)))
            if isinstance(v, tuple) and v[0] == 'ref':
                return env.get(v[1], ('opaque', pl))
            return ('opaque', pl)
        m = re.match(r'^\(_(\d+)\.(\d+): ', pl)
        if m:
            v = env.get(int(m.group(1)))
            if isinstance(v, tuple) and v[0] == 'tuple':
                return v[1][int(m.group(2))]
            return ('opaque', pl)
        m = re.match(r'^\(\(_(\d+) as Some\)\.0: ', pl)
        if m:
            v = env.get(int(m.group(1)))
            if isinstance(v, tuple) and v[0] == 'some':
                return v[1]
        return ('opaque', pl)

    def isint(v):
        return isinstance(v, int) and not isinstance(v, bool)

    while steps < 400:
        steps += 1
        blk = body.blocks[bid]
        for s in blk.stmts:
            if s.kind != 'assign':
                continue
            dst = re.match(r'^_(\d+)$', s.lhs.strip())
            rhs_t = s.rhs.strip()
            v = ('opaque', rhs_t)
            m = re.match(r'^(Eq|Ne|Lt|Le|Gt|Ge|BitAnd|BitOr|BitXor)\((.*)\)$', rhs_t)
            if m:
                a, b_ = [val(x) for x in _split2(m.group(2))]
                if isinstance(a, tuple) or isinstance(b_, tuple):
                    v = ('opaque', rhs_t)
                else:
                    v = {'Eq': a == b_, 'Ne': a != b_, 'Lt': a < b_, 'Le': a <= b_, 'Gt': a > b_,
                         'Ge': a >= b_, 'BitAnd': (a and b_) if isinstance(a, bool) else a & b_,
                         'BitOr': (a or b_) if isinstance(a, bool) else a | b_,
                         'BitXor': (a != b_) if isinstance(a, bool) else a ^ b_}[m.group(1)]
            elif re.match(r'^(Div|Rem|Add|Sub|Mul|AddWithOverflow|SubWithOverflow|MulWithOverflow)\(', rhs_t):
                v = ('opaque', rhs_t)
            elif rhs_t.startswith('Not('):
                a = val(rhs_t[4:-1])
                v = (not a) if isinstance(a, bool) else ('opaque', rhs_t)
            elif rhs_t.startswith('Neg('):
                a = val(rhs_t[4:-1])
                v = -a if isint(a) else ('opaque', rhs_t)
            elif rhs_t.startswith(('move ', 'copy ')) and ' as ' not in rhs_t:
                v = val(rhs_t)
            elif rhs_t.startswith('const '):
                v = val(rhs_t)
            elif re.match(r'^&(mut )?_(\d+)$', rhs_t):
                v = ('ref', int(re.match(r'^&(?:mut )?_(\d+)$', rhs_t).group(1)))
            elif rhs_t.startswith('discriminant('):
                a = val(rhs_t[len('discriminant('):-1])
                v = 1 if (isinstance(a, tuple) and a[0] == 'some') else ('opaque', rhs_t)
            elif rhs_t.startswith('('):
                parts = _split_all(rhs_t[1:-1])
                if all(p.startswith(('move ', 'copy ', 'const ')) for p in parts):
                    v = ('tuple', [val(p) for p in parts])
            if dst:
                env[int(dst.group(1))] = v
        t = blk.term
        if t.kind == 'goto':
            bid = t.target
        elif t.kind == 'return':
            return failures
        elif t.kind == 'switch':
            d = val(t.discr)
            if isinstance(d, tuple):
                raise _Undecidable('branch on opaque value %s in bb%d' % (d, bid))
            dv = int(d)
            tgt = None
            for (vv, tg) in t.targets:
                if vv != 'otherwise' and int(vv) == dv:
                    tgt = tg
            if tgt is None:
                tgt = [tg for (vv, tg) in t.targets if vv == 'otherwise'][0]
            bid = tgt
        elif t.kind == 'assert':
            c = val(t.cond)
            if isinstance(c, tuple):
                if any(x in (t.msg or '') for x in DIV_ASSERTS):
                    raise _Undecidable('division assert on opaque condition')
                c = t.expected
            if bool(c) != t.expected:
                failures.append((t, t.msg))
                return failures
            bid = t.target
        elif t.kind == 'call':
            n = norm_callee(t.func)
            dst = base_local(t.dest)
            if n.endswith('ToPrimitive>::to_i64'):
                a = val(t.args[0])
                if isinstance(a, tuple) and a[0] == 'ref' and a[1] in (1, 2):
                    env[dst] = ('some', lhs if a[1] == 1 else rhs)
                else:
                    env[dst] = ('opaque', 'to_i64')
            elif n.endswith('option::Option::unwrap'):
                a = val(t.args[0])
                env[dst] = a[1] if isinstance(a, tuple) and a[0] == 'some' else ('opaque', 'unwrap')
            else:
                env[dst] = ('opaque', n)
            if t.target is None:
                return failures
            bid = t.target
        elif t.kind == 'drop':
            bid = t.target
        else:
            return failures
    raise _Undecidable('step budget exceeded')


def _split2(s):
    parts = _split_all(s)
    return parts[0], parts[1]


def _split_all(s):
    out = []
    depth = 0
    last = 0
    for i, c in enumerate(s):
        if c in '([{<':
            depth += 1
        elif c in ')]}>':
            depth -= 1
        elif c == ',' and depth == 0:
            out.append(s[last:i].strip())
            last = i + 1
    tail = s[last:].strip()
    if tail:
        out.append(tail)
    return out


def chk7_scalar_implementations(ctx):
    ctx.rule('CHK-7', 'checked scalar operators: no raw + - * (only overflowing_*/checked_* calls) '
                      'and every division/remainder assert is excluded by the guards for all i64 '
                      'operand pairs', floor=5)
    P = ctx.P
    bodies = [b for b in P.fn_bodies() if b.crate == 'locustdb' and
              re.search(r'numeric_operators::<\w+<.*> as CheckedBinaryOp<.*>>::perform_checked$', b.name)]
    ctx.require(len(bodies) >= 5, 'CHK-7: expected 5 perform_checked bodies, found %d' % len(bodies))
    # checked accumulators of SUM (accumulate / combine partial accumulators)
    accs = [b for b in P.fn_bodies() if b.crate == 'locustdb' and
            re.search(r'aggregate::<\w+ as CheckedAggregator<.*>>::(accumulate_checked|combine_checked)$', b.name)]
    ctx.require(len(accs) >= 2, 'CHK-7: checked accumulator bodies not found (%d)' % len(accs))
    for b in sorted(accs, key=lambda x: x.name):
        b.parse()
        raw = [s for blk in b.blocks.values() if not blk.cleanup for s in blk.stmts
               if s.kind == 'assign' and re.match(r'^(Add|Sub|Mul|AddWithOverflow|SubWithOverflow|MulWithOverflow)\(', s.rhs)]
        calls = [norm_callee(t.func) for blk, t in b.calls() if not blk.cleanup]
        inexact = [c for c in calls if INEXACT_CALLS.match(c)]
        exact = [c for c in calls if EXACT_CALLS.match(c)]
        short = re.search(r'<(\w+) as', b.name).group(1) + '::' + b.name.split('::')[-1]
        ctx.check('CHK-7', '%s|no-raw-add' % short, not raw and not inexact and bool(exact),
                  'checked accumulator uses %s (raw ops: %d, inexact calls: %s)'
                  % (sorted(set(c.split('::')[-1] for c in exact)), len(raw), inexact),
                  where(b.blocks[0].term))
    for b in sorted(bodies, key=lambda x: x.name):
        short = re.search(r'<(\w+)<', b.name).group(1)
        b.parse()
        raw = []
        consts = {0, -1, 1, I64_MIN, I64_MAX}
        for bid, blk in b.blocks.items():
            if blk.cleanup:
                continue
            for s in blk.stmts:
                if s.kind == 'assign':
                    m = re.match(r'^(Add|Sub|Mul|AddWithOverflow|SubWithOverflow|MulWithOverflow|AddUnchecked|SubUnchecked|MulUnchecked|Shl|Shr)\(', s.rhs)
                    if m:
                        raw.append((m.group(1), s))
                    for c in re.findall(r'const (-?\d+)_i64', s.rhs):
                        consts.add(int(c))
            t = blk.term
            if t is not None and t.kind == 'call':
                n = norm_callee(t.func)
                if INEXACT_CALLS.match(n):
                    raw.append((n.split('::')[-1], t))
                for a in t.args:
                    for c in re.findall(r'const (-?\d+)_i64', a):
                        consts.add(int(c))
        ctx.check('CHK-7', '%s|no-raw-add-sub-mul' % short, not raw,
                  'perform_checked uses only exact library calls for + - * (raw: %s)'
                  % [r[0] for r in raw], where(raw[0][1]) if raw else where(b.blocks[0].term))
        has_div = any(blk.term is not None and blk.term.kind == 'assert' and
                      any(x in (blk.term.msg or '') for x in DIV_ASSERTS)
                      for blk in b.blocks.values() if not blk.cleanup)
        if not has_div:
            if short in ('Division', 'Modulo'):
                calls = [norm_callee(t.func) for blk, t in b.calls() if not blk.cleanup]
                ex = [c for c in calls if EXACT_CALLS.match(c)]
                ctx.ok('CHK-7', '%s|division-asserts-excluded' % short,
                       'no raw / or %% in the body; exact library calls: %s' % sorted(set(x.split('::')[-1] for x in ex)))
            continue
        grid = set()
        for c in consts:
            for d in (-1, 0, 1):
                if I64_MIN <= c + d <= I64_MAX:
                    grid.add(c + d)
        grid = sorted(grid)
        witness = None
        undec = None
        n = 0
        for l in grid:
            for r in grid:
                n += 1
                try:
                    f = _abstract_run(b, l, r)
                except _Undecidable as e:
                    undec = str(e)
                    break
                if f:
                    witness = (l, r, f[0][1], f[0][0])
                    break
            if witness or undec:
                break
        if undec:
            from mirlib.core import CheckerError
            raise CheckerError('CHK-7: cannot decide %s (%s)' % (b.name, undec))
        if witness:
            ctx.violation('CHK-7', '%s|division-asserts-excluded' % short,
                          'operands (lhs=%d, rhs=%d) reach the assert %s: the worker thread panics '
                          'instead of returning a value or an overflow flag'
                          % (witness[0], witness[1], witness[2]), where(witness[3]))
        else:
            ctx.ok('CHK-7', '%s|division-asserts-excluded' % short,
                   'every division/remainder assert is unreachable for all %d operand regions '
                   '(critical constants %s)' % (n, sorted(consts)), where(b.blocks[0].term))


def chk8_sum(ctx):
    ctx.rule('CHK-8', 'integer SUM is accumulated and merged with checked additions', floor=2)
    fn = ctx.ast.fn('prepare_aggregation', 'engine/planning/query_plan.rs')
    found = False
    for m in find(fn, 'match'):
        for arm in m['arms']:
            vs = [last_seg(v) for v in top_pat_variants(arm['pat'])]
            if 'SumI64' in vs and arm.get('guard') is not None:
                src = arm['guard']
                txt = ' '.join(n.get('path', '') for n in walk(src) if n.get('k') == 'path') + \
                    ' '.join(str(n.get('pat', '')) for n in walk(src))
                if 'Integer' not in txt:
                    continue
                found = True
                calls = [mc['method'] for mc in _method_calls(arm['body'])
                         if mc['method'] in ('aggregate', 'checked_aggregate')]
                ctx.check('CHK-8', 'prepare_aggregation|integer-sum', calls == ['checked_aggregate'],
                          'integer SumI64 is planned through %s' % calls,
                          'src/engine/planning/query_plan.rs:%d' % arm['l'])
    if not found:
        ctx.violation('CHK-8', 'prepare_aggregation|integer-sum', 'no integer SumI64 arm found')
    P = ctx.P
    cands = [b for b in P.fn_bodies() if b.crate == 'locustdb' and
             re.search(r'<i64 as Combinable<i64>>::combine$', b.name)]
    ctx.require(len(cands) == 1, 'CHK-8: <i64 as Combinable<i64>>::combine not found')
    b = cands[0]
    # the sum may be computed in a closure handed to a NULL-coalescing helper: the function and the
    # closures it creates are read together
    bodies = [b] + [cb for cb in P.closures_of(b)]
    adds, oadds, raw = [], [], []
    ok_or = False
    flag_returned = False
    for bb in bodies:
        a_ = calls_matching(bb, lambda n: n in ('core::num::<impl i64>::checked_add', 'i64::checked_add'))
        o_ = calls_matching(bb, lambda n: n in ('core::num::<impl i64>::overflowing_add', 'i64::overflowing_add'))
        adds += a_
        oadds += o_
        for bid, blk in bb.blocks.items():
            if blk.cleanup:
                continue
            for s in blk.stmts:
                if s.kind == 'assign' and re.match(r'^(Add|AddWithOverflow)\(', s.rhs):
                    raw.append(s)
        du = DefUse(bb)
        for (blk, t) in a_:
            fw = du.forward(base_local(t.dest))
            for (b2, t2) in bb.calls():
                if norm_callee(t2.func).endswith('Option::ok_or') and base_local(t2.args[0]) in fw \
                        and 'QueryError::Overflow' in ' '.join(s.rhs or '' for s in b2.stmts if s.kind == 'assign') + ' '.join(t2.args):
                    ok_or = True
        flag_returned = flag_returned or any(0 in du.forward(base_local(t.dest)) for (blk, t) in o_)
    mode = 'checked_add -> ok_or(Overflow)' if (adds and ok_or) else \
        ('overflowing_add flag returned' if flag_returned else 'none')
    # at most one raw add (Count) may remain next to the checked sum
    ctx.check('CHK-8', 'Combinable<i64>::combine|sum-merge-checked', mode != 'none' and len(raw) <= 1,
              'partial integer sums are merged exactly: %s (%d checked_add, %d overflowing_add, '
              '%d raw add [Count])' % (mode, len(adds), len(oadds), len(raw)),
              where((adds or oadds)[0][1]) if (adds or oadds) else where(b.blocks[0].term))
    if mode == 'overflowing_add flag returned':
        # the caller must accumulate the flag and fail on it
        M = [x for x in P.fn_bodies() if x.crate == 'locustdb' and x.name.endswith('merge_aggregate::merge_aggregate')]
        ctx.require(len(M) == 1, 'CHK-8: merge_aggregate not found')
        m = M[0]
        cfg = CFG(m)
        dm = DefUse(m)
        errs = []
        for bid, blk in m.blocks.items():
            if blk.cleanup:
                continue
            for s_ in blk.stmts:
                if s_.kind == 'assign' and s_.lhs == '_0' and re.search(r'Result::<.*>::Err\(', s_.rhs or ''):
                    errs.append(bid)
        sws = []
        for bid, blk in m.blocks.items():
            t_ = blk.term
            if blk.cleanup or t_ is None or t_.kind != 'switch':
                continue
            if m.local_type(base_local(t_.discr)) != 'bool':
                continue
            org = dm.origins(base_local(t_.discr))
            from_combine = any(norm_callee(c.func).endswith('Combinable>::combine') for (_b, c) in org['calls'])
            if from_combine and any(cfg.dominates(tg, e) for (_v, tg) in t_.targets for e in errs
                                    if cfg.pred.get(tg) == [bid]):
                sws.append((bid, t_))
        good = False
        detail = 'no branch on an overflow flag leads to Err(Overflow)'
        good = bool(sws)
        for (sb, st) in sws:
            flag, bad = sticky_flag_violations(m, cfg, dm, base_local(st.discr))
            if bad:
                good = False
                detail = 'the overflow flag is overwritten inside the merge loop (%s): an overflow ' \
                         'in an earlier group is forgotten' % bad[0][1].code[:60]
        ctx.check('CHK-8', 'merge_aggregate|flag-accumulates', good, detail if not good else
                  'merge loop accumulates the overflow flag with |= and fails on it',
                  where(sws[0][1]) if sws else where(m.blocks[0].term))
