"""TBL-*: sibling tables agree (syntax-tree rules): serialiser/deserialiser pairs, decode siblings,
JSON renderers; plus capnp schema cross-checks."""
import os
import re

from mirlib import astlib, facts
from mirlib.astlib import walk, find, last_seg, top_pat_variants


def camel_to_snake(s):
    out = []
    for i, c in enumerate(s):
        if c.isupper() and i > 0 and (s[i - 1].islower() or (s[i - 1].isdigit() and False)):
            out.append('_')
        elif c.isupper() and i > 0 and i + 1 < len(s) and s[i + 1].islower() and s[i - 1].isupper():
            out.append('_')
        out.append(c.lower())
    return ''.join(out)


# ---------------------------------------------------------------------------- capnp schema reader
def capnp_schema(repo, name):
    """Very small reader: returns {struct or enum name: [member names]} incl. unions
    ('Struct.union' for anonymous unions, 'Struct.field' for named unions/groups)."""
    p = os.path.join(repo, 'locustdb-serialization', 'schemas', name)
    with open(p) as f:
        txt = f.read()
    txt = re.sub(r'#.*', '', txt)
    toks = re.findall(r'[A-Za-z_][A-Za-z0-9_]*|@\d+|[{}();:=,\[\]\(\)]|[^\s]', txt)
    out = {}
    stack = []   # (kind, name)
    i = 0
    while i < len(toks):
        t = toks[i]
        if t in ('struct', 'enum') and i + 2 < len(toks):
            stack.append((t, toks[i + 1]))
            out.setdefault(toks[i + 1], [])
            # skip to '{'
            while toks[i] != '{':
                i += 1
        elif t == 'union' and toks[i + 1] == '{':
            owner = stack[-1][1] if stack else '?'
            stack.append(('union', owner + '.union'))
            out.setdefault(owner + '.union', [])
            i += 1
        elif re.match(r'^[a-z][A-Za-z0-9_]*$', t) and i + 1 < len(toks) and toks[i + 1].startswith('@') and stack:
            kind, nm = stack[-1]
            out[nm].append(t)
            # named union / group:  name @N :union {  or  name :group {
            j = i + 2
            while j < len(toks) and toks[j] not in (';', '{'):
                j += 1
            if j < len(toks) and toks[j] == '{':
                owner = nm
                stack.append(('union', owner + '.' + t))
                out.setdefault(owner + '.' + t, [])
                i = j
        elif re.match(r'^[a-z][A-Za-z0-9_]*$', t) and i + 2 < len(toks) and toks[i + 1] == ':' and \
                toks[i + 2] in ('union', 'group') and stack:
            kind, nm = stack[-1]
            out[nm].append(t)
            j = i + 3
            while toks[j] != '{':
                j += 1
            stack.append(('union', nm + '.' + t))
            out.setdefault(nm + '.' + t, [])
            i = j
        elif t == '}':
            if stack:
                stack.pop()
        i += 1
    return out


# ---------------------------------------------------------------------------- arm extraction
def arms_over_enum(fn_node, enum_name):
    """Match arms inside fn_node whose top pattern names a variant of enum_name
    (`Enum::V(..)`, `&Enum::V`, struct patterns). Returns [(variant, arm)] and wildcard arms."""
    out = []
    wild = []
    for m in find(fn_node, 'match'):
        hit = False
        local = []
        for arm in m['arms']:
            vs = top_pat_variants(arm['pat'])
            for v in vs:
                if v.startswith(enum_name + '::') or ('::' + enum_name + '::') in v:
                    hit = True
                    local.append((v.split('::')[-1], arm))
        if hit:
            out += local
            for arm in m['arms']:
                if top_pat_variants(arm['pat']) == ['_'] or \
                        (arm['pat'].get('k') == 'p_ident' and not arm['pat']['name'][:1].isupper()):
                    wild.append(arm)
    return out, wild


def arms_constructing(fn_node, enum_name):
    """Match arms whose body constructs `Enum::V` (deserialiser direction).
    Returns [(member pattern name, constructed variant, arm, constructor node)]."""
    out = []
    for m in find(fn_node, 'match'):
        for arm in m['arms']:
            cons = constructors_in(arm['body'], enum_name)
            if not cons:
                continue
            nested = [mm for mm in find(arm['body'], 'match') if mm is not arm['body'] and
                      any(constructors_in(a2['body'], enum_name) for a2 in mm['arms'])]
            if nested and not (arm['body'].get('k') == 'match' and len(nested) == 1 and nested[0] is arm['body']):
                continue
            mem = top_pat_variants(arm['pat'])
            for pv in mem:
                out.append((pv.split('::')[-1], cons[0][0], arm, cons[0][1]))
    return out


def constructors_in(node, enum_name):
    """[(variant, node)] for `Enum::V(..)`, `Enum::V { .. }`, `Enum::V` in node (outermost first)."""
    out = []
    for n in walk(node):
        k = n.get('k')
        p = None
        if k == 'call' and n.get('func') and n['func'].get('k') == 'path':
            p = n['func']['path']
        elif k == 'struct_lit':
            p = n['path']
        elif k == 'path':
            p = n['path']
        if p and (p.startswith(enum_name + '::') or ('::' + enum_name + '::') in p):
            v = p.split('::')[-1]
            if v[:1].isupper():
                out.append((v, n))
    return out


def pattern_binders(pat):
    """Positional / named binders of an arm pattern: [(key, binder name)] key = index or field."""
    p = pat
    while p.get('k') in ('p_ref', 'p_box', 'p_type'):
        p = p['pat']
    if p.get('k') == 'p_or':
        p = p['cases'][0]
    out = []
    if p.get('k') == 'p_tuple_struct':
        for i, e in enumerate(p['elems']):
            nm = None
            for n in walk(e):
                if n.get('k') == 'p_ident':
                    nm = n['name']
                    break
            out.append((i, nm))
    elif p.get('k') == 'p_struct':
        for f in p['fields']:
            nm = None
            for n in walk(f['pat']):
                if n.get('k') == 'p_ident':
                    nm = n['name']
                    break
            out.append((f['name'], nm))
    return out


def idents_in(node):
    s = set()
    for n in walk(node):
        if n.get('k') == 'path' and '::' not in n['path']:
            s.add(n['path'])
    return s


def walk_shallow(node):
    """walk() that does not descend into nested `match` expressions."""
    stack = [node]
    first = True
    while stack:
        n = stack.pop()
        if isinstance(n, dict):
            if 'k' in n:
                if n['k'] == 'match' and not first:
                    # the scrutinee is still part of the enclosing arm
                    stack.append(n.get('scrutinee'))
                    continue
                yield n
            first = False
            for v in reversed([v for v in n.values() if isinstance(v, (dict, list))]):
                stack.append(v)
        elif isinstance(n, list):
            for v in reversed(n):
                stack.append(v)


def builder_calls(node, shallow=False):
    """set_*/init_* method calls in source order: [(method, node)]."""
    out = []
    for n in (walk_shallow(node) if shallow else walk(node)):
        if n.get('k') == 'mcall' and (n['method'].startswith('set_') or n['method'].startswith('init_')):
            out.append((n['method'], n))
    out.sort(key=lambda x: (x[1]['l'], x[1]['c']))
    return out


def getter_calls(node):
    return [n['method'] for n in walk(node) if n.get('k') == 'mcall' and n['method'].startswith('get_')]


def ser_table(fn_node, enum_name):
    """variant -> {'member': name, 'fields': {binder key: setter suffix or 'payload'}, 'panics': bool}"""
    arms, wild = arms_over_enum(fn_node, enum_name)
    table = {}
    for v, arm in arms:
        body = arm['body']
        if astlib.arm_rejects(body):
            table[v] = {'member': None, 'fields': {}, 'panics': True, 'l': arm['l']}
            continue
        calls = builder_calls(body, shallow=True)
        if not calls:
            continue
        member = re.sub(r'^(set|init)_', '', calls[0][0])
        binders = pattern_binders(arm['pat'])
        fields = {}
        for key, bname in binders:
            if bname is None or bname == '_':
                continue
            # which setter receives this binder
            target = None
            for (meth, node) in calls:
                args = node.get('args', [])
                if any(bname in idents_in(a) for a in args):
                    target = re.sub(r'^(set|init)_', '', meth)
                    if meth == calls[0][0]:
                        target = 'payload' if meth.startswith('set_') else 'payload-len'
                    break
            fields[key] = target
        table[v] = {'member': member, 'fields': fields, 'panics': False, 'l': arm['l']}
    return table, wild


def deser_table(fn_node, enum_name):
    """member(snake) -> {'variant': V, 'fields': {key: getter suffix or 'payload'}}"""
    table = {}
    for mem, v, arm, cons in arms_constructing(fn_node, enum_name):
        if mem in ('_', 'tuple') or mem.startswith('?'):
            continue
        binder = pattern_binders(arm['pat'])
        bname = binder[0][1] if binder else None
        # local aliases of getters: `let data = lz4.get_data().unwrap();` -> name -> getter
        alias = {}
        for n in walk(arm['body']):
            if n.get('k') == 'let' and n.get('init') is not None and n['pat'].get('k') == 'p_ident':
                gs = getter_calls(n['init'])
                if gs:
                    alias[n['pat']['name']] = gs[0]
        for n in walk(arm['body']):
            if n.get('k') == 'mcall' and n['method'] in ('extend', 'extend_from_slice', 'push') and \
                    n['recv'].get('k') == 'path':
                for a in n.get('args', []):
                    for i_ in idents_in(a):
                        if i_ in alias:
                            alias.setdefault(n['recv']['path'], alias[i_])
        fields = {}
        if cons.get('k') == 'call':
            args = cons.get('args', [])
            for i, a in enumerate(args):
                fields[i] = _arg_source(a, bname, alias)
        elif cons.get('k') == 'struct_lit':
            for f in cons['fields']:
                fields[f['name']] = _arg_source(f['value'], bname, alias)
        # element-wise rebuild: `for x in <binder>.iter() { .. out.push(..) }`
        loops_over_payload = bool(bname) and any(
            n.get('k') == 'for' and bname in idents_in(n['iter']) for n in walk(arm['body']))
        table[camel_to_snake(mem)] = {'variant': v, 'fields': fields, 'l': arm['l'], 'raw_member': mem,
                                      'loops_over_payload': loops_over_payload}
    return table


def _arg_source(a, bname, alias):
    gs = getter_calls(a)
    if gs:
        return re.sub(r'^get_', '', gs[0])
    ids = idents_in(a)
    for nm in ids:
        if nm in alias:
            return re.sub(r'^get_', '', alias[nm])
    if bname and bname in ids:
        return 'payload'
    # buffers filled from the payload (`buffer.extend(data)`)
    return 'payload-derived'


def compare_codec(ctx, rule, label, ser_fn, deser_fn, enum_name, file_hint, schema_members=None,
                  ser_panics_ok=(), extra_members_ok=()):
    st, wild = ser_table(ser_fn, enum_name)
    dt = deser_table(deser_fn, enum_name)
    for arm in wild:
        ctx.violation(rule, '%s|serialiser-wildcard' % label,
                      'serialiser match over %s has a wildcard arm (a new variant would be '
                      'silently mis-serialised)' % enum_name, '%s:%d' % (file_hint, arm['l']))
    by_variant = {}
    for mem, d in dt.items():
        by_variant.setdefault(d['variant'], []).append(mem)
    for v, s in sorted(st.items()):
        where = '%s:%d' % (file_hint, s['l'])
        if s['panics']:
            ctx.check(rule, '%s|%s|not-storable' % (label, v), v in ser_panics_ok,
                      'variant %s is rejected by the serialiser (tabled: %s)' % (v, v in ser_panics_ok), where)
            continue
        mem = s['member']
        d = dt.get(mem)
        if d is None:
            ctx.violation(rule, '%s|%s|round-trip' % (label, v),
                          'serialiser writes %s as member `%s` but the deserialiser has no arm for '
                          'that member' % (v, mem), where)
            continue
        ok = d['variant'] == v
        detail = 'variant %s -> member `%s` -> variant %s' % (v, mem, d['variant'])
        # field level
        fdetail = []
        for key, setter in s['fields'].items():
            src = d['fields'].get(key)
            if setter is None or src is None:
                continue
            if setter in ('payload', 'payload-len'):
                good = src in ('payload', 'payload-derived') or d.get('loops_over_payload', False)
            else:
                good = (src == setter)
            fdetail.append('%s: set_%s/%s' % (key, setter, src))
            ok = ok and good
        ctx.check(rule, '%s|%s|round-trip' % (label, v), ok,
                  detail + ('; fields ' + ', '.join(fdetail) if fdetail else ''), where)
        if schema_members is not None:
            ctx.check(rule, '%s|%s|schema-member' % (label, v), mem in schema_members,
                      'member `%s` exists in the capnp schema' % mem, where)
    # deserialiser arms for members nobody writes
    written = {s['member'] for s in st.values() if s['member']}
    for mem, d in sorted(dt.items()):
        if mem not in written and mem not in extra_members_ok:
            ctx.violation(rule, '%s|member-%s|never-written' % (label, mem),
                          'deserialiser accepts member `%s` (-> %s) that the serialiser never writes'
                          % (mem, d['variant']), '%s:%d' % (file_hint, d['l']))
    return st, dt


def enum_map(fn_node):
    """For `fn f(t: A) -> B { match t { X => Y, ... } }`: {X: Y or None if panics}."""
    out = {}
    wild = None
    for m in find(fn_node, 'match'):
        for arm in m['arms']:
            vs = top_pat_variants(arm['pat'])
            body = arm['body']
            tgt = None
            if astlib.arm_rejects(body):
                tgt = None
            else:
                for n in walk(body):
                    if n.get('k') == 'path':
                        tgt = n['path'].split('::')[-1]
                        break
            for v in vs:
                if v == '_':
                    wild = tgt
                else:
                    out[v.split('::')[-1]] = tgt
        break
    return out, wild


# ---------------------------------------------------------------------------- TBL-7
NOT_STORABLE_CODEC = ('Unknown',)


def tbl7_partition_codec(ctx):
    ctx.rule('TBL-7', 'partition file codec: serialiser and deserialiser compose to the identity on '
                      'CodecOp / DataSection / EncodingType variants and on their fields', floor=28)
    ast = ctx.ast
    f = 'disk_store/partition_segment.rs'
    ser = ast.fn_closure('PartitionSegment::serialize', f)
    de = ast.fn_closure('PartitionSegment::deserialize', f)
    schema = capnp_schema(ctx.repo, 'partition_segment.capnp')
    conv = {k: [camel_to_snake(x[0].upper() + x[1:]) for x in v] for k, v in schema.items()}
    compare_codec(ctx, 'TBL-7', 'CodecOp', ser, de, 'CodecOp', 'src/' + f,
                  schema_members=set(conv.get('CodecOp.union', [])), ser_panics_ok=NOT_STORABLE_CODEC)
    compare_codec(ctx, 'TBL-7', 'DataSection', ser, de, 'DataSection', 'src/' + f,
                  schema_members=set(conv.get('DataSection.union', [])))
    # EncodingType both directions
    to_c, w1 = enum_map(ast.fn('encoding_type_to_capnp', f))
    from_c, w2 = enum_map(ast.fn('deserialize_type', f))
    enum_members = {camel_to_snake(x[0].upper() + x[1:]) for x in schema.get('EncodingType', [])}
    for v, m in sorted(to_c.items()):
        if m is None:
            continue
        back = from_c.get(m)
        ctx.check('TBL-7', 'EncodingType|%s|round-trip' % v, back == v,
                  'EncodingType::%s -> capnp %s -> EncodingType::%s' % (v, m, back),
                  'src/%s' % f)
        ctx.check('TBL-7', 'EncodingType|%s|schema-member' % v, camel_to_snake(m) in enum_members,
                  'capnp enum has member %s' % m, 'src/%s' % f)
    for m, v in sorted(from_c.items()):
        if v is not None and to_c.get(v) != m:
            ctx.violation('TBL-7', 'EncodingType|capnp-%s|round-trip' % m,
                          'capnp %s decodes to EncodingType::%s which encodes to %s' % (m, v, to_c.get(v)),
                          'src/%s' % f)
    # column scalars: name, len, codec list, section list travel to the same constructor position
    _column_scalars(ctx, ser, de, f)
    # range union
    rs = [n for n in builder_calls(ser) if n[0] in ('set_empty', 'init_range', 'set_start', 'set_end')]
    names = [n[0] for n in rs]
    gets = getter_calls(de)
    ctx.check('TBL-7', 'range|start-end', names.count('set_start') == 1 and names.count('set_end') == 1
              and 'get_start' in gets and 'get_end' in gets,
              'range union: set_start/set_end written, get_start/get_end read', 'src/%s' % f)
    # order: (start, end) tuple positions
    ok = _range_positions(ser, de)
    ctx.check('TBL-7', 'range|positions', ok,
              'range tuple positions agree: (start, end) written from / read into the same positions',
              'src/%s' % f)


def _column_scalars(ctx, ser, de, f):
    """`Column::new(name, len, range, codec, data)` in the reader takes each argument from the getter
    of the field the writer filled from the accessor of the same name."""
    # writer: set_name(<..name()..>), set_len(<..len()..>), init_codec(<..ops()..>), init_data(<..data()..>)
    want_w = {'set_name': 'name', 'set_len': 'len', 'init_codec': 'ops', 'init_data': 'data'}
    got_w = {}
    for n in walk(ser['body']):
        if isinstance(n, dict) and n.get('k') == 'mcall' and n['method'] in want_w and n['method'] not in got_w:
            ms = [x['method'] for a in n.get('args', []) for x in walk(a) if isinstance(x, dict) and x.get('k') == 'mcall']
            got_w[n['method']] = ms
    for setter, acc in sorted(want_w.items()):
        ctx.check('TBL-7', 'Column|%s|written-from-%s' % (setter, acc), acc in got_w.get(setter, []),
                  'writer: %s(..) takes the column\'s %s() (accessors in the argument: %s)'
                  % (setter, acc, got_w.get(setter)), 'src/%s' % f)
    # reader: aliases `let x = <expr with get_*>`
    alias = {}
    for n in walk(de['body']):
        if isinstance(n, dict) and n.get('k') == 'let' and n.get('init') is not None and \
                (n.get('pat') or {}).get('k') == 'p_ident':
            gs = getter_calls(n['init'])
            if gs:
                alias.setdefault(n['pat']['name'], gs[0])
    cons = [c for c in find(de, 'call') if (c.get('func') or {}).get('path', '').endswith('Column::new')]
    ctx.check('TBL-7', 'Column|constructor-found', len(cons) == 1,
              'the reader builds each column with one Column::new call (%d)' % len(cons), 'src/%s' % f)
    if len(cons) != 1:
        return
    want_r = ['get_name', 'get_len', 'get_range', 'get_codec', 'get_data']
    args = cons[0].get('args', [])
    for i, g in enumerate(want_r):
        src = None
        if i < len(args):
            gs = getter_calls(args[i])
            src = gs[0] if gs else next((alias[x] for x in idents_in(args[i]) if x in alias), None)
        ctx.check('TBL-7', 'Column|arg%d|read-from-%s' % (i, g), src == g,
                  'reader: argument %d of Column::new comes from %s (expected %s)' % (i, src, g),
                  'src/%s:%d' % (f, cons[0]['l']))


def _range_positions(ser, de):
    # serialiser: `Some((start, end)) => { range.set_start(start); range.set_end(end); }`
    s_ok = False
    for m in find(ser, 'match'):
        for arm in m['arms']:
            tp = [n for n in walk(arm['pat']) if n.get('k') == 'p_tuple']
            if not tp or len(tp[0]['elems']) != 2:
                continue
            names = [e.get('name') for e in tp[0]['elems']]
            calls = {meth: idents_in(node) for meth, node in builder_calls(arm['body'])}
            if 'set_start' in calls and 'set_end' in calls:
                s_ok = names[0] in calls['set_start'] and names[1] in calls['set_end']
    d_ok = False
    for m in find(de, 'match'):
        for arm in m['arms']:
            # the member may sit inside `Ok(..)` when `which()` is matched without `?`
            if 'Range' not in ' '.join(top_pat_variants(arm['pat'])) and \
                    not any('Range' in str(n.get('path', '')) for n in walk(arm['pat'])):
                continue
            alias = {}
            for n in walk(arm['body']):
                if n.get('k') == 'let' and n.get('init') is not None and n['pat'].get('k') == 'p_ident':
                    gs = getter_calls(n['init'])
                    if gs:
                        alias[n['pat']['name']] = gs[0]
            for t in find(arm['body'], 'tuple'):
                if len(t['elems']) == 2:
                    a = [alias.get(e.get('path', ''), (getter_calls(e) or [None])[0]) for e in t['elems']]
                    if a == ['get_start', 'get_end']:
                        d_ok = True
    return s_ok and d_ok


# ---------------------------------------------------------------------------- TBL-8
def tbl8_event_buffer_codec(ctx):
    ctx.rule('TBL-8', 'log segment / ingestion message codec: ColumnData and AnyVal variants map to '
                      'the same capnp members in both directions', floor=11)
    ast = ctx.ast
    f = 'locustdb-serialization/src/event_buffer.rs'
    ser = ast.fn_closure('EventBuffer::serialize_builder', f)
    de = ast.fn_closure('EventBuffer::deserialize_reader', f)
    schema = capnp_schema(ctx.repo, 'wal_segment.capnp')
    conv = {k: {camel_to_snake(x[0].upper() + x[1:]) for x in v} for k, v in schema.items()}
    data_members = set()
    for k, v in conv.items():
        if k.endswith('.data') or k.endswith('.union') or k.endswith('.value'):
            data_members |= v
    compare_codec(ctx, 'TBL-8', 'ColumnData', ser, de, 'ColumnData', f, schema_members=data_members)
    compare_codec(ctx, 'TBL-8', 'AnyVal', ser, de, 'AnyVal', f, schema_members=data_members)
    # sparse columns: (index, value) order
    for fn_node, kind in ((ser, 'ser'), (de, 'de')):
        pass
    zips = [n for n in find(de, 'mcall') if n['method'] == 'zip']
    okz = True
    nz = 0
    for z in zips:
        recv = idents_in(z['recv'])
        args = set()
        for a in z['args']:
            args |= idents_in(a)
        if 'indices' in recv | args or 'values' in recv | args:
            nz += 1
            okz = okz and ('indices' in recv and 'values' in args)
    ctx.check('TBL-8', 'sparse|index-value-order', nz >= 2 and okz,
              'sparse columns are rebuilt as indices.zip(values) (%d sites)' % nz, f)


# ---------------------------------------------------------------------------- TBL-9
def tbl9_catalogue_codec(ctx):
    ctx.rule('TBL-9', 'catalogue codec: every scalar field is written by set_x from the field that '
                      'get_x initialises', floor=7)
    ast = ctx.ast
    f = 'disk_store/meta_store.rs'
    ser = ast.fn_closure('MetaStore::serialize', f)
    de = ast.fn_closure('MetaStore::deserialize', f)
    # serialiser: set_x(expr mentioning field y)
    smap = {}
    for meth, node in builder_calls(ser):
        if not meth.startswith('set_'):
            continue
        flds = [n['member'] for a in node.get('args', []) for n in walk(a) if n.get('k') == 'field']
        if flds:
            smap[meth[4:]] = flds[-1]
    # deserialiser: `let y = partition.get_x()...;` then struct literals use y
    alias = {}
    for n in walk(de):
        if n.get('k') == 'let' and n.get('init') is not None and n['pat'].get('k') == 'p_ident':
            gs = getter_calls(n['init'])
            if gs:
                alias[n['pat']['name']] = gs[0][4:]
    dmap = {}
    for sl in find(de, 'struct_lit'):
        for fl in sl['fields']:
            ids = idents_in(fl['value'])
            src = None
            gs = getter_calls(fl['value'])
            if gs:
                src = gs[0][4:]
            for i in ids:
                if i in alias:
                    src = alias[i]
            if src:
                dmap.setdefault(src, set()).add(fl['name'])
    expect = {'id': 'id', 'tablename': 'tablename', 'offset': 'offset', 'len': 'len',
              'size_bytes': 'size_bytes', 'subpartition_key': 'subpartition_key'}
    for member, field in sorted(smap.items()):
        if member == 'next_wal_id':
            # cursor: written from earliest_unflushed_wal_id, read into both cursor fields (FLW-4)
            ctx.check('TBL-9', 'MetaStore|next_wal_id', field == 'earliest_unflushed_wal_id' and
                      {'next_wal_id', 'earliest_unflushed_wal_id'} <= dmap.get('next_wal_id', set()),
                      'cursor member written from %s, read into %s' % (field, sorted(dmap.get(member, []))),
                      'src/' + f)
            continue
        got = dmap.get(member, set())
        if member == 'last_column':
            # read through `explicit_last_column` override
            ctx.check('TBL-9', 'MetaStore|last_column', 'get_last_column' in getter_calls(de),
                      'last_column is written and read back', 'src/' + f)
            continue
        ctx.check('TBL-9', 'MetaStore|%s' % member, field in got,
                  'member %s: written from field %s, read into %s' % (member, field, sorted(got)),
                  'src/' + f)
    ctx.require(len(smap) >= 7, 'TBL-9: fewer than 7 set_* calls in MetaStore::serialize')


# ---------------------------------------------------------------------------- TBL-10 / TBL-11
def tbl10_response_codec(ctx):
    ctx.rule('TBL-10', 'query response codec: every Column variant is written to union members the '
                       'reader maps back to the same variant; AnyVal likewise', floor=8)
    ast = ctx.ast
    f = 'locustdb-serialization/src/api.rs'
    ser = ast.fn_closure('Column::serialize_builder', f)
    de = ast.fn_closure('Column::deserialize_reader', f)
    schema = capnp_schema(ctx.repo, 'api.capnp')
    conv = set()
    for k, v in schema.items():
        conv |= {camel_to_snake(x[0].upper() + x[1:]) for x in v}
    # serialiser: variant -> set of members (one per compression layout)
    arms, wild = arms_over_enum(ser, 'Column')
    dt = deser_table(de, 'Column')
    for v, arm in arms:
        calls = [m for (m, n) in builder_calls(arm['body'], shallow=True)]
        members = set()
        for m in calls:
            mm = re.sub(r'^(set|init)_', '', m)
            if mm in dt or mm in conv:
                if mm in dt or m.startswith('init_') or len(calls) == 1:
                    members.add(mm)
        members = {m for m in members if m in dt or m in conv}
        top = {m for m in members if m in dt}
        bad = {m: dt[m]['variant'] for m in top if dt[m]['variant'] != v}
        ctx.check('TBL-10', 'Column|%s|round-trip' % v, bool(top) and not bad,
                  'Column::%s is written as %s; reader maps them to %s'
                  % (v, sorted(top), sorted({dt[m]['variant'] for m in top})), '%s:%d' % (f, arm['l']))
    written = set()
    for v, arm in arms:
        written |= {re.sub(r'^(set|init)_', '', m) for (m, n) in builder_calls(arm['body'], shallow=True)}
    for mem, d in sorted(dt.items()):
        if mem not in written:
            ctx.violation('TBL-10', 'Column|member-%s|never-written' % mem,
                          'reader accepts member `%s` that the writer never produces' % mem,
                          '%s:%d' % (f, d['l']))
    for arm in wild:
        ctx.violation('TBL-10', 'Column|serialiser-wildcard', 'wildcard arm in Column serialiser',
                      '%s:%d' % (f, arm['l']))
    compare_codec(ctx, 'TBL-10', 'AnyVal', ser, de, 'AnyVal', f, schema_members=conv)


def tbl11_json_renderers(ctx):
    ctx.rule('TBL-11', 'the JSON renderers map the value variants identically; type-signature bits '
                       'are distinct powers of two', floor=5)
    ast = ctx.ast
    f = 'src/server/mod.rs'
    tables = {}
    for qual in ('query', 'query_output_to_json_cols'):
        fn = ast.fn(qual, f)
        arms, wild = arms_over_enum(fn, 'Value')
        if not arms:
            arms, wild = arms_over_enum(fn, 'RawVal')
        t = {}
        for v, arm in arms:
            # rendering role: json!(null) / json!(x) / json!(x.0)
            txt = ''
            for n in walk(arm['body']):
                if n.get('k') == 'macro' and last_seg(n.get('path')) == 'json':
                    a = n.get('args') or []
                    if a:
                        a0 = a[0]
                        if a0.get('k') == 'path' and a0['path'] == 'null':
                            txt = 'null'
                        elif a0.get('k') == 'field':
                            txt = 'inner.' + a0['member']
                        else:
                            txt = 'value'
                    elif 'null' in (n.get('tokens') or ''):
                        txt = 'null'
            t[v] = txt
        tables[qual] = t
    a, b = tables['query'], tables['query_output_to_json_cols']
    ctx.require(len(a) >= 4, 'TBL-11: JSON row renderer does not enumerate the 4 value variants: %s' % a)
    for v in sorted(set(a) | set(b)):
        if v in a and v in b:
            ctx.check('TBL-11', 'json|%s' % v, a[v] == b[v],
                      'variant %s rendered as %r (rows) / %r (columns)' % (v, a[v], b[v]), f)
        else:
            ctx.ok('TBL-11', 'json|%s|rows-only' % v, 'variant %s only occurs in one renderer (%s)' %
                   (v, 'rows' if v in a else 'columns'), f)
    # encode_column: signature bits and the variants each accepted signature handles
    fn = ast.fn('encode_column', f)
    bits = {}
    sigvars = set()
    for m in find(fn, 'match'):
        local = {}
        for arm in m['arms']:
            vs = [v.split('::')[-1] for v in top_pat_variants(arm['pat'])]
            for n in walk(arm['body']):
                if n.get('k') == 'binary' and n.get('op') == '|=' and \
                        astlib.int_value(n['rhs'], ast, f) is not None:
                    for v in vs:
                        local[v] = astlib.int_value(n['rhs'], ast, f)
                    sigvars |= idents_in(n['lhs'])
        if len(local) >= 2:
            bits = local
            break
    ctx.require(len(bits) >= 4, 'TBL-11: type-signature bit assignments not found in encode_column')
    vals = list(bits.values())
    ctx.check('TBL-11', 'encode_column|signature-bits-distinct',
              len(set(vals)) == len(vals) and all(v > 0 and v & (v - 1) == 0 for v in vals),
              'type-signature bits are pairwise distinct powers of two: %s' % bits, f)
    n_br = 0
    for iff in find(fn, 'if'):
        consts = []
        for n in walk(iff['cond']):
            if n.get('k') == 'binary' and n.get('op') == '==' and \
                    astlib.int_value(n['rhs'], ast, f) is not None and (sigvars & idents_in(n['lhs'])):
                consts.append(astlib.int_value(n['rhs'], ast, f))
        if not consts:
            continue
        handled = set()
        has_match = False
        for m in find(iff['then'], 'match'):
            arms, _w = arms_over_enum(m, 'Value')
            if not arms:
                continue
            has_match = True
            for v, arm in arms:
                if not astlib.arm_rejects(arm['body']):
                    handled.add(v)
        if not has_match:
            continue
        n_br += 1
        need = set()
        for c in consts:
            need |= {v for v, b in bits.items() if b & c}
        extra = 0
        for c in consts:
            for v, b in bits.items():
                extra |= b if v in handled else 0
        ctx.check('TBL-11', 'encode_column|signature-%s' % '-'.join(map(str, consts)),
                  need <= handled,
                  'branch for signature(s) %s must handle %s; non-panicking arms: %s'
                  % (consts, sorted(need), sorted(handled)), '%s:%d' % (f, iff['l']))
    ctx.require(n_br >= 3, 'TBL-11: fewer than 3 signature branches with a value match')


# ---------------------------------------------------------------------------- TBL-12
def _int_of(n):
    if n.get('k') == 'lit' and 'int' in n:
        return int(n['int'], 0) if not n['int'].isdigit() else int(n['int'])
    return None


def tbl12_xor_stream_fields(ctx):
    ctx.rule('TBL-12', 'XOR float stream: encoder, verbose encoder and decoder agree on field widths, '
                       'on the leading-zero cap implied by its field width and on the -1/+1 bias of '
                       'the significant-bits field', floor=6)
    ast = ctx.ast
    f = 'locustdb-compression-utils/src/xor_float/double.rs'

    def writes(fn):
        out = []
        for m in find(fn, 'mcall'):
            if m['method'] == 'write_int' and len(m['args']) == 2:
                out.append((m['args'][0], _int_of(m['args'][1]), m['l']))
        out.sort(key=lambda x: x[2])
        return out

    def reads(fn):
        out = []
        for m in find(fn, 'mcall'):
            if m['method'] == 'read_int' and len(m['args']) == 1:
                out.append((_int_of(m['args'][0]), m['l'], m))
        out.sort(key=lambda x: x[1])
        return out
    enc = ast.fn('encode', f)
    venc = ast.fn('verbose_encode', f)
    dec = ast.fn('decode', f)
    we, wv, rd = writes(enc), writes(venc), reads(dec)
    ctx.require(len(we) >= 6 and len(rd) >= 5, 'TBL-12: write_int/read_int calls not found')
    lit_w = lambda ws: [w for (_a, w, _l) in ws if w is not None]
    # compared as *sets* of (literal value or None, width): a fast path that emits an existing
    # code from a second site is not a format change
    codes = lambda ws: sorted({(_int_of(a), w) for (a, w, _l) in ws if w is not None},
                              key=lambda x: (x[1], -1 if x[0] is None else x[0]))
    ctx.check('TBL-12', 'encode-vs-verbose_encode|field-widths', codes(we) == codes(wv),
              'encode writes the fields (value, width) %s, verbose_encode %s' % (codes(we), codes(wv)), f)
    # header: two 64-bit words on both sides
    ctx.check('TBL-12', 'header|widths', lit_w(we)[:2] == [64, 64] and [r[0] for r in rd][:2] == [64, 64],
              'length and first value are 64-bit fields on both sides', f)
    # control prefix code (little endian, first bit read = least significant): 0 = repeat,
    # 01 = reuse window, 11 = new window; the decoder reads one bit, then one more
    enc_small = [c for c in codes(we) if c[1] <= 2]
    dec_small = sorted({r[0] for r in rd[2:] if r[0] is not None and r[0] <= 2})
    ctx.check('TBL-12', 'control-bits', enc_small == [(0, 1), (1, 2), (3, 2)] and dec_small == [1],
              'encoder control codes (value, width) %s, decoder control reads of width %s'
              % (enc_small, dec_small), f)
    enc_big = sorted({w for w in lit_w(we)[2:] if w > 2})
    dec_big = sorted({r[0] for r in rd[2:] if r[0] is not None and r[0] > 2})
    ctx.check('TBL-12', 'window-fields|widths', enc_big == dec_big and len(enc_big) == 2,
              'window description fields: encoder %s, decoder %s' % (enc_big, dec_big), f)
    # leading-zero cap: the cap is the largest value that fits the (smaller) window field
    caps = [_int_of(m['args'][0]) for m in find(enc, 'mcall') if m['method'] == 'min' and m['args']
            and any(x.get('method') == 'leading_zeros' for x in walk(m['recv']))]
    lz_w = min(enc_big) if enc_big else None
    ctx.check('TBL-12', 'leading-zero-cap', lz_w is not None and caps == [(1 << lz_w) - 1],
              'leading zeros are capped at %s and stored in %s bits (cap must be 2^bits - 1)' % (caps, lz_w), f)
    # significant bits bias
    sb_minus = any(a.get('k') == 'binary' and a['op'] == '-' and _int_of(a['rhs']) == 1 and w == max(enc_big or [0])
                   for (a, w, l) in we)
    sb_plus = False
    for n in find(dec, 'binary'):
        if n['op'] == '+' and _int_of(n['rhs']) == 1 and any(x.get('method') == 'read_int' for x in walk(n['lhs'])):
            sb_plus = True
    ctx.check('TBL-12', 'significant-bits-bias', sb_minus and sb_plus,
              'encoder stores significant_bits - 1, decoder adds 1 (encoder: %s, decoder: %s)' % (sb_minus, sb_plus), f)
    # variable-width payload: encoder writes `significant_bits` bits, decoder reads last_significant_bits
    var_w = [a for (a, w, l) in we if w is None]
    var_r = [r for r in rd if r[0] is None]
    ctx.check('TBL-12', 'payload|variable-width', len(var_w) >= 2 and len(var_r) >= 1,
              'payload written with the window width (%d sites), read with the window width (%d sites)'
              % (len(var_w), len(var_r)), f)


# ---------------------------------------------------------------------------- TBL-13
class _Undecided(Exception):
    pass


_ORD = {'Ordering::Less': -1, 'Ordering::Equal': 0, 'Ordering::Greater': 1,
        'Less': -1, 'Equal': 0, 'Greater': 1}


def _cmp_eval(node, env, opaque):
    """Evaluate a comparator body on representative values.  The bodies only *compare* their
    arguments, so the three relations l<r, l=r, l>r (times the Some/None states for Option keys)
    are a finite, complete set of inputs: no LocustDB code runs, the syntax tree is interpreted.
    env: ident -> python value (ints; Option as None / ('S', v)).  opaque: value standing for a
    call of a sibling `ordering` on the same arguments (or None)."""
    k = node.get('k')
    if k == 'block':
        st = node.get('stmts', [])
        if len(st) != 1:
            raise _Undecided('block with %d statements' % len(st))
        return _cmp_eval(st[0], env, opaque)
    if k == 'paren':
        return _cmp_eval(node['expr'], env, opaque)
    if k == 'lit' and 'bool' in node:
        return node['bool'] == 'true'
    if k == 'ref':
        return _cmp_eval(node['expr'], env, opaque)
    if k == 'unary' and node.get('op') in ('*', '&'):
        return _cmp_eval(node['expr'], env, opaque)
    if k == 'unary' and node.get('op') == '!':
        return not _cmp_eval(node['expr'], env, opaque)
    if k == 'path':
        p = node['path']
        if p in env:
            return env[p]
        if p in _ORD:
            return ('ord', _ORD[p])
        raise _Undecided('path %s' % p)
    if k == 'binary':
        a = _key(_cmp_eval(node['lhs'], env, opaque))
        b = _key(_cmp_eval(node['rhs'], env, opaque))
        op = node['op']
        return {'<': a < b, '<=': a <= b, '>': a > b, '>=': a >= b, '==': a == b, '!=': a != b}[op] \
            if op in ('<', '<=', '>', '>=', '==', '!=') else _undecided('operator ' + op)
    if k == 'mcall':
        m = node['method']
        if m == 'cmp' and len(node['args']) == 1:
            a = _key(_cmp_eval(node['recv'], env, opaque))
            b = _key(_cmp_eval(node['args'][0], env, opaque))
            return ('ord', (a > b) - (a < b))
        if m == 'reverse' and not node['args']:
            v = _cmp_eval(node['recv'], env, opaque)
            if isinstance(v, tuple) and v[0] == 'ord':
                return ('ord', -v[1])
        raise _Undecided('method ' + m)
    if k == 'call':
        f = (node.get('func') or {}).get('path', '')
        if f.endswith('::ordering') and opaque is not None and \
                [a.get('path') for a in node['args']] == ['left', 'right']:
            return ('ord', opaque)
        raise _Undecided('call ' + f)
    if k == 'match':
        v = _cmp_eval(node['scrutinee'], env, opaque)
        for arm in node['arms']:
            if arm.get('guard'):
                raise _Undecided('match guard')
            b = _pat_match(arm['pat'], v)
            if b is not None:
                e2 = dict(env)
                e2.update(b)
                return _cmp_eval(arm['body'], e2, opaque)
        raise _Undecided('no arm matches')
    if k == 'tuple':
        return ('tup', [_cmp_eval(e, env, opaque) for e in node['elems']])
    if k == 'if' and not node.get('let'):
        c = _cmp_eval(node['cond'], env, opaque)
        return _cmp_eval(node['then'] if c else node['else'], env, opaque)
    raise _Undecided('node kind %s' % k)


def _undecided(what):
    raise _Undecided(what)


def _key(v):
    """Total order used by derived Ord: None < Some(x)."""
    if v is None:
        return (0, 0)
    if isinstance(v, tuple) and v and v[0] == 'S':
        return (1, v[1])
    if isinstance(v, (int, float)):
        return (1, v)
    raise _Undecided('not an ordered value: %r' % (v,))


def _pat_match(p, v):
    k = p.get('k')
    if k == 'p_wild':
        return {}
    if k == 'p_ident':
        if p['name'] == 'None':
            return {} if v is None else None
        return {p['name']: v}
    if k == 'p_path':
        if p['path'] in _ORD:
            return {} if v == ('ord', _ORD[p['path']]) else None
        if p['path'] == 'None':
            return {} if v is None else None
        raise _Undecided('pattern path ' + p['path'])
    if k == 'p_tuple_struct' and p['path'] in ('Some', 'Option::Some'):
        if isinstance(v, tuple) and v and v[0] == 'S':
            return _pat_match(p['elems'][0], v[1])
        return None
    if k == 'p_tuple':
        if not (isinstance(v, tuple) and v[0] == 'tup' and len(v[1]) == len(p['elems'])):
            raise _Undecided('tuple pattern on non-tuple')
        out = {}
        for pe, ve in zip(p['elems'], v[1]):
            b = _pat_match(pe, ve)
            if b is None:
                return None
            out.update(b)
        return out
    if k == 'p_or':
        for alt in p.get('cases', p.get('elems', [])):
            b = _pat_match(alt, v)
            if b is not None:
                return b
        return None
    raise _Undecided('pattern kind %s' % k)


def tbl13_comparators(ctx):
    ctx.rule('TBL-13', 'sort comparators: for every key type `cmp`, `cmp_eq`, `ordering` and '
                       '`is_less_than` of one Comparator impl describe the same total order '
                       '(ordering = Less <=> cmp; cmp_eq <=> ordering != Greater; ascending impls '
                       'order by <, descending by >), checked on all orderings of two keys', floor=17)
    ast = ctx.ast
    f = 'src/engine/operators/comparator.rs'
    impls = {}
    for (p, q, n) in ast.fns:
        if p.endswith(f) and '<Cmp' in q and ' as Comparator<' in q.replace('as', ' as ').replace('  ', ' ') \
                or (p.endswith(f) and q.startswith('<Cmp') and 'Comparator<' in q):
            impl, name = q.rsplit('::', 1)
            impls.setdefault(impl, {})[name] = n
    ctx.require(len(impls) >= 17, 'TBL-13: fewer than 17 Comparator impls found (%d)' % len(impls))
    decided = 0
    for impl in sorted(impls):
        fns = impls[impl]
        if not {'cmp', 'cmp_eq', 'ordering', 'is_less_than'} <= set(fns):
            ctx.violation('TBL-13', '%s|complete' % impl, 'impl lacks one of cmp/cmp_eq/ordering/'
                          'is_less_than: %s' % sorted(fns), f)
            continue
        asc = impl.startswith('<CmpLessThan')
        is_opt = 'Comparator<Option<' in impl
        is_val = 'Comparator<Val<' in impl
        where_ = '%s:%d' % (f, fns['ordering']['l'])
        try:
            ilt = _cmp_eval(fns['is_less_than']['body'], {}, None)
            problems = []
            if ilt != asc:
                problems.append('is_less_than() = %s in %s' % (ilt, impl.split(' ')[0].strip('<')))
            if is_val:
                # `ordering` ranks the value kinds (a table over Val variants, not decided here);
                # cmp / cmp_eq must be its Less / not-Greater projections
                for o in (-1, 0, 1):
                    c = _cmp_eval(fns['cmp']['body'], {}, o)
                    ce = _cmp_eval(fns['cmp_eq']['body'], {}, o)
                    if c != (o == -1):
                        problems.append('cmp = %s when ordering = %d' % (c, o))
                    if ce != (o != 1):
                        problems.append('cmp_eq = %s when ordering = %d' % (ce, o))
            else:
                scen = []
                for (l, r) in ((1, 2), (2, 2), (2, 1)):
                    scen.append(((('S', l), ('S', r)) if is_opt else (l, r), 'l%sr' % '<=>'[(l > r) - (l < r) + 1]))
                if is_opt:
                    scen += [((('S', 1), None), 'Some/None'), ((None, ('S', 1)), 'None/Some'),
                             ((None, None), 'None/None')]
                for (lv, rv), label in scen:
                    env = {'left': lv, 'right': rv}
                    c = _cmp_eval(fns['cmp']['body'], env, None)
                    ce = _cmp_eval(fns['cmp_eq']['body'], env, None)
                    o = _cmp_eval(fns['ordering']['body'], env, None)
                    if not (isinstance(o, tuple) and o[0] == 'ord'):
                        raise _Undecided('ordering does not evaluate to an Ordering')
                    o = o[1]
                    if c != (o == -1):
                        problems.append('%s: cmp = %s but ordering = %s' % (label, c, {-1: 'Less', 0: 'Equal', 1: 'Greater'}[o]))
                    if ce != (o != 1):
                        problems.append('%s: cmp_eq = %s but ordering = %s' % (label, ce, {-1: 'Less', 0: 'Equal', 1: 'Greater'}[o]))
                    if label in ('l<r', 'l>r'):
                        want = (label == 'l<r') == asc
                        if c != want:
                            problems.append('%s: cmp = %s in an %s comparator' % (label, c, 'ascending' if asc else 'descending'))
                    # NULL placement (C05): after every value ascending, first descending. Decided
                    # for the string key type the planner produces for nullable strings (OptStr);
                    # Option<OrderedFloat> has no operator instantiation on this tree.
                    if label == 'Some/None' and 'str' in impl:
                        want_o = -1 if asc else 1
                        if o != want_o:
                            problems.append('Some/None: ordering = %s, NULL must sort %s'
                                            % ({-1: 'Less', 0: 'Equal', 1: 'Greater'}[o],
                                               'after every value' if asc else 'first when descending'))
            decided += 1
            ctx.check('TBL-13', '%s|consistent' % impl, not problems,
                      'cmp / cmp_eq / ordering / is_less_than agree on every ordering of two keys'
                      if not problems else '; '.join(problems), where_)
        except _Undecided as e:
            ctx.note('TBL-13: %s not decided (%s)' % (impl, e))
    ctx.require(decided >= 17, 'TBL-13: only %d comparator impls could be decided' % decided)


# ---------------------------------------------------------------------------- TBL-14
_AGG_FAMILY = {'SumI64': 'sum', 'SumF64': 'sum', 'Count': 'sum', 'MaxI64': 'max', 'MaxF64': 'max',
               'MinI64': 'min', 'MinF64': 'min'}


def _combining_ops(node):
    """Operators that combine the two partial aggregates in an arm body: '+', checked_add, max,
    min (std::cmp::max / .max(..))."""
    ops = set()
    for n in walk(node):
        if not isinstance(n, dict):
            continue
        if n.get('k') == 'binary' and n.get('op') in ('+', '-', '*'):
            ops.add({'+': 'sum', '-': 'sub', '*': 'mul'}[n['op']])
        elif n.get('k') == 'mcall' and n['method'] in ('checked_add', 'wrapping_add', 'saturating_add',
                                                       'overflowing_add'):
            ops.add('sum' if n['method'] in ('checked_add', 'overflowing_add') else n['method'])
        elif n.get('k') == 'mcall' and n['method'] in ('max', 'min'):
            ops.add(n['method'])
        elif n.get('k') == 'call':
            f = last_seg((n.get('func') or {}).get('path', '') or '')
            if f in ('max', 'min'):
                ops.add(f)
    return ops


def tbl14_aggregate_merge_table(ctx):
    ctx.rule('TBL-14', 'partial aggregates of two partitions are merged with the operation of their own '
                       'aggregator: SUM and COUNT add, MAX takes the maximum, MIN the minimum, a NULL '
                       'partial result yields the other side, unknown aggregators are an error; the '
                       'merge plan passes each aggregate column its own aggregator', floor=8)
    ast = ctx.ast
    f = 'src/engine/operators/merge_aggregate.rs'
    impls = [(q, n) for (p, q, n) in ast.fns if p.endswith(f) and q.endswith('::combine') and 'Combinable' in q
             and n.get('body')]
    ctx.require(len(impls) >= 2, 'TBL-14: fewer than 2 Combinable::combine impls (%d)' % len(impls))
    for q, n in sorted(impls, key=lambda x: x[0]):
        tname = 'i64' if 'fori64' in q.replace(' ', '') or '<i64' in q else ('f64' if 'f64' in q else q)
        arms, wild = arms_over_enum(n, 'Aggregator')
        ctx.require(arms, 'TBL-14: no match over Aggregator in %s' % q)
        for v, arm in sorted(arms, key=lambda x: x[0]):
            fam = _AGG_FAMILY.get(v)
            if fam is None:
                ctx.violation('TBL-14', '%s|%s|known-aggregator' % (tname, v),
                              'aggregator %s is not in the checker\'s table' % v, '%s:%d' % (f, arm['l']))
                continue
            if astlib.arm_rejects(arm['body']):
                continue
            ops = _combining_ops(arm['body'])
            ctx.check('TBL-14', '%s|%s|merge-op' % (tname, v), ops == {fam},
                      'partial %s results are merged with %s (expected %s)' % (v, sorted(ops) or 'nothing', fam),
                      '%s:%d' % (f, arm['l']))
            # NULL coalescing: the arm (or the helper it calls) compares with the NULL sentinel
            txt = json_text(arm['body'])
            nullaware = 'I64_NULL' in txt or 'F64_NULL' in txt or 'null_coalesce' in txt
            if v == 'Count':
                continue    # a count is never NULL: groups missing on one side are not merged at all
            ctx.check('TBL-14', '%s|%s|null-partial-yields-other-side' % (tname, v), nullaware,
                      'a NULL partial result (group absent on one side / all inputs NULL) does not enter '
                      'the arithmetic', '%s:%d' % (f, arm['l']))
        for arm in wild:
            ctx.check('TBL-14', '%s|other-aggregators-are-errors' % tname,
                      any((x.get('k') == 'macro' and x.get('path') in ('fatal', 'bail', 'panic', 'unreachable'))
                          or (x.get('k') == 'call' and last_seg((x.get('func') or {}).get('path', '') or '') == 'Err')
                          for x in walk(arm['body']) if isinstance(x, dict)),
                      'the wildcard arm reports an error', '%s:%d' % (f, arm['l']))
    # the helper null_coalesce returns b when a is NULL, a when b is NULL, else the combined value
    n_helpers = 0
    for (p, q, n) in ast.fns:
        if p.endswith(f) and q.endswith('null_coalesce') and n.get('body'):
            n_helpers += 1
            params = [x['name'] for x in n.get('params', [])]
            ifs = [x for x in walk(n['body']) if isinstance(x, dict) and x.get('k') == 'if']
            ok = False
            if len(params) == 3 and ifs:
                top = ifs[0]

                def ret_ident(b):
                    ids = [y.get('path') for y in walk(b) if isinstance(y, dict) and y.get('k') == 'path'
                           and y.get('path') in params]
                    return ids[0] if len(ids) == 1 else None
                c1 = idents_in(top['cond'])
                r1 = ret_ident(top['then'])
                els = top.get('else') or {}
                inner = [y for y in walk(els) if isinstance(y, dict) and y.get('k') == 'if']
                if inner:
                    c2 = idents_in(inner[0]['cond'])
                    r2 = ret_ident(inner[0]['then'])
                    r3 = ret_ident(inner[0].get('else') or {})
                    ok = (params[0] in c1 and r1 == params[1] and params[1] in c2 and r2 == params[0]
                          and r3 == params[2])
            ctx.check('TBL-14', '%s|null_coalesce|shape' % ('i64' if 'i64' in q else 'f64' if 'f64' in q else q),
                      ok, 'null_coalesce(a, b, combined): a NULL -> b, b NULL -> a, else combined',
                      '%s:%d' % (f, n['l']))
    ctx.require(n_helpers >= 1, 'TBL-14: null_coalesce helper not found')
    # plumbing: batch_merging::combine hands merge_aggregate the aggregator of the same tuple as the
    # column index it merges
    comb = ast.fn('combine', 'engine/execution/batch_merging.rs')
    ok = False
    site = comb['l']
    for lp in [x for x in walk(comb['body']) if isinstance(x, dict) and x.get('k') == 'for']:
        calls = [m for m in find(lp['body'], 'mcall') if m['method'] == 'merge_aggregate']
        if not calls:
            continue
        site = calls[0]['l']
        binders = [y.get('name') for y in walk(lp['pat']) if isinstance(y, dict) and y.get('k') == 'p_ident']
        a = calls[0]['args']
        if len(a) == 4 and a[3].get('k') == 'path' and a[3]['path'] in binders:
            # the aggregator binder and the left index binder come from the same tuple pattern
            tuples = [y for y in walk(lp['pat']) if isinstance(y, dict) and y.get('k') == 'p_tuple']
            same = any(a[3]['path'] in [e.get('name') for e in walk(t) if isinstance(e, dict)]
                       and any(e.get('name') not in (None, a[3]['path']) for e in walk(t) if isinstance(e, dict) and e.get('k') == 'p_ident')
                       for t in tuples if len(t['elems']) == 2 and all(e.get('k') in ('p_ident', 'p_wild') for e in t['elems']))
            zipped = any(m['method'] == 'zip' for m in find(lp['iter'], 'mcall')) and \
                'aggregations' in json_text(lp['iter'])
            ok = same and zipped
    ctx.check('TBL-14', 'batch_merging::combine|aggregator-of-its-own-column', ok,
              'merge_aggregate receives the aggregator bound in the same (index, aggregator) tuple of '
              'batch.aggregations as the column it merges', 'src/engine/execution/batch_merging.rs:%d' % site)


def json_text(node):
    import json as _json
    return _json.dumps(node)


# ---------------------------------------------------------------------------- TBL-15
_AGG_KIND = {'SumI64': 'sum', 'SumF64': 'sum', 'Count': 'count', 'MaxI64': 'max', 'MaxF64': 'max',
             'MinI64': 'min', 'MinF64': 'min'}
_SQL_AGG = {'COUNT': ['Count'], 'SUM': ['SumI64'], 'MAX': ['MaxI64'], 'MIN': ['MinI64'],
            'AVG': ['Count', 'SumI64']}


def tbl15_aggregator_plumbing(ctx):
    ctx.rule('TBL-15', 'an aggregate keeps its kind from the SQL text to the operator: the parser maps '
                       'COUNT/SUM/MIN/MAX (AVG = SUM / COUNT) to the aggregator of that name, and the '
                       'planner hands every arm an aggregator of the same family (the I64 -> F64 '
                       're-mapping keeps Max as Max and Min as Min)', floor=9)
    ast = ctx.ast
    # parser: string arm -> Aggregator paths in the arm
    pf = 'src/syntax/parser.rs'
    seen = {}
    for (p, q, n) in ast.fns:
        if not p.endswith(pf) or not n.get('body'):
            continue
        for m in find(n, 'match'):
            for arm in m['arms']:
                lits = [str(x.get('value')).strip('"') for x in walk(arm['pat'])
                        if isinstance(x, dict) and x.get('k') == 'p_lit' and x.get('value') is not None]
                for lit in lits:
                    if lit in _SQL_AGG:
                        aggs = sorted({last_seg(x['path']) for x in walk(arm['body']) if isinstance(x, dict)
                                       and x.get('k') == 'path' and x.get('path', '').startswith('Aggregator::')})
                        seen[lit] = (aggs, arm['l'])
    for name, want in sorted(_SQL_AGG.items()):
        got, line = seen.get(name, (None, 0))
        ctx.check('TBL-15', 'parser|%s' % name, got == sorted(want),
                  'SQL %s(..) builds %s (expected %s)' % (name, got, sorted(want)), '%s:%d' % (pf, line))
    if 'AVG' in seen:
        # AVG divides the sum by the count (not the reverse)
        ok = False
        for (p, q, n) in ast.fns:
            if not p.endswith(pf) or not n.get('body'):
                continue
            for c in find(n, 'call'):
                if (c.get('func') or {}).get('path', '').endswith('Expr::Func2') and len(c.get('args', [])) == 3 \
                        and (c['args'][0].get('path') or '').endswith('Divide'):
                    t1, t2 = json_text(c['args'][1]), json_text(c['args'][2])
                    if 'Aggregator::SumI64' in t1 and 'Aggregator::Count' in t2 and \
                            'Aggregator::Count' not in t1 and 'Aggregator::SumI64' not in t2:
                        ok = True
        ctx.check('TBL-15', 'parser|AVG|sum-over-count', ok, 'AVG(x) is SUM(x) / COUNT(x)', pf)
    # planner
    fn = ast.fn('prepare_aggregation', 'engine/planning/query_plan.rs')
    arms, wild = arms_over_enum(fn, 'Aggregator')
    top = [m for m in find(fn, 'match')][0]
    n = 0
    for arm in top['arms']:
        vs = [last_seg(v) for v in top_pat_variants(arm['pat']) if v != '_']
        if not vs or astlib.arm_rejects(arm['body']):
            continue
        fam = {_AGG_KIND.get(v) for v in vs}
        # aggregator paths handed on in this arm (outside nested re-mapping patterns)
        used = set()
        for x in walk(arm['body']):
            if isinstance(x, dict) and x.get('k') == 'path' and x.get('path', '').startswith('Aggregator::'):
                used.add(last_seg(x['path']))
        # nested re-mapping match: every arm keeps the family
        remap_ok = True
        for m2 in find(arm['body'], 'match'):
            for a2 in m2['arms']:
                pv = [last_seg(v) for v in top_pat_variants(a2['pat']) if v != '_']
                bv = [last_seg(x['path']) for x in walk(a2['body']) if isinstance(x, dict) and x.get('k') == 'path'
                      and x.get('path', '').startswith('Aggregator::')]
                for a_, b_ in zip(pv, bv):
                    if _AGG_KIND.get(a_) != _AGG_KIND.get(b_):
                        remap_ok = False
        pattern_fams = {_AGG_KIND.get(u) for u in used} - {None}
        okf = remap_ok and (pattern_fams <= fam if len(fam) > 1 else pattern_fams <= fam)
        n += 1
        ctx.check('TBL-15', 'prepare_aggregation|%s' % '+'.join(sorted(set(vs))) + ('|#%d' % n), okf,
                  'arm for %s hands on aggregators %s (families %s must stay within %s)'
                  % (sorted(set(vs)), sorted(used), sorted(pattern_fams), sorted(x for x in fam if x)),
                  'src/engine/planning/query_plan.rs:%d' % arm['l'])
    ctx.require(n >= 4, 'TBL-15: fewer than 4 non-rejecting arms in prepare_aggregation')


def tbl16_aggregator_operations(ctx):
    ctx.rule('TBL-16', 'each aggregator marker type accumulates and combines with its own operation and '
                       'starts from the neutral element of that operation', floor=7)
    ast = ctx.ast
    f = 'src/engine/operators/aggregate.rs'
    impls = {}
    for (p, q, n) in ast.fns:
        if p.endswith(f) and ' as Aggregator<' in q.replace('as', ' as ').replace('  ', ' ') or \
                (p.endswith(f) and 'Aggregator<' in q and q.startswith('<')):
            impl, name = q.rsplit('::', 1)
            m = re.match(r'^<(\w+)as(?:Checked)?Aggregator<', impl.replace(' ', ''))
            if not m or 'CheckedAggregator' in impl:
                continue
            impls.setdefault(m.group(1), {})[name] = n
    ctx.require(len(impls) >= 7, 'TBL-16: fewer than 7 Aggregator impls found (%s)' % sorted(impls))
    for marker, fns in sorted(impls.items()):
        kind = _AGG_KIND.get(marker)
        if kind is None:
            ctx.note('TBL-16: marker %s not in the table' % marker)
            continue
        acc = _combining_ops(fns['accumulate']['body']) if 'accumulate' in fns else set()
        comb = _combining_ops(fns['combine']['body']) if 'combine' in fns else set()
        unit_txt = json_text(fns['unit']['body']) if 'unit' in fns else ''
        want = {'sum': 'sum', 'count': 'sum', 'max': 'max', 'min': 'min'}[kind]
        unit_ok = {'sum': ('"int": "0"' in unit_txt or '0.0' in unit_txt) and 'MIN' not in unit_txt and 'MAX' not in unit_txt,
                   'count': '"int": "0"' in unit_txt,
                   'max': 'MIN' in unit_txt or 'NEG_INFINITY' in unit_txt,
                   'min': 'MAX' in unit_txt or 'INFINITY' in unit_txt}[kind]
        one = True
        if kind == 'count':
            one = any(isinstance(x, dict) and x.get('k') == 'lit' and x.get('int') == '1'
                      for x in walk(fns['accumulate']['body']))
        ctx.check('TBL-16', '%s|operations' % marker, acc == {want} and comb == {want} and unit_ok and one,
                  '%s: accumulate uses %s, combine uses %s (expected %s), neutral start %s%s'
                  % (marker, sorted(acc), sorted(comb), want, 'ok' if unit_ok else 'WRONG',
                     '' if one else ', COUNT does not add 1'), '%s:%d' % (f, fns['accumulate']['l'] if 'accumulate' in fns else 0))


# ---------------------------------------------------------------------------- TBL-17
def tbl17_constant_translation_is_inverse(ctx):
    ctx.rule('TBL-17', 'a WHERE constant is translated into the domain of an offset-encoded column by the '
                       'inverse of the decode op, applied once: decode adds the offset, so the constant '
                       'has the offset subtracted - no other arithmetic on the way (a rounded, shifted '
                       'or doubly adjusted constant selects the wrong rows only for some constants)',
             floor=2)
    P = ctx.P
    from mirlib.dataflow import DefUse, base_local
    from mirlib.program import norm_callee
    for name in ('encode_int', 'encode_float'):
        F = P.one('mem_store::codec::Codec::' + name)
        F.parse()
        du = DefUse(F)
        arith = []
        for bid, blk in F.blocks.items():
            if blk.cleanup:
                continue
            for s in blk.stmts:
                if s.kind == 'assign':
                    m = re.match(r'^(Add|Sub|Mul|Div|Rem|Shl|Shr|BitAnd|BitOr|BitXor)(WithOverflow|Unchecked)?\((.*), (.*)\)$', s.rhs.strip())
                    if m:
                        arith.append((m.group(1), s, m.group(3), m.group(4)))
                    elif s.rhs.strip().startswith('Neg('):
                        arith.append(('Neg', s, s.rhs, ''))
            t = blk.term
            if t is not None and t.kind == 'call':
                f = norm_callee(t.func or '')
                mm = re.search(r'(?:f64|f32|i64|i128)::(floor|ceil|round|trunc|fract|abs|wrapping_sub|wrapping_add|'
                               r'checked_sub|checked_add|saturating_sub|saturating_add|mul_add|rem_euclid|div_euclid)$', f)
                if mm:
                    arith.append((mm.group(1), t, t.args[0] if t.args else '', t.args[1] if len(t.args) > 1 else ''))
        # a saturating difference is a subtraction as well: a constant beyond the representable range
        # compares like the nearest representable one, for every comparison operator
        SUBS = ('Sub', 'wrapping_sub', 'checked_sub', 'saturating_sub')
        subs = [a for a in arith if a[0] in SUBS]
        others = [a for a in arith if a[0] not in SUBS]
        # index arithmetic of `self.ops[0]` (bounds checks) is Lt/len, not in the list above
        ok = len(subs) == 1 and not others
        detail = 'arithmetic in the body: %s' % [a[0] for a in arith]
        if ok:
            op, site, a, b = subs[0]
            xa = du.origins(base_local(a))['args'] if base_local(a) is not None else set()
            xparam = F.args[1][0] if len(F.args) > 1 else None
            yb = du.origins(base_local(b)) if base_local(b) is not None else {'stmts': [], 'args': set()}
            y_from_op = any(re.search(r'as Add\)\.1', st.rhs or '') for (_b, st) in yb['stmts']) or \
                re.search(r'as Add\)\.1', b or '') is not None
            ok = xparam in xa and y_from_op
            detail = 'constant - offset: minuend from the constant parameter (%s), subtrahend from the Add op (%s)' % (
                xparam in xa, y_from_op)
        site = (subs[0][1] if subs else (others[0][1] if others else F.blocks[0].term))
        ctx.check('TBL-17', 'Codec::%s|offset-subtracted-once' % name, ok, detail, where_(site))
        if name == 'encode_int' and subs:
            plain = subs[0][0] == 'Sub'
            ctx.check('TBL-17', 'Codec::encode_int|difference-cannot-overflow', not plain,
                      'constant - offset is %s' % ('a plain i64 subtraction: a constant near the i64 edge against a '
                                                   'large offset overflows (worker panics in debug builds, wrong '
                                                   'constant in release builds)' if plain else
                                                   'computed with %s' % subs[0][0]), where_(subs[0][1]))


def where_(x):
    from .common import where as _w
    return _w(x)


# ------------------------------------------------------------------------------------ TBL-26 / TBL-11 clause
def tbl26_reader_passes_stored_scalars_unchanged(ctx):
    """The scalar fields of a data section in a partition file (`decoded_bytes`, `bytes_per_element`,
    `is_fp32`, ...) are *facts about the stored bytes*; the reader has to hand the stored value to the
    constructor as it is (through casts only).  A reader that adjusts it - clamps it, recomputes it from
    the row count - turns a valid file into a section that decodes to different bytes (a packed string
    section holds many more bytes than the column has rows)."""
    from mirlib.astlib import find, walk
    ctx.rule('TBL-26', 'PartitionSegment::deserialize passes the stored scalar fields of a data section to its '
                       'constructor unchanged: each value is a capnp getter result, through casts only', floor=3)
    fn = ctx.ast.fn_closure('PartitionSegment::deserialize', 'disk_store/partition_segment.rs')
    lets = {}
    for st in find(fn, 'let'):
        pat = st.get('pat') or {}
        if pat.get('name') and st.get('init') is not None:
            lets[pat['name']] = st['init']
    n = 0

    def plain_getter(e, depth=0):
        """e is `x.get_y()` wrapped in casts / `?` / unwrap / parens / a local bound to such an expression."""
        if not isinstance(e, dict) or depth > 6:
            return False
        k = e.get('k')
        if k in ('cast', 'try', 'paren', 'ref', 'unary'):
            return plain_getter(e.get('expr'), depth + 1)
        if k == 'mcall':
            if e.get('method', '').startswith('get_'):
                return True
            if e.get('method') in ('unwrap', 'expect', 'into', 'clone', 'to_owned'):
                return plain_getter(e.get('recv'), depth + 1)
            return False
        if k == 'path':
            nm = e.get('path')
            return nm in lets and plain_getter(lets[nm], depth + 1)
        return False
    for sl in find(fn, 'struct_lit'):
        path = str(sl.get('path', ''))
        if 'DataSection::' not in path:
            continue
        variant = path.split('::')[-1]
        for f in sl.get('fields', []):
            if f['name'] in ('data',):
                continue          # the payload vector is rebuilt element by element (TBL-7)
            n += 1
            ok = plain_getter(f.get('value'))
            ctx.check('TBL-26', 'deserialize|%s.%s|stored-value-unchanged' % (variant, f['name']), ok,
                      'DataSection::%s { %s } receives %s' % (variant, f['name'],
                          'the stored value (getter result through casts only)' if ok else
                          'a value computed from the stored one (%s): a valid file decodes to a different section'
                          % (f['value'].get('src') or f['value'].get('method') or f['value'].get('k'))),
                      'src/disk_store/partition_segment.rs:%s' % f['value'].get('l', sl.get('l')))
    ctx.require(n >= 3, 'TBL-26: fewer than 3 scalar fields of DataSection constructors in the reader (%d)' % n)


def tbl11_signature_scan_sees_every_value(ctx):
    """TBL-11 clause: the loop in `server::encode_column` that ORs the type-signature bits of a mixed
    result column has no early exit.  The signature decides the wire representation (12 = floats with
    NULLs is sent as a float column with the reserved NaN, not as mixed), so a scan that stops as soon as
    two kinds have been seen mis-classifies a column whose third kind comes later."""
    from mirlib.astlib import find, walk
    fn = ctx.ast.fn('encode_column', 'server/mod.rs')
    loops = []
    for f in find(fn, 'for') + find(fn, 'while') + find(fn, 'loop'):
        ors = [b for b in walk(f.get('body') or {}) if isinstance(b, dict) and b.get('k') == 'binary' and b.get('op') == '|=']
        if ors:
            loops.append(f)
    ctx.require(loops, 'TBL-11: encode_column has no loop that accumulates the type signature')
    for f in loops:
        exits = [x for x in walk(f.get('body') or {}) if isinstance(x, dict) and x.get('k') in ('break', 'return')]
        ctx.check('TBL-11', 'encode_column|signature-scan-has-no-early-exit', not exits,
                  'the loop that ORs the type-signature bits %s' % ('visits every value' if not exits else
                                                                    'can stop early (break / return): a kind of value that only occurs '
                                                                    'later in the column is not part of the signature'),
                  'src/server/mod.rs:%s' % f.get('l'))
