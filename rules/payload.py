"""OPT-1: the column payload of a published partition is optional (C07, C10, C11)."""
import re

from mirlib.dataflow import DefUse, base_local
from mirlib.program import norm_callee
from . import panics

ALLOWED = {
    'mem_store::partition::Partition::new':
        'the handle was created resident (ColumnHandle::resident) in this body and the partition '
        'is not yet reachable from Table.partitions',
}


def opt1_shared_optional_payload(ctx):
    ctx.rule('OPT-1', 'an Option<Arc<Column>> read out of a ColumnHandle is never unwrapped once '
                      'the handle is reachable from a published partition', floor=2)
    P = ctx.P
    n_reads = 0
    for b in P.fn_bodies():
        if b.crate != 'locustdb':
            continue
        reads = [t for blk, t in b.calls() if not blk.cleanup and
                 norm_callee(t.func).endswith('ColumnHandle::try_get')]
        if not reads:
            continue
        du = DefUse(b)
        n_reads += len(reads)
        bad_here = False
        for ps in panics.panic_sources(b):
            if ps.kind != 'unwrap' or 'Option' not in ps.term.func or \
                    'mem_store::column::Column>' not in ps.term.func:
                continue
            org = du.origins(base_local(ps.operand))
            cs = [norm_callee(c.func) for (_b, c) in org['calls']]
            if not any(c.endswith('ColumnHandle::try_get') for c in cs):
                continue
            resident_here = any(c.endswith('ColumnHandle::resident') for c in cs)
            key = '%s|%s' % (b.name, ps.what)
            if b.name in ALLOWED and resident_here:
                ctx.exception('OPT-1', b.name, ALLOWED[b.name])
                ctx.ok('OPT-1', key, 'tabled: ' + ALLOWED[b.name], ps.where())
            else:
                bad_here = True
                ctx.violation('OPT-1', key,
                              'payload of a column handle is unwrapped; eviction (evict_cache / '
                              'memory limit) or a query adding a placeholder handle can make it '
                              'None and the panic kills the flush job, after which force_flush '
                              'never returns', ps.where())
        if not bad_here and b.name not in ALLOWED:
            for t in reads:
                ctx.ok('OPT-1', '%s|try_get-consumed-as-option' % b.name,
                       'payload read is consumed without unwrap', t.span.short() if t.span else None)
    ctx.require(n_reads >= 2, 'OPT-1: ColumnHandle::try_get has fewer than 2 readers (anchor)')


# ------------------------------------------------------------------------------------ FLW-7
def flw7_catalogue_lookups_on_query_path(ctx):
    """A query may hold a partition the on-disk catalogue does not (yet / any longer) contain:
    between Table::batch (partition published, LRU keys published) and persist_partitions, and for
    partitions merged away by a compaction.  If one of its columns is not resident (evicted, cold),
    the query asks the catalogue for the file; an indexing lookup panics the worker."""
    from mirlib.cfg import CFG
    ctx.rule('FLW-7', 'catalogue lookups reachable from a query (Partition::get_cols -> get_or_load -> '
                      'Storage) never index-panic on a (table, partition) the catalogue lacks', floor=3)
    P = ctx.P
    root = P.one('mem_store::partition::Partition::get_cols')
    reach = P.reachable_bodies([root])
    scope = [P.body(n) for n in reach if n.startswith(('disk_store::meta_store::', 'disk_store::storage::'))]
    scope = [b for b in scope if b is not None]
    ctx.require(len(scope) >= 4, 'FLW-7: storage functions not reachable from Partition::get_cols (%d)' % len(scope))
    ctx.extra.setdefault('scopes', {})['FLW-7'] = sorted(b.name for b in scope)
    n = 0
    for b in sorted(scope, key=lambda x: x.name):
        du = DefUse(b)
        cfg = CFG(b)
        for ps in panics.panic_sources(b):
            if ps.kind != 'index' or 'HashMap<' not in ps.what:
                continue
            n += 1
            idiom = panics.guarded_by_len_or_check(b, du, cfg, ps)
            ctx.check('FLW-7', '%s|%s' % (b.name, ps.what), bool(idiom),
                      'catalogue map is indexed (`map[key]`) on the query path: a partition that is '
                      'published but not yet in the catalogue (flush in progress) or already merged '
                      'away, with an evicted / cold column, panics the worker; the query is '
                      '"canceled" and later queries on that partition spin for ever', ps.where())
    lookups = [1 for b in scope for blk, t in b.calls() if not blk.cleanup and
               norm_callee(t.func).endswith('HashMap::get')]
    ctx.ok('FLW-7', 'scope', '%d storage bodies on the query path, %d indexing lookups, %d get() lookups'
           % (len(scope), n, len(lookups)))
