"""OPT-1: the column payload of a published partition is optional (C07, C10, C11)."""
import re

from mirlib.dataflow import DefUse, base_local
from mirlib.program import norm_callee
from . import panics

ALLOWED = {
    'mem_store::partition::Partition::new':
        'the handle was created resident (ColumnHandle::resident) in this body and the partition '
        'is not yet reachable from Table.partitions',
}


def opt1_shared_optional_payload(ctx):
    ctx.rule('OPT-1', 'an Option<Arc<Column>> read out of a ColumnHandle is never unwrapped once '
                      'the handle is reachable from a published partition', floor=2)
    P = ctx.P
    n_reads = 0
    for b in P.fn_bodies():
        if b.crate != 'locustdb':
            continue
        reads = [t for blk, t in b.calls() if not blk.cleanup and
                 norm_callee(t.func).endswith('ColumnHandle::try_get')]
        if not reads:
            continue
        du = DefUse(b)
        n_reads += len(reads)
        bad_here = False
        for ps in panics.panic_sources(b):
            if ps.kind != 'unwrap' or 'Option' not in ps.term.func or \
                    'mem_store::column::Column>' not in ps.term.func:
                continue
            org = du.origins(base_local(ps.operand))
            cs = [norm_callee(c.func) for (_b, c) in org['calls']]
            if not any(c.endswith('ColumnHandle::try_get') for c in cs):
                continue
            resident_here = any(c.endswith('ColumnHandle::resident') for c in cs)
            key = '%s|%s' % (b.name, ps.what)
            if b.name in ALLOWED and resident_here:
                ctx.exception('OPT-1', b.name, ALLOWED[b.name])
                ctx.ok('OPT-1', key, 'tabled: ' + ALLOWED[b.name], ps.where())
            else:
                bad_here = True
                ctx.violation('OPT-1', key,
                              'payload of a column handle is unwrapped; eviction (evict_cache / '
                              'memory limit) or a query adding a placeholder handle can make it '
                              'None and the panic kills the flush job, after which force_flush '
                              'never returns', ps.where())
        if not bad_here and b.name not in ALLOWED:
            for t in reads:
                ctx.ok('OPT-1', '%s|try_get-consumed-as-option' % b.name,
                       'payload read is consumed without unwrap', t.span.short() if t.span else None)
    ctx.require(n_reads >= 2, 'OPT-1: ColumnHandle::try_get has fewer than 2 readers (anchor)')


# ------------------------------------------------------------------------------------ FLW-7
def flw7_catalogue_lookups_on_query_path(ctx):
    """A query may hold a partition the on-disk catalogue does not (yet / any longer) contain:
    between Table::batch (partition published, LRU keys published) and persist_partitions, and for
    partitions merged away by a compaction.  If one of its columns is not resident (evicted, cold),
    the query asks the catalogue for the file; an indexing lookup panics the worker."""
    from mirlib.cfg import CFG
    ctx.rule('FLW-7', 'catalogue lookups reachable from a query (Partition::get_cols -> get_or_load -> '
                      'Storage) never index-panic on a (table, partition) the catalogue lacks', floor=3)
    P = ctx.P
    root = P.one('mem_store::partition::Partition::get_cols')
    reach = P.reachable_bodies([root])
    scope = [P.body(n) for n in reach if n.startswith(('disk_store::meta_store::', 'disk_store::storage::'))]
    scope = [b for b in scope if b is not None]
    ctx.require(len(scope) >= 4, 'FLW-7: storage functions not reachable from Partition::get_cols (%d)' % len(scope))
    ctx.extra.setdefault('scopes', {})['FLW-7'] = sorted(b.name for b in scope)
    n = 0
    for b in sorted(scope, key=lambda x: x.name):
        du = DefUse(b)
        cfg = CFG(b)
        for ps in panics.panic_sources(b):
            if ps.kind != 'index' or 'HashMap<' not in ps.what:
                continue
            n += 1
            idiom = panics.guarded_by_len_or_check(b, du, cfg, ps)
            ctx.check('FLW-7', '%s|%s' % (b.name, ps.what), bool(idiom),
                      'catalogue map is indexed (`map[key]`) on the query path: a partition that is '
                      'published but not yet in the catalogue (flush in progress) or already merged '
                      'away, with an evicted / cold column, panics the worker; the query is '
                      '"canceled" and later queries on that partition spin for ever', ps.where())
    lookups = [1 for b in scope for blk, t in b.calls() if not blk.cleanup and
               norm_callee(t.func).endswith('HashMap::get')]
    ctx.ok('FLW-7', 'scope', '%d storage bodies on the query path, %d indexing lookups, %d get() lookups'
           % (len(scope), n, len(lookups)))


# ------------------------------------------------------------------------------------ ORD-17
def ord17_loaded_mark_after_handles(ctx):
    """A sub-partition file is marked "loaded" only after the handles of all its columns are in the
    partition's column map.  `Partition::get_cols` treats "file loaded + no handle for this name" as
    "the partition does not contain this column" and installs an *empty* handle; a mark that becomes
    visible before the handles (set while the file is still being read) lets a second query - or a
    compaction - that asks for another column of the same file classify a stored column as absent,
    and it stays NULL until the next restart."""
    from mirlib.cfg import CFG
    ctx.rule('ORD-17', 'a partition file is marked as loaded only after the handles of its columns are '
                       'installed: the mark is not reachable from the routine that reads the file, and in '
                       'the loader it follows the loop that installs the handles', floor=3)
    P = ctx.P
    roots = P.find('MetaStore::mark_subpartition_as_loaded')
    ctx.require(roots, 'ORD-17: MetaStore::mark_subpartition_as_loaded not found')
    root_names = {r.name for r in roots}
    # bodies from which the mark is reachable (synchronous edges)
    reaching = set()
    for b in P.fn_bodies():
        if b.crate != 'locustdb':
            continue
        if root_names & set(P.reachable_bodies([b])):
            reaching.add(b.name)
    # (1) the file reader never marks
    readers = [b for b in P.fn_bodies() if b.crate == 'locustdb' and
               re.search(r'(^|::|>::)load_column$', b.name) and '{closure' not in b.name]
    ctx.require(readers, 'ORD-17: no load_column body found')
    for b in sorted(readers, key=lambda x: x.name):
        ctx.check('ORD-17', '%s|reader-does-not-mark-loaded' % b.name, b.name not in reaching,
                  'the routine that reads a partition file %s the "loaded" mark' %
                  ('cannot reach' if b.name not in reaching else
                   'reaches (sets, before its caller has installed the column handles,)'), None)

    def reaches_mark(F, t):
        if not t.func:
            return False
        return any(c.name in reaching or c.name in root_names for c in P.resolve(t.func, F.crate))

    # (2) in every body that installs handles, the mark follows the installing loop
    n_loaders = 0
    covered = set()
    for F in P.fn_bodies():
        if F.crate != 'locustdb' or F.name not in reaching or F.name in root_names:
            continue
        sites = [(blk, t) for (blk, t) in F.calls() if not blk.cleanup and reaches_mark(F, t)]
        installs = [(blk, t) for (blk, t) in F.calls() if not blk.cleanup and
                    norm_callee(t.func or '').endswith('ColumnHandle::set_resident')]
        if not installs:
            continue
        n_loaders += 1
        covered.add(F.name)
        cfg = CFG(F)
        loops = {h: cfg.natural_loop(h) for h in cfg.loop_headers()}
        inner = []
        for (ib, _t) in installs:
            hs = [h for h, lp in loops.items() if ib.id in lp]
            if hs:
                inner.append(min(hs, key=lambda h: len(loops[h])))
        short = re.sub(r'^.*?(\w+::\w+)$', r'\1', F.name)
        for k, (blk, t) in enumerate(sites):
            ok = bool(inner) and all(blk.id not in loops[h] and cfg.dominates(h, blk.id) for h in inner) and \
                not any(cfg.can_reach(blk.id, ib.id) and not any(blk.id in loops[h] or True for h in [])
                        and not _same_outer_iteration(cfg, loops, blk.id, ib.id) for (ib, _t) in installs)
            ctx.check('ORD-17', '%s|mark-after-install-loop' % short, ok,
                      'the call that marks the file as loaded %s the loop that installs the column handles '
                      '(ColumnHandle::set_resident)' % ('follows' if ok else 'is not dominated by / lies inside'),
                      where_(t))
    ctx.require(n_loaders >= 1, 'ORD-17: no body both installs column handles and marks the file as loaded')
    # (3) who may mark: every call path to the mark passes through a loader.  R = bodies that reach
    # the mark without passing a loader; an entry point (no resolved caller) in R marks a file as
    # loaded without installing anything
    R = set()
    for b in P.fn_bodies():
        if b.crate != 'locustdb' or b.name in covered or b.name in root_names:
            continue
        if root_names & set(P.reachable_bodies([b], stop=covered)):
            R.add(b.name)
    callers = P.callers()
    for name in sorted(R):
        if '{closure' in name:
            continue
        cs = {re.sub(r'::\{closure.*$', '', c) for (c, kind, _b) in callers.get(name, [])}
        ctx.check('ORD-17', '%s|marks-only-below-a-loader' % name, bool(cs) and cs <= (R | covered),
                  'reaches the "loaded" mark without installing handles itself; called from %s'
                  % (sorted(cs) or 'nowhere (an entry point that marks files as loaded)'), None)


def _same_outer_iteration(cfg, loops, a, b):
    """True when block b is reachable from a only through the back edge of a loop that contains both
    (the next iteration of an enclosing retry loop): not an ordering problem within one load."""
    for h, lp in loops.items():
        if a in lp and b in lp:
            # reachable without passing the header again?
            if not cfg.can_reach(a, b, avoid={h}):
                return True
    return False


def where_(t):
    return t.span.short() if getattr(t, 'span', None) else None


# ------------------------------------------------------------------------------------ PAN-6
def pan6_cold_load_failures_are_values(ctx):
    """A query (or a compaction) that needs a column which is not in memory reads the partition file
    on the worker thread.  A file that is missing, truncated or fails its checksum must fail that
    request with an error value: an `unwrap` on the load or decode result kills the worker, leaves the
    partition's load-in-progress flag set, and every later query on that table waits for ever."""
    from .common import classify_result_use
    ctx.rule('PAN-6', 'on the path from Partition::get_cols to the partition file, the results of reading '
                      'and decoding the file are consumed as error values (?, match, map_err), never by '
                      'unwrap / expect', floor=2)
    P = ctx.P
    root = P.one('mem_store::partition::Partition::get_cols')
    reach = P.reachable_bodies([root])
    n = 0
    for name in sorted(reach):
        b = P.body(name)
        if b is None or b.crate != 'locustdb':
            continue
        if not name.startswith(('disk_store::storage::', 'scheduler::disk_read_scheduler::', 'mem_store::partition::')):
            continue
        du = None
        for (blk, t) in b.calls():
            if blk.cleanup:
                continue
            c = norm_callee(t.func or '')
            role = None
            if re.search(r'BlobWriter>?::load$', c) or c.endswith('BlobWriter::load'):
                role = 'read'
            elif c.endswith('PartitionSegment::deserialize'):
                role = 'decode'
            elif re.search(r'(ColumnLoader>?|Storage)::load_column$', c) or re.search(r'DiskReadScheduler::get_or_load$', c):
                role = 'forward'
            if role is None:
                continue
            ty = b.local_type(base_local(t.dest)) or ''
            if 'result::Result<' not in ty:
                if role == 'forward':
                    ctx.violation('PAN-6', '%s|%s|result-type' % (_short(name), c.split('::')[-1]),
                                  '%s returns %s: a failure to read the file cannot be handed to the caller as '
                                  'a value' % (c.split('::')[-1], ty[:60]), where_(t))
                    n += 1
                continue
            if du is None:
                du = DefUse(b)
            use = classify_result_use(b, du, t)
            n += 1
            ok = use['kind'] in ('try', 'match', 'returned')
            ctx.check('PAN-6', '%s|%s|%s' % (_short(name), role, c.split('::')[-1]), ok,
                      'result of %s is %s' % (c.split('::')[-1],
                                              {'try': 'propagated with ?', 'match': 'matched', 'returned': 'returned',
                                               'unwrap': 'unwrapped: a corrupted or missing partition file panics the '
                                                         'worker thread, the load-in-progress flag stays set and later '
                                                         'queries on the table never return'}.get(use['kind'], use['kind'])),
                      where_(t))
    ctx.require(n >= 3, 'PAN-6: read / decode / forward sites on the cold-load path not found (%d)' % n)


def _short(name):
    return re.sub(r'^.*?(\w+::\w+)$', r'\1', re.sub(r'<(\w+) as \w+>', r'\1', name))


# ------------------------------------------------------------------------------------ WHO-6
def who6_column_handles_are_never_removed(ctx):
    """`Partition.cols` (name -> handle) only grows.  Absent-column detection reads "the file was loaded
    and there is no handle for this name" as "the partition has no such column" (ORD-17); eviction
    therefore empties the *payload* of a handle and keeps the handle.  Removing a handle turns the
    evicted column into an absent one: it reads as NULL, compaction writes NULLs in its place and
    deletes the files that still had the values."""
    ctx.rule('WHO-6', 'no code removes an entry from a partition\'s map of column handles (eviction empties the '
                      'payload and keeps the handle)', floor=1)
    P = ctx.P
    REM = ('remove', 'remove_entry', 'clear', 'retain', 'drain', 'extract_if', 'take')
    adds = 0
    for b in P.fn_bodies():
        if b.crate != 'locustdb':
            continue
        if b._lines is not None and not any('ColumnHandle>>' in l for l in b._lines):
            continue
        b.parse()
        for blk, t in b.calls():
            if blk.cleanup or not t.func:
                continue
            f = t.func
            if 'HashMap::<std::string::String, std::sync::Arc<mem_store::partition::ColumnHandle>>' not in f and \
                    'hash_map::Entry::<\'_, std::string::String, std::sync::Arc<mem_store::partition::ColumnHandle>>' not in f:
                continue
            m = norm_callee(f).split('::')[-1]
            if m in ('insert', 'entry', 'or_insert', 'or_insert_with'):
                adds += 1
                continue
            if m in REM:
                ctx.violation('WHO-6', '%s|%s' % (_short(b.name), m),
                              '%s removes column handles from a partition (HashMap::%s): a column whose file was '
                              'already loaded, or that lives in a buffer partition, has no way back and reads as '
                              'NULL from then on' % (_short(b.name), m), where_(t))
    ctx.check('WHO-6', 'handles-only-added', adds >= 2,
              '%d sites add handles to a partition\'s column map, none removes one' % adds, 'src/mem_store/partition.rs')
