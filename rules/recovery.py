"""Recovery and flush-trigger rules: FLW-6, PAN-1 (C09), FLW-15 (C18)."""
import re

from mirlib.cfg import CFG
from mirlib.dataflow import DefUse, base_local, typed_path, operand_place
from mirlib.program import norm_callee, strip_generic_args
from . import panics
from .common import calls_matching, where, classify_result_use
from .durability import blobwriter_method, top_function
from .locking import lockmodel

WHO2_TABLE = {
    'disk_store::file_writer::<FileBlobWriter as BlobWriter>::store':
        'the atomic blob replace routine itself (ORD-4)',
}


def field_names(ctx, steps):
    lm = lockmodel(ctx)
    return [lm.field_name(owner, idx) for (idx, owner) in steps]


# ------------------------------------------------------------------------------------ FLW-6
def flw6_recovery_ignores_staging(ctx):
    ctx.rule('FLW-6', 'recovery loads only files that pass a test against the segment suffix '
                      '(staging files left by a crash are never replayed)', floor=1)
    P = ctx.P
    R = P.one('Storage::recover')
    du = DefUse(R)
    lists = [(b, t) for (b, t) in R.calls() if not b.cleanup and blobwriter_method(t.func) == 'list']
    ctx.require(lists, 'FLW-6: Storage::recover does not list the wal directory')
    ok = False
    detail = 'no suffix test between BlobWriter::list and BlobWriter::load'
    site = lists[0][1]
    for (b, t) in lists:
        fw = du.forward(base_local(t.dest))
        for blk, t2 in R.calls():
            if blk.cleanup:
                continue
            n = norm_callee(t2.func)
            if n.endswith(('Iterator>::filter', 'Vec::retain', 'Iterator>::filter_map')):
                if not any(l in fw for a in t2.args for l in [base_local(a)] if l is not None):
                    continue
                for cb in P.closures_in_text(t2.func):
                    if _tests_wal_suffix(P, cb):
                        ok = True
                        site = t2
                        detail = 'listed paths pass %s with a closure testing the "wal" extension' \
                                 % n.split('::')[-1]
    if not ok:
        # inline guard: a suffix test in the loop dominating the spawn of the load job
        if _tests_wal_suffix(P, R):
            cfg = CFG(R)
            execs = calls_matching(R, 'threadpool::ThreadPool::execute')
            tests = calls_matching(R, lambda n: n.endswith(('Path::extension', 'str::ends_with')))
            if execs and tests and all(any(cfg.dominates(tb.id, eb.id) for (tb, tt) in tests)
                                       for (eb, et) in execs):
                ok = True
                detail = 'suffix test dominates the spawn of the load job'
    ctx.check('FLW-6', 'Storage::recover|suffix-filter', ok, detail, where(site))


def _tests_wal_suffix(P, body):
    """The body (or a closure nested in it) calls an extension / suffix test and mentions the
    literal "wal" / ".wal"."""
    scope = [body] + P.closures_of(body)
    has_call = False
    has_lit = False
    for sb in scope:
        sb.parse()
        if calls_matching(sb, lambda n: n.endswith(('std::path::Path::extension', 'str>::ends_with',
                                                    'str::ends_with', 'Path::ends_with'))):
            has_call = True
        texts = [' '.join(s.code for b in sb.blocks.values() for s in b.stmts),
                 ' '.join(b.term.code for b in sb.blocks.values() if b.term)]
        for c in P.crates[sb.crate].bodies:
            if c.kind == 'promoted' and c.raw_name.startswith(sb.raw_name + '::promoted'):
                c.parse()
                texts.append(' '.join(s.code for b in c.blocks.values() for s in b.stmts))
        if any(re.search(r'const "\.?wal"', x) for x in texts):
            has_lit = True
    return has_call and has_lit


# ------------------------------------------------------------------------------------ PAN-1
def pan1_awaited_jobs_report_failures(ctx):
    ctx.rule('PAN-1', 'pool jobs whose reply is awaited never unwrap the result of reading or '
                      'decoding file content (a panic there makes the waiting thread hang)', floor=1)
    P = ctx.P
    n = 0
    for body, blk, t in P.call_sites(lambda f: strip_generic_args(f) == 'threadpool::ThreadPool::execute'):
        if blk.cleanup:
            continue
        for cb in P.closures_in_text(t.func):
            cb.parse()
            if not any('std::sync::mpsc::Sender<' in (ty or '') for ty in cb.locals.values()):
                continue
            scope = [cb] + [P.body(nm) for nm in P.reachable_bodies([cb]) if nm.startswith(cb.name + '::')]
            for sb in scope:
                if sb is None:
                    continue
                du = DefUse(sb)
                for b2, t2 in sb.calls():
                    if b2.cleanup:
                        continue
                    nn = norm_callee(t2.func)
                    role = None
                    if blobwriter_method(t2.func) == 'load':
                        role = 'BlobWriter::load'
                    elif nn.endswith('::deserialize') and ('Segment' in nn or 'MetaStore' in nn):
                        role = nn.split('::')[-2] + '::deserialize'
                    if role is None:
                        continue
                    n += 1
                    use = classify_result_use(sb, du, t2)
                    ctx.check('PAN-1', '%s|%s' % (cb.name, role), use['kind'] != 'unwrap',
                              'result of %s inside an awaited pool job is %s' % (role, use['kind']),
                              where(t2))
    ctx.require(n >= 1, 'PAN-1: no awaited pool job reads file content (anchor: Storage::recover job)')


# ------------------------------------------------------------------------------------ FLW-15
def flw15_flush_trigger(ctx):
    ctx.rule('FLW-15', 'the flush thread flushes when the log size exceeds max_wal_size_bytes, the '
                       'file count exceeds max_wal_files or a flush is pending, and answers every '
                       'pending request after the flush', floor=4)
    P = ctx.P
    F = P.one('InnerLocustDB::enforce_wal_limit')
    # predicates extracted into helpers (`fn too_many_wal_files(&self) -> bool`) are spliced in:
    # any crate helper that reads the log-id range or is a small bool-returning method of the database
    from . import common as _c
    F = _c.inlined_anchor(P, F, lambda n: n.endswith('Storage::unflushed_wal_ids') or n.endswith('MetaStore::unflushed_wal_ids'),
                          keep=('InnerLocustDB::wal_flush',))
    du = DefUse(F)
    cfg = CFG(F)
    flushes = calls_matching(F, lambda n: n.endswith('InnerLocustDB::wal_flush'))
    ctx.require(flushes, 'FLW-15: enforce_wal_limit does not call wal_flush')
    fb = [b.id for (b, t) in flushes]
    conds = {}
    for bid, blk in F.blocks.items():
        if blk.cleanup:
            continue
        for s in blk.stmts:
            if s.kind != 'assign':
                continue
            m = re.match(r'^(Gt|Ge|Lt|Le)\((.*), (.*)\)$', s.rhs)
            if not m:
                continue
            op, a, b = m.group(1), m.group(2).strip(), m.group(3).strip()
            for (x, y, o) in ((a, b, op), (b, a, {'Gt': 'Lt', 'Ge': 'Le', 'Lt': 'Gt', 'Le': 'Ge'}[op])):
                if y.startswith('const'):
                    continue
                root, steps = typed_path(F, du, y)
                nm = field_names(ctx, steps)
                if nm and nm[-1] in ('max_wal_size_bytes', 'max_wal_files') and o in ('Gt', 'Ge'):
                    conds[nm[-1]] = (bid, s, base_local(s.lhs), x)
    for lim in ('max_wal_size_bytes', 'max_wal_files'):
        if lim not in conds:
            ctx.violation('FLW-15', 'enforce_wal_limit|%s-compared' % lim,
                          'no `> opts.%s` comparison in the flush thread' % lim, where(flushes[0][1]))
            continue
        bid, s, res, other = conds[lim]
        # the comparison result must be able to trigger the flush: some switch on a value derived
        # from it has the flush reachable on its true edge
        fw = du.forward(res)
        trig = False
        for b2, blk2 in F.blocks.items():
            t2 = blk2.term
            if blk2.cleanup or t2 is None or t2.kind != 'switch':
                continue
            if base_local(t2.discr) in fw:
                for (v, tg) in t2.targets:
                    if v != '0' and (tg in fb or any(cfg.can_reach(tg, f) or tg == f for f in fb)):
                        # and the false edge must not be forced into the flush too (not vacuous)
                        trig = True
        what = 'log size' if lim == 'max_wal_size_bytes' else 'number of unflushed segments'
        ctx.check('FLW-15', 'enforce_wal_limit|%s-triggers-flush' % lim, trig,
                  '%s above opts.%s leads to wal_flush' % (what, lim), where(s))
        if lim == 'max_wal_size_bytes':
            org = du.origins(base_local(other))
            from .locking import GUARD_DEREF
            from_guard = any(GUARD_DEREF.match(c.func or '') and "MutexGuard<'_, u64>" in c.func
                             for (_b, c) in org['calls'])
            ctx.check('FLW-15', 'enforce_wal_limit|size-is-accounted-log-size', from_guard,
                      'the compared size is read from the ingestion lock\'s counter', where(s))
    # pending requests trigger and are answered after the flush
    takes = calls_matching(F, lambda n: n == 'std::mem::take')
    pend = None
    for (b, t) in takes:
        if 'std::sync::mpsc::Sender<()>' in (t.func or ''):
            pend = base_local(t.dest)
            site = t
    if pend is None:
        ctx.violation('FLW-15', 'enforce_wal_limit|pending-taken', 'pending flush requests are '
                                                                   'never taken', where(flushes[0][1]))
        return
    fw = du.forward(pend)
    sends = [(b, t) for (b, t) in F.calls() if not b.cleanup and
             norm_callee(t.func).endswith('mpsc::Sender::send') and
             (base_local(t.args[0]) in fw)]
    answered = [1 for (b, t) in sends if any(cfg.dominates(f, b.id) for f in fb)]
    ctx.check('FLW-15', 'enforce_wal_limit|pending-answered-after-flush', bool(answered),
              'every sender taken from pending_wal_flushes is answered in a loop dominated by the '
              'wal_flush call', where(sends[0][1]) if sends else where(site))
    empt = [(b, t) for (b, t) in F.calls() if not b.cleanup and norm_callee(t.func).endswith('Vec::is_empty')
            and base_local(t.args[0]) in fw]
    trig = False
    for (b, t) in empt:
        r = base_local(t.dest)
        f2 = du.forward(r)
        for b2, blk2 in F.blocks.items():
            t2 = blk2.term
            if blk2.cleanup or t2 is None or t2.kind != 'switch' or base_local(t2.discr) not in f2:
                continue
            trig = True
    ctx.check('FLW-15', 'enforce_wal_limit|pending-triggers-flush', trig,
              'a non-empty pending list is one of the flush conditions', where(site))


# ------------------------------------------------------------------------------------ ORD-18
def ord18_no_flusher_before_replay_is_complete(ctx):
    """Start-up replays the recovered log segments into the table buffers.  A flush freezes *every*
    buffer, records the cursor at the end of the recovered log and deletes all segment files; if it
    can run while the replay loop is still going, the rows replayed after the freeze exist only in
    memory, their segments are gone, and the next clean restart loses them.  So nothing that can
    (through spawned threads) reach the flush may be started before the replay loop has finished."""
    from mirlib.cfg import CFG
    from .common import calls_matching, where
    ctx.rule('ORD-18', 'in the start-up routine that replays the recovered log, everything that can reach '
                       'the flush (directly or through a spawned thread) is started after the replay loop',
             floor=1)
    P = ctx.P
    SIB = ('mem_store::table::Table::ingest_homogeneous', 'mem_store::table::Table::ingest_heterogeneous',
           'mem_store::table::Table::ingest')
    flush = [b for b in P.find('InnerLocustDB::wal_flush') if b.kind == 'fn' and '{closure' not in b.name]
    ctx.require(flush, 'ORD-18: InnerLocustDB::wal_flush not found')
    flush_names = {b.name for b in flush}
    memo = {}

    def reaches_flush(body):
        if body.name not in memo:
            memo[body.name] = bool(flush_names & set(P.reachable_bodies([body], follow_async=True)))
        return memo[body.name]
    n = 0
    for b in P.fn_bodies():
        if b.crate != 'locustdb' or '{closure' in b.name or b.kind != 'fn':
            continue
        ing = calls_matching(b, lambda x: x in SIB)
        if not ing:
            continue
        reach = P.reachable_bodies([b], follow_async=True)
        if not any(r.endswith('Storage::recover') for r in reach):
            continue
        n += 1
        cfg = CFG(b)
        loops = {h: cfg.natural_loop(h) for h in cfg.loop_headers()}
        outer = []
        for (ib, _t) in ing:
            hs = [h for h, lp in loops.items() if ib.id in lp]
            if hs:
                outer.append(max(hs, key=lambda h: len(loops[h])))
        ctx.require(outer, 'ORD-18: the replay in %s is not a loop' % b.name)
        k = 0
        for (blk, t) in b.calls():
            if blk.cleanup or not t.func:
                continue
            cs = P.resolve(t.func, b.crate)
            cs = list(cs) + [c for c in P.closures_in_text(t.func)]
            if not any(reaches_flush(c) for c in cs):
                continue
            k += 1
            ok = all(blk.id not in loops[h] and cfg.dominates(h, blk.id) for h in outer)
            callee = norm_callee(t.func).split('::')[-1]
            ctx.check('ORD-18', '%s|%s|started-after-replay' % (re.sub(r'^.*?(\w+::\w+)$', r'\1', b.name), callee), ok,
                      '%s can reach the flush (freeze, cursor advance, log deletion) and %s' %
                      (callee, 'is called only after the replay loop has finished' if ok else
                       'is called before or inside the replay loop: a flush in the middle of the replay deletes '
                       'segments whose rows are not yet in any partition'), where(t))
        ctx.require(k >= 1, 'ORD-18: %s never starts anything that reaches the flush' % b.name)
    ctx.require(n >= 1, 'ORD-18: no start-up replay routine found')


# ------------------------------------------------------------------------------------ CND-3
def _size_limit_comparisons(ctx, F, limit_field='max_wal_size_bytes'):
    """[(op, stmt)] with op in {'Gt','Ge','Lt','Le'} normalised to `size OP limit`, for every comparison in F
    one of whose operands is read from the options field `limit_field` (directly, or through a local /
    closure capture that was assigned from it)."""
    du = DefUse(F)
    out = []
    flip = {'Gt': 'Lt', 'Ge': 'Le', 'Lt': 'Gt', 'Le': 'Ge'}
    for bid, blk in F.blocks.items():
        if blk.cleanup:
            continue
        for s in blk.stmts:
            if s.kind != 'assign':
                continue
            m = re.match(r'^(Gt|Ge|Lt|Le)\((.*), (.*)\)$', s.rhs)
            if not m:
                continue
            op, a, b = m.group(1), m.group(2).strip(), m.group(3).strip()
            for (x, y, o) in ((a, b, op), (b, a, flip[op])):
                if y.startswith('const'):
                    continue
                is_limit = False
                try:
                    root, steps = typed_path(F, du, y)
                    nm = field_names(ctx, steps)
                    is_limit = bool(nm) and nm[-1] == limit_field
                except Exception:
                    pass
                if not is_limit:
                    l = base_local(y)
                    if l is not None:
                        names = [n for (n, pl) in F.debug_all if re.match(r'^\(?\*?\(?_?%d\b' % l, pl.strip().lstrip('(*').lstrip('_')) or pl.strip() == '_%d' % l]
                        is_limit = limit_field in names
                if is_limit:
                    out.append((o, s, bid))
    return out


def cnd3_block_condition_implies_flush_condition(ctx):
    """Ingestion blocks while the accounted log size stands in some relation to `max_wal_size_bytes`; the
    flush thread flushes (and resets the size) when the size stands in some relation to the same limit.
    Whenever ingestion blocks the flush has to fire, i.e. the blocking relation must imply the
    triggering relation: blocking on `>=` while flushing on `>` leaves ingestion waiting for ever when
    the size equals the limit exactly."""
    ctx.rule('CND-3', 'the condition under which ingestion waits for the log to shrink implies the condition '
                      'under which the flush thread flushes (same limit, relation at least as strict)', floor=1)
    P = ctx.P
    ING = P.one('InnerLocustDB::ingest_efficient')
    FL = P.one('InnerLocustDB::enforce_wal_limit')
    from . import common as _c
    FL = _c.inlined_anchor(P, FL, lambda n: n.endswith('Storage::unflushed_wal_ids') or n.endswith('MetaStore::unflushed_wal_ids'),
                           keep=('InnerLocustDB::wal_flush',))
    bodies = [ING] + [cb for cb in P.closures_of(ING)]
    # the wait may live in a helper (`fn lock_wal_size_below_limit(&self) -> MutexGuard<u64>`)
    WAITRE = re.compile(r'Condvar::wait(_while|_timeout|_timeout_while)?$')
    frontier = [ING]
    for _depth in range(2):
        nxt = []
        for b0 in frontier:
            for (blk, t) in b0.calls():
                if blk.cleanup or not t.func:
                    continue
                cs = [c for c in P.resolve(t.func, b0.crate) if c.crate == b0.crate and c.kind == 'fn']
                if len(cs) == 1 and cs[0] not in bodies and \
                        any(WAITRE.search(norm_callee(t2.func or '')) for (_b2, t2) in cs[0].calls()):
                    bodies.append(cs[0])
                    bodies += list(P.closures_of(cs[0]))
                    nxt.append(cs[0])
        frontier = nxt
    block = []
    for b in bodies:
        b.parse()
        for (o, s, bid) in _size_limit_comparisons(ctx, b):
            block.append((o, s, b))
    # keep the comparisons that control a condvar wait: in the body of a wait_while predicate, or
    # dominating a Condvar::wait call on their true edge
    waits = [(blk, t) for b0 in bodies for (blk, t) in b0.calls() if not blk.cleanup and WAITRE.search(norm_callee(t.func or ''))]
    ctx.require(waits, 'CND-3: ingest_efficient never waits on a condvar')
    pred_closures = set()
    for (blk, t) in waits:
        for cb in P.closures_in_text(t.func or ''):
            pred_closures.add(cb.name)
    ops_block = set()
    site = None
    for (o, s, b) in block:
        if b.name in pred_closures or b in bodies:
            if o in ('Gt', 'Ge'):
                ops_block.add(o)
                site = s
    ctx.require(ops_block, 'CND-3: no comparison of the log size with max_wal_size_bytes controls the wait in ingest_efficient')
    ops_flush = {o for (o, s, bid) in _size_limit_comparisons(ctx, FL) if o in ('Gt', 'Ge')}
    ctx.require(ops_flush, 'CND-3: no comparison of the log size with max_wal_size_bytes in the flush thread')
    strict = {'Gt': 2, 'Ge': 1}
    ok = min(strict[o] for o in ops_block) >= min(strict[o] for o in ops_flush)
    sym = {'Gt': '>', 'Ge': '>='}
    ctx.check('CND-3', 'ingest_efficient|blocking-implies-flush', ok,
              'ingestion blocks while size %s limit, the flush thread flushes when size %s limit%s' %
              ('/'.join(sym[o] for o in sorted(ops_block)), '/'.join(sym[o] for o in sorted(ops_flush)),
               '' if ok else ': at size == limit ingestion waits for a flush that is never triggered'),
              where(site))
