"""FLW-8: result shape - one output column per select item, named in select-list order (C12)."""
import re

from mirlib.cfg import CFG
from mirlib.dataflow import DefUse, base_local, typed_path
from mirlib.program import norm_callee
from .common import calls_matching, where
from .recovery import field_names


def flw8_shape(ctx):
    ctx.rule('FLW-8', 'result columns are built by zipping the output names with the result '
                      'sources, both produced from the select list with one entry per item',
             floor=5)
    P = ctx.P
    # (a) convert_to_output_format zips names with sources
    F = P.one('QueryTask::convert_to_output_format')
    du = DefUse(F)
    zips = calls_matching(F, lambda n: n.endswith('Iterator>::zip'))
    okz = False
    for (b, t) in zips:
        fl = set()
        for a in t.args:
            org = du.origins(base_local(a))
            for (_bid, st) in org['stmts']:
                for m in re.finditer(r'&?\(\(\*_1\)\.(\d+): ', st.rhs):
                    root, steps = typed_path(F, du, '((*_1).%s: X)' % m.group(1))
                    fl |= set(field_names(ctx, steps))
        if {'output_colnames', 'result_column_sources'} <= fl:
            okz = True
            ctx.ok('FLW-8', 'convert_to_output_format|zip-names-with-sources',
                   'columns are built from output_colnames.zip(result_column_sources)', where(t))
    if not okz:
        ctx.violation('FLW-8', 'convert_to_output_format|zip-names-with-sources',
                      'output columns are not built by zipping output_colnames with '
                      'result_column_sources', where(F.blocks[0].term))
    # QueryOutput.colnames is output_colnames
    found = False
    for bid, blk in F.blocks.items():
        if blk.cleanup:
            continue
        for s in blk.stmts:
            if s.kind == 'assign' and re.match(r'^engine::execution::query_task::QueryOutput \{', s.rhs):
                found = True
                m = re.search(r'\bcolnames: ((?:move|copy) _\d+)', s.rhs)
                fl = set()
                if m:
                    org = du.origins(base_local(m.group(1)))
                    for (_b, st) in org['stmts']:
                        for mm in re.finditer(r'\(\(\*_1\)\.(\d+): ', st.rhs):
                            root, steps = typed_path(F, du, '((*_1).%s: X)' % mm.group(1))
                            fl |= set(field_names(ctx, steps))
                ctx.check('FLW-8', 'convert_to_output_format|colnames-are-output-names',
                          'output_colnames' in fl,
                          'QueryOutput.colnames is a copy of output_colnames (fields read: %s)'
                          % sorted(fl), where(s))
    ctx.require(found, 'FLW-8: no QueryOutput literal in convert_to_output_format')
    # (b) QueryTask::new
    N = P.one('QueryTask::new')
    du = DefUse(N)
    lit = None
    for bid, blk in N.blocks.items():
        if blk.cleanup:
            continue
        for s in blk.stmts:
            if s.kind == 'assign' and re.match(r'^engine::execution::query_task::QueryTask \{', s.rhs):
                lit = s
    ctx.require(lit is not None, 'FLW-8: no QueryTask literal in QueryTask::new')
    fields = dict(re.findall(r'(\w+): ((?:move|copy) _\d+)', lit.rhs))
    o1 = du.origins(base_local(fields.get('output_colnames', '')))
    from_select = any(re.search(r'\.0: std::vec::Vec<engine::planning::query::ColumnInfo>\)', st.rhs)
                      for (_b, st) in o1['stmts'])
    ctx.check('FLW-8', 'QueryTask::new|names-from-select-list', from_select,
              'output_colnames is computed from query.select', where(lit))
    o2 = du.origins(base_local(fields.get('result_column_sources', '')))
    ctx.check('FLW-8', 'QueryTask::new|sources-from-normalize',
              any(norm_callee(c.func).endswith('Query::normalize') for (_b, c) in o2['calls']),
              'result_column_sources is the third component of Query::normalize', where(lit))
    # (c) normalize: exactly one ResultColumn push per select item
    Z = P.one('Query::normalize')
    cfg = CFG(Z)
    pushes = [(b, t) for (b, t) in Z.calls() if not b.cleanup and
              re.search(r'Vec::<engine::planning::query::ResultColumn>::push$', t.func or '')]
    ctx.require(pushes, 'FLW-8: Query::normalize never pushes a ResultColumn')
    # loop containing the pushes
    headers = [h for h in cfg.loop_headers()
               if all(b.id in cfg.natural_loop(h) for (b, t) in pushes)]
    if not headers:
        ctx.violation('FLW-8', 'Query::normalize|one-source-per-select-item',
                      'ResultColumn pushes are not inside one loop over the select list',
                      where(pushes[0][1]))
    else:
        # innermost such loop
        h = min(headers, key=lambda x: len(cfg.natural_loop(x)))
        loop = cfg.natural_loop(h)
        pb = {b.id for (b, t) in pushes}
        # every cycle h -> ... -> h inside the loop passes exactly one push block:
        # (1) no cycle avoiding pushes; (2) no path push -> push without passing the header
        avoid_ok = True
        seen = set()
        stack = [s for s in cfg.succ[h] if s in loop]
        while stack:
            x = stack.pop()
            if x in seen or x in pb:
                continue
            seen.add(x)
            if x == h:
                avoid_ok = False
                break
            stack.extend(s for s in cfg.succ[x] if s in loop)
        twice = False
        for p in pb:
            seen = set()
            stack = list(cfg.succ[p])
            while stack:
                x = stack.pop()
                if x in seen or x == h or x not in loop:
                    continue
                seen.add(x)
                if x in pb:
                    twice = True
                stack.extend(cfg.succ[x])
        # error exits (`?`) leave the loop; they are allowed
        ctx.check('FLW-8', 'Query::normalize|one-source-per-select-item', avoid_ok and not twice,
                  'every iteration over the select list pushes exactly one ResultColumn '
                  '(skipped=%s, doubled=%s)' % (not avoid_ok, twice), where(pushes[0][1]))


def flw8_star_expansion_only_for_select_star(ctx):
    """FLW-8 clause: the select list is replaced by the table's column list only when the query is
    exactly `SELECT *`.  The caller resolves the column list whenever `*` is *referenced* anywhere
    (`WHERE "*" IS NULL`, `SELECT x, *`), which is a weaker condition: expanding on `Some(list)`
    instead of `is_select_star()` silently drops the written select items."""
    P = ctx.P
    st = ctx.ast.struct('Query', 'engine/planning/query.rs')
    fnames = [f['name'] for f in st['fields']]
    sidx = fnames.index('select')
    F = P.one('QueryTask::new')
    F.parse()
    du = DefUse(F)
    cfg = CFG(F)
    qarg = [ln for (ln, ty) in F.args if ty.strip().endswith('planning::query::Query') or ty.strip() == 'engine::planning::query::Query']
    stars = calls_matching(F, lambda n: n.endswith('Query::is_select_star'))
    true_edges = []
    for (b, t) in stars:
        r = base_local(t.dest)
        for (b2, k2, o2) in du.uses.get(r, []):
            if k2 == 'term' and o2.kind == 'switch':
                true_edges += [tg for (v, tg) in o2.targets if v != '0']
    writes = []
    for bid, blk in F.blocks.items():
        if blk.cleanup:
            continue
        for s in blk.stmts:
            if s.kind == 'assign' and re.match(r'^\(_(\d+)\.%d: ' % sidx, s.lhs.strip()):
                l = int(re.match(r'^\(_(\d+)\.', s.lhs.strip()).group(1))
                if not qarg or l in qarg:
                    writes.append((bid, s))
    if not writes:
        ctx.ok('FLW-8', 'QueryTask::new|star-expansion-only-for-select-star',
               'the select list of the query is never replaced in QueryTask::new', where(F.blocks[0].term))
        return
    for i, (bid, s) in enumerate(writes):
        ok = any(cfg.dominates(te, bid) for te in true_edges)
        ctx.check('FLW-8', 'QueryTask::new|star-expansion-only-for-select-star%s' % ('' if i == 0 else '#%d' % (i + 1)),
                  ok, 'query.select is replaced by the table\'s column list only on the true edge of '
                      'Query::is_select_star()', where(s))


# ------------------------------------------------------------------------------------ FLW-26
def _expr(F, du, operand, depth=0):
    """Structural rendering of the value of an operand through single-definition temporaries: named
    user variables (debug info) and parameters are leaves, Add/Sub/min/saturating ops are nodes."""
    from mirlib.dataflow import operand_place, is_const
    op = operand.strip()
    if is_const(op):
        return op
    l = base_local(op)
    if l is None or depth > 6:
        return op
    # a captured variable of a closure: `debug offset => (*((*_1).2: &usize))`
    plc = operand_place(op).strip()
    cap = [nm for (nm, pl) in F.debug_all if pl.strip() == plc and plc != '_%d' % l]
    if cap:
        return 'var:' + cap[0]
    names = [nm for (nm, pl) in F.debug_all if pl.strip() == '_%d' % l]
    if names:
        return 'var:' + names[0]
    d = du.single_def(l)
    if d is None:
        return '_%d' % l
    bid, kind, obj = d
    if kind == 'stmt':
        rhs = obj.rhs.strip()
        m = re.match(r'^(Add|Sub|Mul)(WithOverflow|Unchecked)?\((.*), (.*)\)$', rhs)
        if m:
            x, y = _expr(F, du, m.group(3), depth + 1), _expr(F, du, m.group(4), depth + 1)
            if m.group(1) in ('Add', 'Mul'):
                x, y = sorted((x, y))       # commutative
            return '%s(%s, %s)' % (m.group(1), x, y)
        m = re.match(r'^(?:copy|move) \(\*_(\d+)\)$', rhs)
        if m:
            # `_19 = deref_copy ((*_1).2: &usize); _13 = copy (*_19)`: a captured variable read through its reference
            d2 = du.single_def(int(m.group(1)))
            if d2 is not None and d2[1] == 'stmt' and (d2[2].rhs or '').startswith('deref_copy '):
                plc2 = '(*%s)' % d2[2].rhs[len('deref_copy '):].strip()
                cap2 = [nm for (nm, pl) in F.debug_all if pl.strip() == plc2]
                if cap2:
                    return 'var:' + cap2[0]
        m = re.match(r'^(copy|move) (.*)$', rhs)
        if m:
            return _expr(F, du, rhs, depth + 1)
        m = re.match(r'^\(?(_\d+)\.0: usize\)?$', operand_place(rhs))
        if m:
            return _expr(F, du, m.group(1), depth + 1)
        return rhs if len(rhs) < 40 else '_%d' % l
    f = norm_callee(obj.func or '').split('::')[-1]
    return '%s(%s)' % (f, ', '.join(_expr(F, du, a, depth + 1) for a in obj.args))


def flw26_row_and_column_view_one_window(ctx):
    """`QueryOutput` carries the result twice: `rows` and `columns`.  Both are cut out of the merged
    result by LIMIT / OFFSET; the row loop runs over `offset..end` and each column is
    `slice_box(offset, end)`.  The two views describe the same cells only if both use the same,
    clamped bounds - `slice_box` of a constant column cannot clamp (a constant has no length)."""
    ctx.rule('FLW-26', 'the row view and the column view of a result are cut with the same window: the range of '
                       'the row loop and the arguments of slice_box in convert_to_output_format are the same '
                       'expressions, and the window is clamped by the length of the result', floor=2)
    P = ctx.P
    F = P.one('QueryTask::convert_to_output_format')
    F.parse()
    du = DefUse(F)
    slices = [(b, t, F, du) for (b, t) in F.calls() if not b.cleanup and norm_callee(t.func or '').endswith('::slice_box')]
    for cb in P.closures_of(F):      # `.map(|(colname, proj)| .. slice_box(offset, offset + count) ..)`
        cb.parse()
        cdu = DefUse(cb)
        slices += [(b, t, cb, cdu) for (b, t) in cb.calls() if not b.cleanup and norm_callee(t.func or '').endswith('::slice_box')]
    ranges = []
    for bid, blk in F.blocks.items():
        if blk.cleanup:
            continue
        for s in blk.stmts:
            m = re.match(r'^std::ops::Range::<usize> \{ start: (.*), end: (.*) \}$', s.rhs.strip()) if s.kind == 'assign' else None
            if m:
                ranges.append((s, m.group(1), m.group(2)))
    ctx.require(slices and ranges, 'FLW-26: convert_to_output_format has no slice_box call / no row range')
    rs = [(_expr(F, du, a), _expr(F, du, b)) for (_s, a, b) in ranges]
    for k, (blk, t, SB, sdu) in enumerate(slices):
        if len(t.args) < 3:
            continue
        win = (_expr(SB, sdu, t.args[1]), _expr(SB, sdu, t.args[2]))
        same = win in rs
        ctx.check('FLW-26', 'convert_to_output_format|slice_box%s|same-window-as-rows' % ('' if k == 0 else '#%d' % (k + 1)), same,
                  'columns are cut with (%s, %s); the row loop runs over %s' % (win[0], win[1], rs), where(t))
    # the window is clamped: its end derives from the length of the result
    for (s, a, b) in ranges:
        l = base_local(b)
        org = du.origins(l) if l is not None else {'calls': []}
        lens = [c for (_b, c) in org['calls'] if norm_callee(c.func or '').endswith('BatchResult::len') or
                re.search(r'BatchResult<[^>]*>::len$|BatchResult::<[^>]*>::len$', norm_callee(c.func or ''))]
        mins = [c for (_b, c) in org['calls'] if norm_callee(c.func or '').endswith('cmp::min')]
        ctx.check('FLW-26', 'convert_to_output_format|window-clamped-by-result-length', bool(lens) and bool(mins),
                  'the end of the window derives from min(.., result length): %s' % _expr(F, du, b), where(s))
