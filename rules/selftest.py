"""Engine self-test on positive controls (controls/control.rs): run on every check invocation.

The control functions are compiled to MIR with the repository's pinned rustc (never executed) and
the rule engines must report / stay silent exactly as expected. A failure is a broken checker
(exit 2), never a verdict about the repository."""
import hashlib
import json
import os
import subprocess

from mirlib import facts, core
from mirlib.program import Program, norm_callee
from mirlib.cfg import CFG
from mirlib.dataflow import DefUse
from mirlib import astlib

CTRL_DIR = os.path.join(facts.VERIF, 'controls')


def _toolchain():
    p = os.path.join(facts.REPO, 'rust-toolchain')
    try:
        return open(p).read().strip()
    except OSError:
        return None


def control_facts():
    src = os.path.join(CTRL_DIR, 'control.rs')
    with open(src, 'rb') as f:
        h = hashlib.sha256(f.read() + (_toolchain() or '').encode()).hexdigest()[:12]
    d = os.path.join(facts.CACHE, 'controls', h)
    mir = os.path.join(d, 'control.mir')
    ast = os.path.join(d, 'ast.json')
    if os.path.exists(mir) and os.path.exists(ast):
        return mir, ast
    os.makedirs(d, exist_ok=True)
    tc = _toolchain()
    # checks may start side by side on a fresh cache: every process writes its own temporary files
    sfx = '.tmp%d' % os.getpid()
    cmd = ['rustc'] + (['+' + tc] if tc else []) + [
        '--crate-type', 'lib', '--crate-name', 'control', '--edition', '2021', '-Zunpretty=mir',
        '-Zmir-include-spans=yes', '-Zmir-opt-level=0', '-Ztrim-diagnostic-paths=no', '-Awarnings',
        'control.rs']
    with open(mir + sfx, 'wb') as fo:
        r = subprocess.run(cmd, cwd=CTRL_DIR, stdout=fo, stderr=subprocess.PIPE)
    if r.returncode != 0:
        raise core.CheckerError('self-test: cannot dump control MIR: ' + r.stderr.decode()[-500:])
    os.replace(mir + sfx, mir)
    with open(ast + sfx, 'wb') as fo:
        r = subprocess.run([astlib.ASTQ, CTRL_DIR, 'control.rs'], stdout=fo, stderr=subprocess.PIPE)
    if r.returncode != 0:
        raise core.CheckerError('self-test: astq failed on control.rs')
    os.replace(ast + sfx, ast)
    return mir, ast


class _Ast(astlib.Ast):
    def __init__(self, path):
        with open(path) as f:
            self.files = json.load(f)
        self.by_path = {f['path']: f for f in self.files}
        self.fns = []
        self.structs = {}
        self.enums = {}
        self.consts = {}
        for f in self.files:
            self._index(f['path'], f.get('items', []), [])


def run():
    """Returns a dict for the evidence file; raises CheckerError if an engine misbehaves."""
    from rules import panics, common, durability
    from mirlib.locks import LockModel
    mir, astp = control_facts()
    P = Program.from_files({'control': mir}, CTRL_DIR)
    ast = _Ast(astp)
    res = {}

    def need(cond, what):
        if not cond:
            raise core.CheckerError('engine self-test failed: ' + what)

    # panic sources
    b = P.one('control_panic_sources')
    kinds = sorted(ps.what.split('<')[0] if ps.kind == 'unwrap' else ps.kind
                   for ps in panics.panic_sources(b))
    need(kinds.count('Option::unwrap') == 1 and kinds.count('Result::expect') == 1
         and kinds.count('index') == 2 and 'panic' in kinds and 'assert' in kinds,
         'panic sources of control_panic_sources: %s' % kinds)
    res['panic_sources'] = kinds
    b = P.one('control_safe_idioms')
    du, cfg = DefUse(b), CFG(b)
    idioms = [panics.guarded_by_len_or_check(b, du, cfg, ps) for ps in panics.panic_sources(b)
              if ps.kind in ('index', 'unwrap')]
    need(len(idioms) == 3 and all(idioms), 'safe idioms not recognised: %s' % idioms)
    res['safe_idioms'] = idioms
    # locks
    lm = LockModel(P, ast)
    edges = {(e[0], e[1], e[2].split('::')[-1]) for e in lm.order_edges()}
    need(('Shared.a', 'Shared.b', 'control_lock_ab') in edges, 'lock edge a->b missing: %s' % sorted(edges))
    need(('Shared.b', 'Shared.a', 'control_lock_ba') in edges, 'lock edge b->a missing: %s' % sorted(edges))
    need(not any(e[2] == 'control_lock_released' for e in edges), 'edge reported after guard was dropped')
    blocking = {(e[0], e[1], e[2].split('::')[-1]) for e in lm.blocking_under_lock()}
    need(('Shared.a', 'mpsc recv', 'control_blocking_under_lock') in blocking,
         'blocking-under-lock not found: %s' % sorted(blocking))
    res['lock_edges'] = sorted('%s->%s in %s' % e for e in edges)
    # result use
    b = P.one('control_dropped_result')
    t = [t for blk, t in b.calls() if norm_callee(t.func) == 'std::fs::remove_file'][0]
    k1 = common.classify_result_use(b, DefUse(b), t)['kind']
    b = P.one('control_checked_result')
    t = [t for blk, t in b.calls() if norm_callee(t.func) == 'std::fs::remove_file'][0]
    k2 = common.classify_result_use(b, DefUse(b), t)['kind']
    need(k1 == 'dropped' and k2 == 'try', 'result-use classification: %s / %s' % (k1, k2))
    res['result_use'] = [k1, k2]
    # ORD-4 on the good and the bad store
    c = core.Ctx('SELFTEST')
    c._program = P
    c.rule('ORD-4', 'control')
    durability.ord4_on_bodies(c, [P.one('control_store_good')])
    need(all(i['ok'] for i in c.instances) and len(c.instances) >= 5,
         'ORD-4 reports on the correct control: %s' % [i['key'] for i in c.instances if not i['ok']])
    c2 = core.Ctx('SELFTEST')
    c2._program = P
    c2.rule('ORD-4', 'control')
    durability.ord4_on_bodies(c2, [P.one('control_store_bad')])
    bad = [i['key'].split('|')[-1] for i in c2.instances if not i['ok']]
    need('sync<rename' in bad, 'ORD-4 silent on rename-before-sync control: %s' % bad)
    res['ord4_bad_control'] = bad
    # the same protocol through an extracted helper: inliner + return-variant threading
    from mirlib import inline as inl
    want = inl.reaches(P, lambda n: n in durability.FS_PROTOCOL, crate='control')
    g = inl.inline(P, P.one('control_store_helper_good'), want)
    need(g.inlined == ['control_write_durably'], 'inliner did not splice the helper: %s' % g.inlined)
    c3 = core.Ctx('SELFTEST')
    c3._program = P
    c3.rule('ORD-4', 'control')
    durability.ord4_on_bodies(c3, [g])
    need(all(i['ok'] for i in c3.instances) and len(c3.instances) >= 5,
         'ORD-4 reports on the correct helper-split control: %s' % [i['key'] for i in c3.instances if not i['ok']])
    c4 = core.Ctx('SELFTEST')
    c4._program = P
    c4.rule('ORD-4', 'control')
    durability.ord4_on_bodies(c4, [inl.inline(P, P.one('control_store_helper_bad'), want)])
    bad2 = [i['key'].split('|')[-1] for i in c4.instances if not i['ok']]
    need('sync<rename' in bad2, 'ORD-4 silent when the helper result is ignored: %s' % bad2)
    res['ord4_inlined_controls'] = {'good': len(c3.instances), 'bad': bad2}
    # float comparisons
    from rules import widths
    fc = widths.float_comparisons(P.one('control_float_compare'))
    bc = widths.float_comparisons(P.one('control_bits_compare'))
    need(len(fc) == 1 and not bc, 'float-comparison detector: %s / %s' % (fc, bc))
    res['float_compare_control'] = len(fc)
    return res
