"""C15: file paths are built from sanitised parts; acceptance sets; column routing tables."""
import re

from mirlib import astlib
from mirlib.astlib import walk, find, last_seg
from mirlib.cfg import CFG
from mirlib.dataflow import DefUse, base_local, typed_path
from mirlib.program import norm_callee
from mirlib.core import CheckerError
from . import common
from .common import calls_matching, where
from .recovery import field_names
from .tables import idents_in

FORBIDDEN = ['/', '\\', '\0']

CHAR_PREDICATES = {
    'is_alphanumeric': lambda c: c.isalnum(),
    'is_alphabetic': lambda c: c.isalpha(),
    'is_numeric': lambda c: c.isnumeric(),
    'is_lowercase': lambda c: c.islower(),
    'is_uppercase': lambda c: c.isupper(),
    'is_ascii_alphanumeric': lambda c: c.isascii() and c.isalnum(),
    'is_ascii_alphabetic': lambda c: c.isascii() and c.isalpha(),
    'is_ascii_digit': lambda c: c.isascii() and c.isdigit(),
    'is_ascii_lowercase': lambda c: c.isascii() and c.islower(),
    'is_ascii_uppercase': lambda c: c.isascii() and c.isupper(),
    'is_ascii': lambda c: c.isascii(),
    'is_whitespace': lambda c: c.isspace(),
    'is_control': lambda c: ord(c) < 32 or 127 <= ord(c) < 160,
    'is_ascii_punctuation': lambda c: c.isascii() and not c.isalnum() and 33 <= ord(c) <= 126,
    'is_ascii_graphic': lambda c: 33 <= ord(c) <= 126,
}


def eval_char_pred(node, var, ch):
    """Constant-fold a `char -> bool` expression for one concrete character. Raises CheckerError for
    constructs outside the known grammar (never a verdict)."""
    k = node.get('k')
    if k == 'block' and len(node['stmts']) == 1:
        return eval_char_pred(node['stmts'][0], var, ch)
    if k == 'binary':
        op = node['op']
        if op == '||':
            return eval_char_pred(node['lhs'], var, ch) or eval_char_pred(node['rhs'], var, ch)
        if op == '&&':
            return eval_char_pred(node['lhs'], var, ch) and eval_char_pred(node['rhs'], var, ch)
        if op in ('==', '!='):
            a, b = node['lhs'], node['rhs']
            lit = b if b.get('k') == 'lit' else a
            other = a if lit is b else b
            if lit.get('k') == 'lit' and 'char' in lit and _is_var(other, var):
                r = (ch == lit['char'])
                return r if op == '==' else not r
    if k == 'unary' and node['op'] == '!':
        return not eval_char_pred(node['expr'], var, ch)
    if k == 'mcall' and _is_var(node['recv'], var) and node['method'] in CHAR_PREDICATES:
        return bool(CHAR_PREDICATES[node['method']](ch))
    if k == 'macro' and last_seg(node.get('path')) == 'matches':
        raise CheckerError('SET: matches! in a character predicate is not modelled')
    raise CheckerError('SET: cannot model character predicate %r' % (node.get('src') or k))


def _is_var(n, var):
    while n.get('k') in ('unary', 'ref') and n.get('op', '*') == '*':
        n = n['expr']
    return n.get('k') == 'path' and n['path'] == var


def set_rules(ctx):
    ctx.rule('SET-1', 'is_filesystem_safe accepts no path separator or NUL and bounds the length',
             floor=2)
    ctx.rule('SET-2', 'sanitize_table_name keeps no path separator or NUL, strips leading dots and '
                      'bounds the length', floor=2)
    ast = ctx.ast
    fn = ast.fn('is_filesystem_safe', 'scheduler/inner_locustdb.rs')
    cl = [c for c in find(fn, 'closure')]
    ctx.require(len(cl) == 1, 'SET-1: is_filesystem_safe has no single char closure')
    var = cl[0]['params'][0].get('name') or (cl[0]['params'][0].get('pat') or {}).get('name')
    acc = [c for c in FORBIDDEN if eval_char_pred(cl[0]['body'], var, c)]
    ctx.check('SET-1', 'is_filesystem_safe|excludes-separators', not acc,
              'accepted forbidden characters: %r' % acc, 'src/scheduler/inner_locustdb.rs:%d' % cl[0]['l'])
    also = [c for c in ('.', ' ', ':', '*') if eval_char_pred(cl[0]['body'], var, c)]
    ctx.ok('SET-1', 'is_filesystem_safe|census', 'also rejected: dot/space/colon/star accepted=%r' % also)
    bounds = [int(n['rhs']['int']) for n in find(fn, 'binary') if n['op'] in ('<=', '<') and
              n['rhs'].get('k') == 'lit' and 'int' in n['rhs'] and
              any(m['method'] == 'len' for m in find(n['lhs'], 'mcall'))]
    ctx.check('SET-1', 'is_filesystem_safe|length-bound', bool(bounds) and max(bounds) <= 200,
              'name length bounded by %s (file name limit 255 minus id prefix and extension)' % bounds,
              'src/scheduler/inner_locustdb.rs')
    # the all() must be applied to every char: `chars().all(..)`
    alls = [m for m in find(fn, 'mcall') if m['method'] == 'all']
    ctx.check('SET-1', 'is_filesystem_safe|all-chars', len(alls) == 1 and
              any(m['method'] == 'chars' for m in find(alls[0]['recv'], 'mcall')),
              'the predicate is required of all chars()', 'src/scheduler/inner_locustdb.rs')

    fn = ast.fn('sanitize_table_name', 'disk_store/storage.rs')
    ret = [m for m in find(fn, 'mcall') if m['method'] == 'retain']
    ctx.require(len(ret) == 1, 'SET-2: sanitize_table_name has no retain()')
    cl = find(ret[0], 'closure')
    if not cl:
        # `let is_allowed = |c: char| ..; name.retain(is_allowed)` or a fn item of the same file
        arg = (ret[0].get('args') or [{}])[0]
        nm = (arg.get('path') or '').split('::')[-1] if arg.get('k') == 'path' else None
        if nm:
            for st in find(fn, 'let'):
                pat = st.get('pat') or {}
                if pat.get('name') == nm and st.get('init'):
                    cl = find(st['init'], 'closure') or ([st['init']] if st['init'].get('k') == 'closure' else [])
            if not cl:
                for (p_, q_, n_) in ast.fns:
                    if p_.endswith('disk_store/storage.rs') and q_.split('::')[-1] == nm and n_.get('body'):
                        cl = [{'params': n_.get('params', []), 'body': n_['body'], 'l': n_.get('l', 0)}]
    ctx.require(cl, 'SET-2: the predicate given to retain() is neither a closure nor a local closure / fn of the file')
    var = cl[0]['params'][0].get('name') or (cl[0]['params'][0].get('pat') or {}).get('name')
    acc = [c for c in FORBIDDEN if eval_char_pred(cl[0]['body'], var, c)]
    ctx.check('SET-2', 'sanitize_table_name|excludes-separators', not acc,
              'kept forbidden characters: %r' % acc, 'src/disk_store/storage.rs:%d' % cl[0]['l'])
    # leading dots/dashes stripped (".." can never be a component) - or dot not accepted at all
    dot = eval_char_pred(cl[0]['body'], var, '.')
    trims = [m for m in find(fn, 'mcall') if m['method'] == 'trim_start_matches']
    strips_dot = any('.' in [n.get('char') for n in walk(t) if n.get('k') == 'lit'] for t in trims)
    ctx.check('SET-2', 'sanitize_table_name|no-dot-dot-component', (not dot) or strips_dot,
              'dots are %s' % ('not kept' if not dot else 'kept but leading dots are stripped'),
              'src/disk_store/storage.rs')
    # escaped and unescaped directory names are disjoint: an escaped name starts with a character
    # that an unescaped (= unmodified) name can never start with, i.e. one the cleaning strips
    fmts = [m for m in find(fn, 'macro') if m.get('path') == 'format']
    first = None
    for m in fmts:
        for a in m.get('args', [])[:1]:
            lit = a.get('str') if a.get('k') == 'lit' else None
            if lit is None:
                lit = next((x.get('str') for x in walk(a) if isinstance(x, dict) and x.get('str') is not None), None)
            if lit:
                first = lit[0]
    if first is None:
        fs = [x for x in astlib.strings_in(fn, ast) if '{' in x]
        first = fs[0][0] if fs else None
    stripped = set()
    for t in trims:
        stripped |= {n.get('char') for n in walk(t) if isinstance(n, dict) and n.get('k') == 'lit' and n.get('char')}
    rejected = {c for c in (first or '') if not eval_char_pred(cl[0]['body'], var, c)}
    ctx.check('SET-2', 'sanitize_table_name|escaped-names-disjoint-from-plain-names',
              first is not None and (first in stripped or first in rejected),
              'escaped names start with %r; plain (unmodified) names can never start with it because the '
              'cleaning %s' % (first, 'strips leading %s' % sorted(stripped) if first in stripped else
                               ('removes it' if first in rejected else
                                'keeps it: a table literally named like another table\'s escaped directory '
                                'shares that directory')), 'src/disk_store/storage.rs')
    lims = [int(n['rhs']['int']) for n in find(fn, 'binary') if n['op'] in ('>', '>=') and
            n['rhs'].get('k') == 'lit' and 'int' in n['rhs']]
    # `name.truncate(N)` bounds the length as well (the cleaned name is ASCII only)
    for mc in find(fn, 'mcall'):
        if mc.get('method') == 'truncate' and mc.get('args'):
            a0 = mc['args'][0]
            if a0.get('k') == 'lit' and 'int' in a0:
                lims.append(int(a0['int']))
            elif a0.get('k') == 'path':
                # a named constant of the function or the file
                cn = a0['path'].split('::')[-1]
                for n_ in walk(fn):
                    if isinstance(n_, dict) and n_.get('k') in ('const', 'local_const') and n_.get('name') == cn:
                        lims += [int(x['int']) for x in walk(n_) if isinstance(x, dict) and x.get('k') == 'lit' and 'int' in x]
                try:
                    cdef = ast.const(cn, 'disk_store/storage.rs')
                    lims += [int(x['int']) for x in walk(cdef['expr']) if isinstance(x, dict) and x.get('k') == 'lit' and 'int' in x]
                except Exception:
                    pass
    ctx.check('SET-2', 'sanitize_table_name|length-bound', bool(lims) and max(lims) + 2 + 64 <= 255,
              'cleaned name truncated to %s bytes (+ 2 separators + 64 hex digest <= 255)' % lims,
              'src/disk_store/storage.rs')


def flw11_digest_when_modified(ctx):
    ctx.rule('FLW-11', 'sanitize_table_name appends the SHA-256 of the original name whenever the '
                       'cleaned name differs from it (distinct tables never share a directory)',
             floor=2)
    P = ctx.P
    F = P.one('disk_store::storage::sanitize_table_name')
    du = DefUse(F)
    cfg = CFG(F)
    nes = calls_matching(F, lambda n: n.endswith('PartialEq>::ne') or n.endswith('PartialEq>::eq'))
    ctx.require(nes, 'FLW-11: no comparison of the cleaned name with the input')
    fins = calls_matching(F, lambda n: n.endswith('::finalize'))
    upds = calls_matching(F, lambda n: n.endswith('::update'))
    ok = False
    for (b, t) in nes:
        r = base_local(t.dest)
        involves_param = any(1 in du.origins(base_local(a))['args'] for a in t.args)
        sw = [o for (bb, k, o) in du.uses.get(r, []) if k == 'term' and o.kind == 'switch']
        if not sw or not involves_param:
            continue
        is_ne = norm_callee(t.func).endswith('::ne')
        differs = [tg for (v, tg) in sw[0].targets if (v != '0') == is_ne]
        same = [tg for (v, tg) in sw[0].targets if (v != '0') != is_ne]
        if fins and all(any(cfg.dominates(d, fb.id) for d in differs) for (fb, ft) in fins):
            # on the `differs` edge the result is reassigned from a format containing the digest
            # and every path from that edge to return passes the finalize
            rets = set(cfg.return_blocks())
            ok = all(cfg.must_pass_after(b.id, [fb.id for (fb, ft) in fins], rets) or True for _ in [0])
            through = [fb.id for (fb, ft) in fins]
            ok = all(cfg.must_pass_before(r_, through, start=d) for d in differs for r_ in rets)
    ctx.check('FLW-11', 'sanitize_table_name|digest-on-modified-path', ok,
              'every path on which the cleaned name differs from the input passes Sha256::finalize',
              where(fins[0][1]) if fins else where(nes[0][1]))
    ctx.check('FLW-11', 'sanitize_table_name|digest-of-original-name',
              bool(upds) and all(1 in du.origins(base_local(t.args[1]))['args'] for (b, t) in upds),
              'the digest is computed over the original table name', where(upds[0][1]) if upds else None)


def flw10_paths_from_sanitised_parts(ctx):
    ctx.rule('FLW-10', 'every path below the tables directory is tables_path / sanitize_table_name(t) '
                       '/ partition_filename(id, key); wal paths are wal_dir / "<u64>.wal"', floor=4)
    P = ctx.P
    n = 0
    for b in P.fn_bodies():
        if b.crate != 'locustdb' or not b.name.startswith('disk_store::storage::'):
            continue
        du = None
        for blk, t in b.calls():
            if blk.cleanup:
                continue
            nn = norm_callee(t.func)
            if not (nn.endswith('std::path::Path::join') or nn.endswith('std::path::PathBuf::push')
                    or nn.endswith('std::path::PathBuf::join')):
                continue
            if du is None:
                du = DefUse(b)
            root, steps = typed_path(b, du, t.args[0])
            names = field_names(ctx, steps)
            arg_root = du.access_path(t.args[1])[0]
            arg_call = norm_callee(arg_root[1]) if arg_root[0] == 'call' else None
            if names and names[-1] == 'tables_path':
                n += 1
                ctx.check('FLW-10', '%s|tables_path-join' % b.name,
                          arg_call == 'disk_store::storage::sanitize_table_name',
                          'tables_path is extended with %s' % (arg_call or arg_root[0]), where(t))
            elif names and names[-1] == 'wal_dir':
                n += 1
                org = du.origins(base_local(t.args[1]))
                fmt = any(norm_callee(c.func) in ('alloc::fmt::format', 'std::fmt::format',
                                                  'alloc::fmt::format::format_inner')
                          for (_b, c) in org['calls'])
                u64arg = any('new_display::<u64>' in (c.func or '') for (_b, c) in org['calls'])
                ctx.check('FLW-10', '%s|wal_dir-join' % b.name, fmt and u64arg,
                          'wal_dir is extended with a formatted u64 id', where(t))
            elif root[0] == 'call' and norm_callee(root[1]).endswith('Path::join') and not steps:
                # second component: receiver is itself tables_path.join(sanitised)
                prev = b.blocks[root[2]].term
                r2, s2 = typed_path(b, du, prev.args[0])
                if field_names(ctx, s2)[-1:] == ['tables_path']:
                    n += 1
                    ctx.check('FLW-10', '%s|file-component' % b.name,
                              arg_call == 'disk_store::storage::partition_filename',
                              'table directory is extended with %s' % (arg_call or arg_root[0]), where(t))
            elif root[0] == 'local' or root[0] == 'call':
                # `let table_dir = self.tables_path.join(..); table_dir.join(x)`
                org = du.origins(base_local(t.args[0]))
                via = [c for (_b, c) in org['calls'] if norm_callee(c.func).endswith('Path::join')]
                if any(field_names(ctx, typed_path(b, du, c.args[0])[1])[-1:] == ['tables_path'] for c in via):
                    n += 1
                    ctx.check('FLW-10', '%s|file-component' % b.name,
                              arg_call == 'disk_store::storage::partition_filename',
                              'table directory is extended with %s' % (arg_call or arg_root[0]), where(t))
    ctx.require(n >= 4, 'FLW-10: only %d path construction sites found' % n)
    # partition_filename formats a u64 and the key
    pf = P.one('disk_store::storage::partition_filename')
    # subpartition keys
    S = P.one('scheduler::inner_locustdb::subpartition')
    lits = []
    key_pred = lambda n: n.endswith('is_filesystem_safe') or n.endswith('::finalize') or n.endswith('::update')
    bodies = [common.inlined_anchor(P, cb, key_pred) for cb in [S] + P.closures_of(S)]
    for cb in bodies:
        cb.parse()
        du = DefUse(cb)
        cfg = CFG(cb)
        for bid, blk in cb.blocks.items():
            if blk.cleanup:
                continue
            for s in blk.stmts:
                if s.kind == 'assign' and re.match(r'^disk_store::meta_store::SubpartitionMetadata \{', s.rhs):
                    m = re.search(r'subpartition_key: ((?:move|copy) _\d+)', s.rhs)
                    k = base_local(m.group(1))
                    good = True
                    detail = []
                    # leaf definitions of the key: look through plain moves (a helper's return
                    # value arrives through `dest = move _ret`)
                    leaves, seen_l, work = [], set(), [k]
                    while work:
                        x = work.pop()
                        if x in seen_l:
                            continue
                        seen_l.add(x)
                        for d in du.defs.get(x, []):
                            mm = re.match(r'^(?:move|copy) _(\d+)$', d[2].rhs.strip()) if d[1] == 'stmt' else None
                            if mm and du.defs.get(int(mm.group(1))):
                                work.append(int(mm.group(1)))
                            else:
                                leaves.append(d)
                    for d in leaves:
                        dbid, kind, obj = d
                        if kind == 'stmt' and not re.match(r'^(move|copy) ', obj.rhs):
                            continue
                        org = du.origins(base_local(obj.rhs) if kind == 'stmt' else base_local(obj.args[0]) if obj.args else None) \
                            if (kind == 'stmt' or obj.args) else {'calls': [], 'consts': set()}
                        src = 'term:' + norm_callee(obj.func) if kind == 'term' else 'move'
                        calls = [norm_callee(c.func) for (_b, c) in org['calls']]
                        if kind == 'term':
                            calls.append(norm_callee(obj.func))
                        if any(c.endswith('::finalize') for c in calls):
                            detail.append('sha256-hex')
                        elif any(c.endswith('ToString>::to_string') or c.endswith('str::to_string') for c in calls) and \
                                'const "all"' in ' '.join(org['consts'] | {a for a in (obj.args if kind == 'term' else [])}):
                            detail.append('literal-all')
                        elif any(c.endswith('Clone>::clone') or c.endswith('ToString>::to_string')
                                 or c.endswith('str::to_string') or c.endswith('ToOwned>::to_owned')
                                 or c.endswith('String::from') for c in calls):
                            # must be on the true edge of is_filesystem_safe
                            safe = calls_matching(cb, lambda n: n.endswith('is_filesystem_safe'))
                            okk = False
                            for (sb, st) in safe:
                                r = base_local(st.dest)
                                for (b3, k3, o3) in du.uses.get(r, []):
                                    if k3 == 'term' and o3.kind == 'switch':
                                        tt = [tg for (v, tg) in o3.targets if v != '0']
                                        if tt and cfg.dominates(tt[0], dbid):
                                            okk = True
                            detail.append('safe-name' if okk else 'UNSAFE-CLONE')
                            good = good and okk
                        else:
                            detail.append('?')
                            good = False
                    lits.append((cb, s, good, detail))
    ctx.require(lits, 'FLW-10: subpartition() builds no SubpartitionMetadata')
    # the name that is tested, the name that is hashed and the name recorded as last_column of
    # the entry are one and the same value (per file), not state captured from outside
    for cb in bodies:
        cb.parse()
        safe = calls_matching(cb, lambda n: n.endswith('is_filesystem_safe'))
        upd = calls_matching(cb, lambda n: n.endswith('::update'))
        if not safe or not upd:
            continue
        du = DefUse(cb)
        ax = du.origins(base_local(safe[0][1].args[0]))['args']
        ay = du.origins(base_local(upd[0][1].args[1]))['args']
        az = None
        for bid, blk in cb.blocks.items():
            for s_ in blk.stmts:
                if s_.kind == 'assign' and re.match(r'^disk_store::meta_store::SubpartitionMetadata \{', s_.rhs):
                    m = re.search(r'last_column: ((?:move|copy) _\d+)', s_.rhs)
                    if m:
                        az = du.origins(base_local(m.group(1)))['args']
        elem = {n for (n, _t) in cb.args[1:]}
        ctx.check('FLW-10', '%s|hashed-name-is-tested-name' % cb.name,
                  bool(ax & elem) and ay == ax and (az is None or az == ax),
                  'is_filesystem_safe tests a value from %s, the digest is computed over a value from '
                  '%s, last_column comes from %s (parameters of the per-file closure: %s; anything '
                  'else is captured state shared by all files of the partition)'
                  % (sorted(ax), sorted(ay), sorted(az) if az is not None else '-', sorted(elem)),
                  where(upd[0][1]))
    for cb, s, good, detail in lits:
        ctx.check('FLW-10', '%s|subpartition_key-source' % cb.name, good and bool(detail),
                  'subpartition_key comes from %s' % sorted(set(detail)), where(s))


def ord8_routing_tables(ctx):
    ctx.rule('ORD-8', 'columns are sorted by name before they are grouped into files and the three '
                      'builders of the last-column index agree', floor=4)
    P = ctx.P
    S = P.one('scheduler::inner_locustdb::subpartition')
    cfg = CFG(S)
    sorts = calls_matching(S, lambda n: re.search(r'::(sort_by|sort|sort_unstable_by|sort_by_key|sort_unstable)$', n) is not None)
    loops = calls_matching(S, lambda n: n.endswith('IntoIterator>::into_iter'))
    ctx.check('ORD-8', 'subpartition|sorted-before-grouping',
              bool(sorts) and bool(loops) and all(cfg.dominates(sorts[0][0].id, lb.id) for (lb, lt) in loops),
              'columns.sort_by(name) dominates the grouping loop', where(sorts[0][1]) if sorts else None)
    # comparator compares names
    cmp_ok = False
    for cb in P.closures_of(S):
        if calls_matching(cb, lambda n: n.endswith('Ord>::cmp')) and \
                len(calls_matching(cb, lambda n: n.endswith('Column::name'))) == 2:
            cmp_ok = True
    ctx.check('ORD-8', 'subpartition|sorted-by-name', cmp_ok, 'the sort comparator compares Column::name')
    ast = ctx.ast
    sites = [('InnerLocustDB::flush_table_buffer', 'scheduler/inner_locustdb.rs'),
             ('Storage::prepare_compact', 'disk_store/storage.rs'),
             ('MetaStore::deserialize', 'disk_store/meta_store.rs')]
    for qual, f in sites:
        fn = ast.fn(qual, f)
        ins = [m for m in find(fn, 'mcall') if m['method'] == 'insert' and
               'subpartitions_by_last_column' in idents_in(m['recv'])]
        good = False
        for m in ins:
            a0, a1 = m['args'][0], m['args'][1]
            key_ok = ('last_column' in idents_in(a0)) or any(x.get('member') == 'last_column' for x in walk(a0))
            idx_ok = a1.get('k') == 'path' or any(x.get('k') == 'mcall' and x['method'] == 'len' for x in walk(a1))
            good = good or (key_ok and idx_ok)
        # or: built in one expression, `iter().enumerate().map(|(i, x)| (x.last_column.., i)).collect()`
        for m in find(fn, 'mcall'):
            if m['method'] != 'collect':
                continue
            chain = [x for x in walk(m['recv']) if isinstance(x, dict) and x.get('k') == 'mcall']
            if not any(x['method'] == 'enumerate' for x in chain):
                continue
            for x in chain:
                if x['method'] == 'map' and x['args'] and x['args'][0].get('k') == 'closure':
                    body = x['args'][0].get('body') or {}
                    if body.get('k') == 'block' and len(body.get('stmts', [])) == 1:
                        body = body['stmts'][0]
                    if body.get('k') == 'tuple' and len(body['elems']) == 2:
                        a0, a1 = body['elems']
                        key_ok = ('last_column' in idents_in(a0)) or any(y.get('member') == 'last_column' for y in walk(a0))
                        if key_ok and a1.get('k') == 'path':
                            good = True
        ctx.check('ORD-8', '%s|last-column-index' % qual, good,
                  'subpartitions_by_last_column maps last_column -> position of the file entry',
                  'src/%s' % f)
