"""FLW-17: units-of-measure analysis for log-segment id ranges (C18, C08).

Inside the functions that receive the range of flushed segment ids, every u64 is either an
ABSolute segment id, a RELative quantity (count, offset, batch size) or a plain NUMber.
  ABS - ABS = REL     ABS +/- REL = ABS     REL +/- REL = REL     REL * / NUM = REL
`min`/`max`, comparisons and `Range { start, end }` need operands of one kind.  A range from an
absolute id to a relative bound deletes the wrong set of files although every id it yields is a
valid one - invisible to tests with a fresh database (range starts at 0)."""
import re

from mirlib.dataflow import DefUse, base_local, operand_place
from mirlib.program import norm_callee
from . import common
from .common import calls_matching, where

ABS, REL, NUM, UNK, BAD = 'ABS', 'REL', 'NUM', 'UNK', 'BAD'


def _join(a, b):
    if a == b:
        return a
    if a is None:
        return b
    if b is None:
        return a
    if NUM in (a, b):
        return a if b == NUM else b
    if UNK in (a, b):
        return UNK
    return BAD


def _arith(op, a, b):
    if UNK in (a, b) or a is None or b is None:
        return UNK
    if op == 'Sub':
        if a == ABS and b == ABS:
            return REL
        if a == ABS and b in (REL, NUM):
            return ABS
        if a in (REL, NUM) and b in (REL, NUM):
            return REL if REL in (a, b) else NUM
        return BAD
    if op == 'Add':
        if ABS in (a, b):
            return BAD if a == b else ABS
        return REL if REL in (a, b) else NUM
    if op in ('Mul', 'Div', 'Rem'):
        if ABS in (a, b):
            return BAD
        return REL if REL in (a, b) else NUM
    return UNK


class UnitInference:
    def __init__(self, body, seeds):
        """seeds: {local: kind} or {('range', local): kind} for Range-typed locals."""
        self.body = body.parse()
        self.kind = dict(seeds)       # local -> kind for scalars, ('range', local) -> kind
        self.problems = []            # (stmt/term, text)
        self._run()

    def opkind(self, op):
        op = op.strip()
        if op.startswith('const '):
            return NUM
        pl = operand_place(op)
        m = re.match(r'^_(\d+)$', pl)
        if m:
            l = int(m.group(1))
            return self.kind.get(l, self.kind.get(('range', l)))
        # field of a range: (_r.0: u64) / ((*_r).1: u64)
        m = re.match(r'^\(\(?\*?_(\d+)\)?\.(\d+): (u64|usize)\)$', pl)
        if m:
            l = int(m.group(1))
            rk = self.kind.get(('range', l))
            if rk:
                return rk
            t = self.kind.get(('tuple', l))
            if t:
                return t if m.group(2) == '0' else None
            return None
        m = re.match(r'^\(\(_(\d+) as Some\)\.0: (u64|usize)\)$', pl)
        if m:
            return self.kind.get(('opt', int(m.group(1))))
        return None

    def _set(self, key, k, site=None):
        if k is None:
            return False
        old = self.kind.get(key)
        new = _join(old, k) if old is not None else k
        if new == BAD and old != BAD and site is not None:
            self.problems.append((site, 'conflicting kinds for %s: %s vs %s' % (key, old, k)))
        if new != old:
            self.kind[key] = new
            return True
        return False

    def _run(self):
        b = self.body
        changed = True
        it = 0
        while changed and it < 30:
            changed = False
            it += 1
            for bid, blk in b.blocks.items():
                if blk.cleanup:
                    continue
                for s in blk.stmts:
                    if s.kind != 'assign':
                        continue
                    dst = re.match(r'^_(\d+)$', s.lhs.strip())
                    if not dst:
                        continue
                    d = int(dst.group(1))
                    ty = b.local_type(d) or ''
                    rhs = s.rhs.strip()
                    m = re.match(r'^(Add|Sub|Mul|Div|Rem)(WithOverflow|Unchecked)?\((.*), (.*)\)$', rhs)
                    if m:
                        k = _arith(m.group(1), self.opkind(m.group(3)), self.opkind(m.group(4)))
                        if k == BAD and it == 1:
                            pass
                        key = ('tuple', d) if m.group(2) == 'WithOverflow' else d
                        if k == BAD:
                            if not any(p[0] is s for p in self.problems):
                                self.problems.append((s, '%s of %s and %s' % (m.group(1), self.opkind(m.group(3)), self.opkind(m.group(4)))))
                            k = UNK
                        changed |= self._set(key, k, s)
                        continue
                    m = re.match(r'^std::ops::Range::<(u64|usize)> \{ start: (.*), end: (.*) \}$', rhs)
                    if m:
                        ks, ke = self.opkind(m.group(2)), self.opkind(m.group(3))
                        k = _join(ks, ke)
                        if k == BAD:
                            if not any(p[0] is s for p in self.problems):
                                self.problems.append((s, 'range from %s to %s' % (ks, ke)))
                            k = UNK
                        if k == NUM:
                            k = REL
                        changed |= self._set(('range', d), k, s)
                        continue
                    if re.match(r'^(move|copy) ', rhs):
                        mc = re.match(r'^((?:move|copy) .+) as [A-Za-z0-9_]+ \((?:IntToInt|Transmute|PtrToPtr)\)$', rhs)
                        src = mc.group(1) if mc else rhs
                        k = self.opkind(src)
                        l = base_local(src)
                        if 'Range<' in ty or 'StepBy<' in ty:
                            rk = self.kind.get(('range', l))
                            changed |= self._set(('range', d), rk, s)
                        else:
                            changed |= self._set(d, k, s)
                        # moving an Option<u64> / tuple keeps auxiliary kinds
                        for aux in ('opt', 'tuple'):
                            if (aux, l) in self.kind and operand_place(src) == '_%d' % l:
                                changed |= self._set((aux, d), self.kind[(aux, l)], s)
                        continue
                    if rhs.startswith('&'):
                        l = base_local(rhs)
                        if ('range', l) in self.kind and re.match(r'^&(mut )?(_\d+|\(\*_\d+\))$', rhs):
                            changed |= self._set(('range', d), self.kind[('range', l)], s)
                t = blk.term
                if t is None or t.kind != 'call':
                    continue
                dst = re.match(r'^_(\d+)$', (t.dest or '').strip())
                if not dst:
                    continue
                d = int(dst.group(1))
                n = norm_callee(t.func)
                meth = n.split('::')[-1]
                if meth in ('min', 'max') and len(t.args) == 2:
                    ka, kb = self.opkind(t.args[0]), self.opkind(t.args[1])
                    k = _join(ka, kb)
                    if k == BAD:
                        if not any(p[0] is t for p in self.problems):
                            self.problems.append((t, '%s of %s and %s' % (meth, ka, kb)))
                        k = UNK
                    changed |= self._set(d, k, t)
                elif meth in ('div_ceil', 'saturating_sub', 'saturating_add', 'wrapping_add', 'wrapping_sub',
                              'checked_sub', 'checked_add', 'next_multiple_of') and t.args:
                    op = 'Sub' if 'sub' in meth else ('Add' if 'add' in meth else 'Div')
                    k = _arith(op, self.opkind(t.args[0]), self.opkind(t.args[1]) if len(t.args) > 1 else NUM)
                    if k == BAD:
                        if not any(p[0] is t for p in self.problems):
                            self.problems.append((t, '%s of %s and %s' % (meth, self.opkind(t.args[0]), self.opkind(t.args[1]))))
                        k = UNK
                    changed |= self._set(d, k, t)
                elif meth in ('into_iter', 'step_by', 'clone', 'rev', 'by_ref', 'take', 'skip') and t.args:
                    l = base_local(t.args[0])
                    rk = self.kind.get(('range', l))
                    changed |= self._set(('range', d), rk, t)
                elif meth == 'next' and t.args:
                    l = base_local(t.args[0])
                    rk = self.kind.get(('range', l))
                    changed |= self._set(('opt', d), rk, t)
                elif meth in ('len', 'count', 'max_count', 'active_count'):
                    changed |= self._set(d, REL, t)


def flw17_segment_id_units(ctx):
    ctx.rule('FLW-17', 'log-segment id arithmetic is dimensionally consistent: ranges run from an '
                       'absolute id to an absolute id (or offset to offset), min/max compare like '
                       'with like, and the ids formatted into file names are absolute ids', floor=2)
    P = ctx.P
    targets = [b for b in P.fn_bodies() if b.crate == 'locustdb' and b.name.startswith('disk_store::storage::')
               and any(re.match(r'^std::ops::Range<u64>$', ty) for (_n, ty) in b.args)]
    ctx.require(targets, 'FLW-17: no storage function takes a Range<u64> of segment ids')
    n = 0
    for F in sorted(targets, key=lambda x: x.name):
        seeds = {}
        for (ln, ty) in F.args:
            if ty == 'std::ops::Range<u64>':
                seeds[('range', ln)] = ABS
        fmt_pred = lambda n_: n_.endswith('fmt::format') or 'new_display' in n_ or n_.endswith('std::path::Path::join')
        F0 = F
        F = common.inlined_anchor(P, F, fmt_pred)
        inf = UnitInference(F, seeds)
        n += 1
        for (site, txt) in inf.problems:
            ctx.violation('FLW-17', '%s|unit-mismatch' % F.name,
                          'segment-id arithmetic mixes absolute ids and relative offsets: %s' % txt,
                          where(site))
        if not inf.problems:
            ctx.ok('FLW-17', '%s|units-consistent' % F.name,
                   '%d u64 quantities classified (%s)' % (
                       len(inf.kind), sorted(set(v for v in inf.kind.values() if v))), where(F.blocks[0].term))
        # closures: captured ranges / ids keep their kind; the id that is formatted must be ABS
        for cb in P.closures_of(F0):
            cb = common.inlined_anchor(P, cb, fmt_pred)
            cb.parse()
            cseeds = {}
            # find the aggregate that builds this closure in F and map captures
            for bid, blk in F.blocks.items():
                for s in blk.stmts:
                    if s.kind == 'assign' and s.rhs.startswith('{closure@') and \
                            [c_.name for c_ in P.closures_in_text(s.rhs.split('}')[0] + '}')] == [cb.name]:
                        caps = re.findall(r'(\w+): ((?:move|copy) _\d+)', s.rhs)
                        for idx, (nm, op) in enumerate(caps):
                            l = base_local(op)
                            if ('range', l) in inf.kind:
                                cseeds[('cap', idx)] = ('range', inf.kind[('range', l)])
                            elif l in inf.kind:
                                cseeds[('cap', idx)] = ('scalar', inf.kind[l])
            if not cseeds:
                continue
            # seed locals that read the captures: `_x = move (_1.N: T)` / `((*_1).N: T)`
            seeds2 = {}
            for bid, blk in cb.blocks.items():
                for s in blk.stmts:
                    if s.kind != 'assign':
                        continue
                    m = re.match(r'^(?:move|copy|&(?:mut )?)\s*\(\(?\*?_1\)?\.(\d+): ', s.rhs)
                    d = re.match(r'^_(\d+)$', s.lhs.strip())
                    if m and d and ('cap', int(m.group(1))) in cseeds:
                        kind_t, k = cseeds[('cap', int(m.group(1)))]
                        seeds2[('range', int(d.group(1))) if kind_t == 'range' else int(d.group(1))] = k
            inf2 = UnitInference(cb, seeds2)
            for (site, txt) in inf2.problems:
                ctx.violation('FLW-17', '%s|unit-mismatch' % cb.name,
                              'segment-id arithmetic mixes absolute ids and relative offsets: %s' % txt,
                              where(site))
            # the formatted id
            for blk, t in cb.calls():
                if 'new_display::<u64>' in (t.func or ''):
                    du = DefUse(cb)
                    org = du.origins(base_local(t.args[0]))
                    ks = {inf2.kind.get(l) for l in org['locals'] if inf2.kind.get(l)} | \
                        {inf2.kind.get(('opt', l)) for l in org['locals'] if inf2.kind.get(('opt', l))}
                    ks.discard(None)
                    ctx.check('FLW-17', '%s|formatted-id-is-absolute' % cb.name, REL not in ks and BAD not in ks,
                              'the id formatted into the file name has kind %s' % sorted(ks or {'(direct parameter)'}),
                              where(t))
