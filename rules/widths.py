"""WID-*: width tables are self-consistent (C01, C16); FLW-12 widen-before-subtract (C16)."""
import re

from mirlib import astlib
from mirlib.astlib import walk, find, last_seg
from mirlib.cfg import CFG
from mirlib.dataflow import DefUse, base_local
from mirlib.program import norm_callee
from .tables import idents_in, builder_calls
from .common import where


def if_chain(node):
    """Flatten `if c1 {..} else if c2 {..} else {..}` into [(cond or None, block)]."""
    out = []
    cur = node
    while cur is not None and cur.get('k') == 'if':
        out.append((cur['cond'], cur['then']))
        cur = cur.get('else')
    if cur is not None:
        out.append((None, cur))
    return out


def type_bounds_in(node):
    """[(type, 'MIN'|'MAX')] for paths like `u8::MAX`, `i16::MIN` in node."""
    out = []
    for n in walk(node):
        if n.get('k') == 'path':
            m = re.match(r'^(?:std::)?([ui](?:8|16|32|64|128|size))::(MAX|MIN)$', n['path'])
            if m:
                out.append((m.group(1), m.group(2)))
    return out


# ------------------------------------------------------------------------------------ WID-1
def wid1_integer_widths(ctx):
    ctx.rule('WID-1', 'IntegerColumn::new_boxed: in every narrow branch the range bound, the element '
                      'type of create_col::<T> and the EncodingType tag agree; offset 0 iff the '
                      'branch tests min/max directly', floor=6)
    fn = ctx.ast.fn('IntegerColumn::new_boxed', 'mem_store/integers.rs')
    chains = [n for n in find(fn, 'if') if any(
        last_seg(c['func'].get('path', '')) == 'create_col' for c in find(n['then'], 'call')
        if c.get('func'))]
    ctx.require(chains, 'WID-1: no if-chain calling create_col in new_boxed')
    # outermost chain = the one containing the most branches
    chain = max((if_chain(c) for c in chains), key=len)
    widths = []
    n = 0
    for cond, block in chain:
        calls = [c for c in find(block, 'call') if c.get('func') and
                 last_seg(c['func'].get('path', '')) == 'create_col']
        if not calls or cond is None:
            continue
        n += 1
        c = calls[0]
        m = re.search(r'create_col::<(\w+)>', c['func']['path'])
        ty = m.group(1) if m else None
        tag = None
        for a in c['args']:
            if a.get('k') == 'path' and a['path'].startswith('EncodingType::'):
                tag = a['path'].split('::')[-1]
        bounds = type_bounds_in(cond)
        bty = bounds[0][0] if bounds else None
        offset = c['args'][2] if len(c['args']) > 2 else {}
        # a branch either tests the values directly (`min >= 0 && max <= T::MAX`, offset 0) or the
        # width of the range (`interval <= T::MAX`, offset = the minimum)
        tests_lower_bound = any(n.get('k') == 'binary' and n['op'] in ('>=', '>') and
                                n['rhs'].get('k') == 'lit' and n['rhs'].get('int') == '0'
                                for n in walk(cond))
        uses_interval = not tests_lower_bound
        off_ok = (offset.get('k') == 'path') if uses_interval else \
            (offset.get('k') == 'lit' and offset.get('int') == '0')
        good = ty is not None and tag == ty.upper() and bty == ty and bounds[0][1] == 'MAX' and off_ok
        ctx.check('WID-1', 'new_boxed|branch-%d-%s%s' % (n, ty, '-offset' if uses_interval else ''),
                  good, 'bound %s::MAX, create_col::<%s>, tag %s, offset %s'
                  % (bty, ty, tag, offset.get('path') or offset.get('int')),
                  'src/mem_store/integers.rs:%d' % c['l'])
        widths.append(int(ty[1:]) if ty and ty[1:].isdigit() else 0)
    ctx.check('WID-1', 'new_boxed|branches-ordered', widths == sorted(widths),
              'branches are tried in order of increasing width: %s' % widths,
              'src/mem_store/integers.rs')


# ------------------------------------------------------------------------------------ WID-2
def wid2_dictionary_widths(ctx):
    ctx.rule('WID-2', 'fast_build_string_column: dictionary-size bound, index element type, cast, '
                      'dict_codec tag and DataSection constructor agree in every branch', floor=3)
    fn = ctx.ast.fn('fast_build_string_column', 'mem_store/strings.rs')
    chains = [if_chain(n) for n in find(fn, 'if')
              if any(last_seg(c['func'].get('path', '')) == 'dict_codec' for c in find(n['then'], 'call')
                     if c.get('func'))]
    ctx.require(chains, 'WID-2: no if-chain calling dict_codec')
    chain = max(chains, key=len)
    n = 0
    for cond, block in chain:
        n += 1
        tags = [a['path'].split('::')[-1] for c in find(block, 'call') if c.get('func') and
                last_seg(c['func'].get('path', '')) == 'dict_codec' for a in c['args'] if a.get('k') == 'path']
        # the index vector: the let-bound `Vec<uN>` of this branch
        lets = set()
        idx_names = set()
        for l in find(block, 'let'):
            p = l['pat']
            if p.get('k') == 'p_type' and p['pat'].get('k') == 'p_ident':
                m = re.search(r'^Vec\s*<\s*(u\d+)\s*>$', p['ty'].strip())
                if m:
                    lets.add(m.group(1))
                    idx_names.add(p['pat']['name'])
        secs = [last_seg(c['func']['path']) for c in find(block, 'call') if c.get('func') and
                (c['func'].get('path') or '').startswith('DataSection::') and
                idx_names & set().union(*[idents_in(a) for a in c['args']] or [set()])]
        # casts of the enumeration index to the index type
        casts = {c['ty'] for c in find(block, 'cast') if re.match(r'^u(8|16|32|64)$', c['ty'])
                 and c['expr'].get('k') == 'path'}
        bounds = type_bounds_in(cond) if cond is not None else []
        tag = tags[0] if tags else None
        want = tag.lower() if tag else None
        good = bool(tag) and secs == [tag] and casts == {want} and lets == {want} and \
            (cond is None or (bounds and bounds[0] == (want, 'MAX')))
        ctx.check('WID-2', 'fast_build_string_column|branch-%d-%s' % (n, want), good,
                  'bound %s, Vec<%s>, cast %s, dict_codec(%s), DataSection::%s'
                  % (bounds[0][0] if bounds else 'none', sorted(lets), sorted(casts), tag, secs),
                  'src/mem_store/strings.rs:%d' % block['l'])


# ------------------------------------------------------------------------------------ WID-3 / FLW-12
def wid3_response_layouts(ctx):
    ctx.rule('WID-3', 'response encoder: each narrow layout is guarded by the bounds of its own '
                      'integer type on the matching delta statistic', floor=6)
    fn = ctx.ast.fn('Column::serialize_builder', 'locustdb-serialization/src/api.rs')
    chains = [if_chain(n) for n in find(fn, 'if')]
    chain = max(chains, key=len)
    seen = 0
    dd_guard_in_chain = True
    for cond, block in chain:
        inits = [m for (m, node) in builder_calls(block) if re.match(r'^init_(double_)?delta_encoded_i\d+$', m)]
        if not inits or cond is None:
            continue
        cond = ctx.ast.expand_predicates(cond, 'locustdb-serialization/src/api.rs')
        seen += 1
        m = re.match(r'^init_(double_)?delta_encoded_(i\d+)$', inits[0])
        double, ty = bool(m.group(1)), m.group(2)
        # comparisons in the condition
        comps = []
        for n in walk(cond):
            if n.get('k') == 'binary' and n['op'] in ('>=', '<=', '>', '<'):
                fld = [x['member'] for x in walk(n['lhs']) if x.get('k') == 'field']
                b = type_bounds_in(n['rhs'])
                if fld and b:
                    comps.append((fld[-1], n['op'], b[0]))
        suffix = '_delta_delta' if double else '_delta'
        want = {('min' + suffix, '>=', (ty, 'MIN')), ('max' + suffix, '<=', (ty, 'MAX'))}
        narrow = {c for c in comps if c[2][0] == ty}
        enc = [last_seg(c['func'].get('path', '')) for c in find(block, 'call') if c.get('func')]
        enc_ok = ('double_delta_encode' in enc) if double else ('delta_encode' in enc and 'double_delta_encode' not in enc)
        ctx.check('WID-3', 'serialize_builder|%s' % inits[0][5:], want <= set(comps) and narrow == want and enc_ok,
                  'layout %s guarded by %s; encoder %s' % (inits[0][5:], sorted(comps),
                                                           [e for e in enc if 'encode' in e]),
                  'locustdb-serialization/src/api.rs:%d' % block['l'])
        if double:
            wide = {c for c in comps if c[2][0] == 'i64' and c[0] in ('min_delta', 'max_delta')}
            if len(wide) < 2:
                dd_guard_in_chain = False
    ctx.require(seen >= 6, 'WID-3: fewer than 6 narrow layouts in serialize_builder (%d)' % seen)
    # double-delta layouts reconstruct first differences in i64: they must fit
    st = ctx.ast.fn('determine_delta_compressability', 'locustdb-serialization/src/api.rs')
    dd_guard_in_stats = False
    for iff in find(st, 'if'):
        comps = set()
        for n in walk(iff['cond']):
            if n.get('k') == 'binary' and n['op'] in ('>=', '<=', '>', '<'):
                ids = idents_in(n['lhs']) | idents_in(n['rhs'])
                b = type_bounds_in(n)
                if b and b[0][0] == 'i64':
                    comps |= {i for i in ids if i in ('min_delta', 'max_delta')}
        assigned = set()
        for n in walk(iff['then']):
            if n.get('k') == 'assign':
                assigned |= idents_in(n['lhs'])
        if comps == {'min_delta', 'max_delta'} and {'min_delta_delta', 'max_delta_delta'} <= assigned:
            dd_guard_in_stats = True
    ctx.check('WID-3', 'double-delta|first-differences-fit-i64', dd_guard_in_chain or dd_guard_in_stats,
              'double-delta layouts (whose encoder and decoder form first differences in i64) are '
              'selected only when min_delta/max_delta fit in i64 (guard in chain: %s, in statistics: %s)'
              % (dd_guard_in_chain, dd_guard_in_stats), 'locustdb-serialization/src/api.rs')


def flw12_widen_before_subtract(ctx):
    ctx.rule('FLW-12', 'delta statistics widen to i128 before subtracting (a cast applied to the '
                       'result of an i64 subtraction has already overflowed)', floor=2)
    P = ctx.P
    b = P.one('api::determine_delta_compressability', crate='locustdb_serialization')
    du = DefUse(b)
    n = 0
    for bid, blk in b.blocks.items():
        if blk.cleanup:
            continue
        for s in blk.stmts:
            if s.kind != 'assign':
                continue
            m = re.match(r'^(?:move|copy) (_\d+) as i128 \(IntToInt\)$', s.rhs)
            if not m:
                continue
            src = int(m.group(1)[1:])
            d = du.single_def(src)
            from_sub = False
            if d and d[1] == 'stmt':
                if re.match(r'^(Sub|SubWithOverflow|SubUnchecked)\(', d[2].rhs):
                    from_sub = True
                mm = re.match(r'^move \((_\d+)\.0: i64\)$', d[2].rhs)
                if mm:
                    d2 = du.single_def(int(mm.group(1)[1:]))
                    if d2 and d2[1] == 'stmt' and re.match(r'^SubWithOverflow\(', d2[2].rhs):
                        from_sub = True
            n += 1
            ctx.check('FLW-12', 'determine_delta_compressability|cast-operand', not from_sub,
                      'operand of `as i128` is %s' % ('the result of an i64 subtraction: '
                                                     '[i64::MIN, i64::MAX] overflows before widening'
                                                     if from_sub else 'a plain i64 value'),
                      where(s))
    ctx.require(n >= 2, 'FLW-12: fewer than 2 widening casts in determine_delta_compressability')
    # and the differences themselves are i128 subtractions
    subs = [s for blk in b.blocks.values() if not blk.cleanup for s in blk.stmts
            if s.kind == 'assign' and re.match(r'^(Sub|SubWithOverflow)\(', s.rhs)]
    tys = {b.local_type(base_local(s.lhs)) for s in subs}
    ctx.check('FLW-12', 'determine_delta_compressability|subtractions-in-i128',
              bool(subs) and all(t in ('i128', '(i128, bool)') for t in tys),
              'all differences are computed in i128 (types: %s)' % sorted(t or '?' for t in tys),
              where(subs[0]) if subs else None)


# ------------------------------------------------------------------------------------ FLT-1
_CMP = re.compile(r'^(Eq|Ne|Lt|Le|Gt|Ge)\((.*), (.*)\)$')


def float_comparisons(body):
    """Statements of `body` that compare two floating point values (MIR `Eq/Ne/Lt/..` whose operand
    has type f64/f32, and calls of PartialEq/PartialOrd methods on floats)."""
    body.parse()
    out = []
    for bid, blk in body.blocks.items():
        if blk.cleanup:
            continue
        for s in blk.stmts:
            if s.kind != 'assign':
                continue
            m = _CMP.match(s.rhs.strip())
            if not m:
                continue
            for op in (m.group(2), m.group(3)):
                op = op.strip()
                if re.match(r'^const .*_?f(64|32)$', op):
                    out.append(s)
                    break
                l = base_local(op)
                if l is not None and re.match(r'^(\(\*)?_\d+\)?$', op.split(' ', 1)[-1]) and \
                        (body.local_type(l) or '').strip() in ('f64', 'f32', '&f64', '&f32'):
                    out.append(s)
                    break
        t = blk.term
        if t is not None and t.kind == 'call' and re.search(
                r'<f(64|32) as (std|core)::cmp::Partial(Eq|Ord)(<f(64|32)>)?>::(eq|ne|lt|le|gt|ge|partial_cmp)$',
                (t.func or '').split('(')[0]):
            out.append(t)
    return out


def flt1_lossless_float_codec_compares_bits(ctx):
    ctx.rule('FLT-1', 'the lossless float stream codec never branches on a floating point comparison: '
                      '`==` on f64 identifies 0.0 with -0.0 and separates equal NaN patterns, so a '
                      '"same as previous value" shortcut must compare bit patterns', floor=3)
    P = ctx.P
    scope = [b for b in P.fn_bodies() if b.crate != 'locustdb' and '::xor_float::' in ('::' + b.name)
             and b.kind == 'fn']
    names = sorted({b.name for b in scope})
    ctx.require(len([n for n in names if n.endswith(('::encode', '::decode', '::verbose_encode'))]) >= 3,
                'FLT-1: xor_float encode/decode bodies not found (%s)' % names[:8])
    for b in sorted(scope, key=lambda x: x.name):
        fc = float_comparisons(b)
        if fc:
            for i, s in enumerate(fc):
                ctx.violation('FLT-1', '%s|float-comparison%s' % (b.name, '' if i == 0 else '#%d' % (i + 1)),
                              'floating point comparison `%s` in the lossless float codec: values with '
                              'equal numeric value but different bit patterns (0.0 / -0.0) are '
                              'conflated, NaN patterns are never equal' % getattr(s, 'code', s), where(s))
        elif b.name.endswith(('::encode', '::decode', '::verbose_encode')):
            ctx.ok('FLT-1', '%s|bit-comparisons-only' % b.name,
                   'no f64/f32 comparison in the body; values are related through to_bits()/XOR',
                   where(b.blocks[0].term))


# ------------------------------------------------------------------------------------ FLT-2
def _narrowing_sites(body):
    """(stmt, dst, src) for `_d = copy _s as f32 (FloatToFloat)` and the back-casts
    `_e = move _d as f64 (FloatToFloat)` in a body."""
    body.parse()
    down, up = [], []
    for bid, blk in body.blocks.items():
        if blk.cleanup:
            continue
        for s in blk.stmts:
            if s.kind != 'assign':
                continue
            m = re.match(r'^(?:move|copy) (.+) as (f32|f64) \(FloatToFloat\)$', s.rhs.strip())
            if not m:
                continue
            (down if m.group(2) == 'f32' else up).append((bid, s, base_local(s.lhs), base_local(m.group(1))))
    return down, up


def flt2_exact_narrowing_test(ctx):
    ctx.rule('FLT-2', 'a float section is stored as f32 only if every value survives the round trip '
                      'f64 -> f32 -> f64 *exactly*: the round-tripped value is used in an equality '
                      'test only (no tolerance arithmetic), and the narrowing store is guarded by '
                      'that test', floor=2)
    P = ctx.P
    tests = {}     # body name -> exact round-trip test present
    n = 0
    for b in P.fn_bodies():
        if b.crate != 'locustdb':
            continue
        down, up = _narrowing_sites(b)
        if not down:
            continue
        du = DefUse(b)
        dsts = {d for (_bid, _s, d, _src) in down}
        for (bid, s, d, src) in up:
            org = du.origins(src)
            if not (org['locals'] & dsts):
                continue      # widening of a genuine f32 value, not a round trip
            n += 1
            fw = du.forward(d)
            bad = None
            exact = False
            for l in fw:
                for (b2, kind, obj) in du.uses.get(l, []):
                    if kind == 'stmt' and obj.kind == 'assign':
                        r = obj.rhs.strip()
                        if re.match(r'^(Eq|Ne)\(', r):
                            exact = True
                        elif re.match(r'^(Sub|Add|Mul|Div|Rem|Lt|Le|Gt|Ge)(WithOverflow|Unchecked)?\(', r) or r.startswith('Neg('):
                            bad = obj
                    elif kind == 'term' and obj.kind == 'call':
                        f = norm_callee(obj.func or '')
                        if re.search(r'(f64|f32)::(abs|sub|max|min|mul_add|powi|sqrt)$', f) or \
                                re.search(r'PartialOrd.*::(lt|le|gt|ge|partial_cmp)$', f) or f.endswith('::abs_sub'):
                            bad = obj
                        elif f.endswith('::to_bits') or re.search(r'PartialEq.*::(eq|ne)$', f):
                            exact = True
            tests[b.name] = exact and bad is None
            ctx.check('FLT-2', '%s|round-trip-compared-exactly' % b.name, exact and bad is None,
                      'the value cast f64 -> f32 -> f64 is compared with the original by equality'
                      if exact and bad is None else
                      'the round-tripped value enters %s: a tolerance accepts values that do not '
                      'survive the narrowing, they come back changed' % (getattr(bad, 'code', bad) or 'no comparison at all'),
                      where(bad if bad is not None else s))
    ctx.require(n >= 1, 'FLT-2: no f64 -> f32 -> f64 round-trip test found (anchor)')
    # storing narrowings: a narrowing whose result is not cast back must sit behind an `all(..)`
    # of an exact test in the function that owns the closure
    from .durability import top_function
    from mirlib import inline as _inl
    g = _inl._helper_graph(P, True)
    m = 0
    for b in P.fn_bodies():
        if b.crate != 'locustdb':
            continue
        down, up = _narrowing_sites(b)
        du = DefUse(b)
        upsrc = set()
        for (_bid, _s, _d, src) in up:
            upsrc |= du.origins(src)['locals']
        storing = [(bid, s) for (bid, s, d, _src) in down if d not in upsrc]
        if not storing:
            continue
        top = top_function(P, b)
        top.parse()
        cfg = CFG(top)
        duT = DefUse(top)
        # the call in `top` that uses this closure
        use_blocks = [blk.id for blk, t in top.calls() if not blk.cleanup and b in P.closures_in_text(t.func or '')] \
            if top is not b else [storing[0][0]]
        for blk in top.blocks.values():
            for s_ in blk.stmts:
                if top is not b and s_.kind == 'assign' and s_.rhs.startswith('{') and b in P.closures_in_text(s_.rhs.split('}')[0] + '}'):
                    use_blocks.append(blk.id)
        guards = []
        for blk, t in top.calls():
            if blk.cleanup or not re.search(r'Iterator>::all::<', t.func or ''):
                continue
            cl = P.closures_in_text(t.func)
            okc = False
            for c in cl:
                seen, work = set(), [c.name]
                while work:
                    x = work.pop()
                    if x in seen:
                        continue
                    seen.add(x)
                    if tests.get(x):
                        okc = True
                    work.extend(g.get(x, ()))
            if not okc:
                continue
            r = base_local(t.dest)
            for (b3, k3, o3) in duT.uses.get(r, []):
                if k3 == 'term' and o3.kind == 'switch':
                    guards += [tg for (v, tg) in o3.targets if v != '0']
        m += 1
        ok = bool(use_blocks) and all(any(cfg.dominates(gd, ub) for gd in guards) for ub in use_blocks)
        ctx.check('FLT-2', '%s|narrowing-store-guarded' % b.name, ok,
                  'values are narrowed to f32 for storage only on the true edge of an `all(..)` over the '
                  'exact round-trip test (%d guard edge(s))' % len(guards), where(storing[0][1]))
    ctx.require(m >= 1, 'FLT-2: no narrowing store found (anchor)')
