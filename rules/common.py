"""Shared MIR query helpers for the rule modules."""
import re

from mirlib.cfg import CFG
from mirlib.dataflow import DefUse, base_local, locals_in, operand_place
from mirlib.program import norm_callee

PANIC_FNS = ('core::panicking::panic', 'core::panicking::panic_fmt', 'std::rt::begin_panic',
             'core::panicking::panic_display', 'core::panicking::unreachable_display',
             'core::panicking::assert_failed', 'core::panicking::panic_explicit',
             'std::rt::panic_fmt', 'core::panicking::panic_nounwind',
             'core::option::unwrap_failed', 'core::result::unwrap_failed',
             'core::option::expect_failed', 'core::panicking::panic_str_2015',
             'core::panicking::assert_matches_failed', 'core::panicking::panic_const')

RESULT_ADAPTERS = ('map_err', 'map', 'or_else', 'and_then', 'context', 'with_context', 'ok_or',
                   'ok_or_else', 'map_or', 'inspect_err')


def calls_matching(body, pred):
    """[(block, term)] of call terminators in non-cleanup blocks whose normalised callee satisfies
    pred (string equality, tuple of alternatives, or callable)."""
    body.parse()
    out = []
    for bid in sorted(body.blocks):
        blk = body.blocks[bid]
        if blk.cleanup or blk.term is None or blk.term.kind != 'call':
            continue
        n = norm_callee(blk.term.func)
        if callable(pred):
            ok = pred(n)
        elif isinstance(pred, (tuple, list, set)):
            ok = n in pred
        else:
            ok = n == pred
        if ok:
            out.append((blk, blk.term))
    return out


def is_result_type(ty):
    return ty is not None and re.match(r'^(std|core)::result::Result<', ty) is not None


def method_of(func):
    n = norm_callee(func)
    return n.split('::')[-1]


def classify_result_use(body, du, term, _depth=0):
    """How is the value produced by call `term` consumed?  Returns dict(kind, success_block, via).
    kind in: 'try' (? operator), 'unwrap', 'match', 'returned', 'passed', 'dropped'."""
    d = base_local(term.dest)
    return _classify_local(body, du, d, _depth)


def _classify_local(body, du, d, depth):
    if depth > 8 or d is None:
        return {'kind': 'unknown', 'success_block': None}
    results = []
    for (bid, kind, obj) in du.uses.get(d, []):
        if kind == 'term' and obj.kind == 'call':
            n = norm_callee(obj.func)
            m = n.split('::')[-1]
            if n.endswith(' as Try>::branch'):
                r = base_local(obj.dest)
                succ = None
                # find discriminant read + switch
                for (b2, k2, o2) in du.uses.get(r, []):
                    if k2 == 'stmt' and o2.rhs and o2.rhs.startswith('discriminant('):
                        dl = base_local(o2.lhs)
                        for (b3, k3, o3) in du.uses.get(dl, []):
                            if k3 == 'term' and o3.kind == 'switch':
                                for (val, tgt) in o3.targets:
                                    if val == '0':
                                        succ = tgt
                results.append({'kind': 'try', 'success_block': succ, 'via': bid})
            elif m in ('unwrap', 'expect', 'unwrap_or_else', 'unwrap_or', 'unwrap_or_default') and \
                    ('Result' in n or 'Option' in n):
                results.append({'kind': 'unwrap' if m in ('unwrap', 'expect') else 'defaulted',
                                'success_block': obj.target, 'via': bid})
            elif m in RESULT_ADAPTERS and ('Result' in n or 'Option' in n):
                results.append(_classify_local(body, du, base_local(obj.dest), depth + 1))
            elif m in ('is_ok', 'is_err', 'is_some', 'is_none'):
                results.append({'kind': 'match', 'success_block': None, 'via': bid})
            elif n.endswith('::drop') and 'mem' in n:
                results.append({'kind': 'dropped', 'success_block': None, 'via': bid})
            else:
                results.append({'kind': 'passed', 'success_block': None, 'via': bid, 'to': n})
        elif kind == 'stmt':
            if obj.rhs and obj.rhs.startswith('discriminant('):
                # `match r { Ok(..) => .., Err(..) => .. }`: the Ok edge is discriminant 0 for a
                # Result (Some is 1 for an Option)
                succ = None
                ty = body.local_type(d) or ''
                want = '0' if 'result::Result<' in ty else ('1' if 'option::Option<' in ty else None)
                dl = base_local(obj.lhs)
                for (b3, k3, o3) in du.uses.get(dl, []):
                    if k3 == 'term' and o3.kind == 'switch' and want is not None:
                        for (val, tgt) in o3.targets:
                            if val == want:
                                succ = tgt
                        if succ is None and want == '0':
                            oth = [tgt for (val, tgt) in o3.targets if val == 'otherwise']
                            if oth and any(val == '1' for (val, _t) in o3.targets):
                                succ = oth[0]
                results.append({'kind': 'match', 'success_block': succ, 'via': bid})
            elif obj.kind == 'assign':
                tgt = base_local(obj.lhs)
                if tgt == 0:
                    results.append({'kind': 'returned', 'success_block': None, 'via': bid})
                elif tgt is not None and tgt != d:
                    results.append(_classify_local(body, du, tgt, depth + 1))
        elif kind == 'term' and obj.kind == 'switch':
            results.append({'kind': 'match', 'success_block': None, 'via': bid})
    if d == 0:
        results.append({'kind': 'returned', 'success_block': None})
    order = ['try', 'unwrap', 'match', 'returned', 'defaulted', 'passed', 'unknown', 'dropped']
    results = [r for r in results if r]
    if not results:
        return {'kind': 'dropped', 'success_block': None}
    results.sort(key=lambda r: order.index(r['kind']) if r['kind'] in order else 99)
    return results[0]


def where(term_or_stmt):
    sp = getattr(term_or_stmt, 'span', None)
    return sp.short() if sp else None


def fn_short(body):
    return body.name


def blocks_assigning_ok_return(body):
    """Blocks where the return place is assigned an `Ok(..)` aggregate (success returns)."""
    out = []
    for bid, blk in body.blocks.items():
        if blk.cleanup:
            continue
        for s in blk.stmts:
            if s.kind == 'assign' and s.lhs == '_0' and re.search(r'Result::<.*>::Ok\(', s.rhs):
                out.append(bid)
    return out


def err_return_blocks(body):
    out = []
    for bid, blk in body.blocks.items():
        if blk.cleanup:
            continue
        t = blk.term
        if t and t.kind == 'call' and t.dest == '_0' and 'from_residual' in (t.func or ''):
            out.append(bid)
        for s in blk.stmts:
            if s.kind == 'assign' and s.lhs == '_0' and re.search(r'Result::<.*>::Err\(', s.rhs):
                out.append(bid)
    return out


# ---------------------------------------------------------------------------- worlds
KEY_TYPES = {}


def option_guard_worlds(body, du, max_keys=2):
    """Correlated `Option` guards.  A guard key is the access path of the receiver of a pure
    `Option::as_ref`/`is_some`/`is_none` call rooted at an argument with field steps only (an
    immutable field of `&self`), or a local `Option` assigned exactly once.  Every switchInt on the
    discriminant of such a value is specialised consistently.
    Returns [(label, removed_edges, {key: outcome})]; always at least the unspecialised world."""
    guards = {}   # key -> list of (switch block id, some_targets, none_targets)
    for bid, blk in body.blocks.items():
        if blk.cleanup or blk.term is None or blk.term.kind != 'switch':
            continue
        dl = base_local(blk.term.discr)
        d = du.single_def(dl) if dl is not None else None
        if not d or d[1] != 'stmt' or not d[2].rhs.startswith('discriminant('):
            continue
        opt = base_local(d[2].rhs)
        ty = body.local_type(opt) or ''
        if 'option::Option<' not in ty.split('<')[0] + '<':
            continue
        key = None
        od = du.single_def(opt)
        if od and od[1] == 'term' and norm_callee(od[2].func).endswith('Option::as_ref'):
            root, steps = du.access_path(od[2].args[0])
        else:
            root, steps = du.access_path('copy _%d' % opt)
        if root[0] == 'arg' and steps:
            key = 'arg%d.%s' % (root[1], '.'.join(map(str, steps)))
        elif root[0] == 'local':
            # a local Option: usable as a guard key only if it is assigned exactly once
            if len(du.defs.get(root[1], [])) == 1:
                key = 'local%d%s' % (root[1], ''.join('.%d' % x for x in steps))
        elif root[0] == 'call':
            key = 'local@bb%d%s' % (root[2], ''.join('.%d' % x for x in steps))
        if key is None:
            continue
        some_t = [t for (v, t) in blk.term.targets if v == '1']
        none_t = [t for (v, t) in blk.term.targets if v in ('0', 'otherwise')]
        guards.setdefault(key, []).append((bid, some_t, none_t))
        KEY_TYPES[(body.name, key)] = ty
    keys = [k for k, v in guards.items() if k.startswith('arg') or len(v) >= 1]
    # one world per key and outcome (never combinations): no cap is needed, and a cap would drop the
    # key a rule is looking for once a function has many Option locals
    keys = sorted(keys)
    worlds = [('all-paths', set(), {})]
    for k in keys:
        for outcome in ('Some', 'None'):
            removed = set()
            for (bid, some_t, none_t) in guards[k]:
                for t in (none_t if outcome == 'Some' else some_t):
                    removed.add((bid, t))
            worlds.append(('%s=%s' % (k, outcome), removed, {k: outcome}))
    return worlds, guards


def helper_closure(P, allowed):
    """`allowed` plus every crate function all of whose (resolved) callers are in the closure:
    a private helper extracted from an allowed function inherits its permission. A function with
    no resolved caller is never added (it may be called through a pointer or from outside)."""
    callers = P.callers()
    top = {}

    def topname(n):
        if n not in top:
            i = n.find('::{closure')
            top[n] = n[:i] if i >= 0 else n
        return top[n]
    out = set(allowed)
    changed = True
    while changed:
        changed = False
        for b in P.fn_bodies():
            if b.name in out or '{closure' in b.name:
                continue
            cs = {topname(c) for (c, kind, _b) in callers.get(b.name, [])}
            cs.discard(b.name)
            if cs and cs <= out:
                out.add(b.name)
                changed = True
    return out


def inlined_anchor(P, body, pred, keep=()):
    """`body` with every crate helper that (transitively) performs a call satisfying pred(norm
    callee) spliced in (see mirlib/inline.py); the body itself when there is nothing to inline.
    keep: name suffixes of callees that are events of the rule themselves and must stay calls."""
    from mirlib import inline as _inl
    reach = _inl.reaches(P, pred)
    want = (lambda g: reach(g) and not g.name.endswith(tuple(keep))) if keep else reach
    nb = _inl.inline(P, body, want)
    return nb if nb.inlined else body


def topmost_reaching(P, pred, crate='locustdb'):
    """Crate functions that reach a call satisfying pred through uniquely resolved crate callees
    and are not themselves called (uniquely resolved) from another such function: the outermost
    function of a protocol whose steps may have been split over helpers."""
    from mirlib import inline as _inl
    want = _inl.reaches(P, pred)
    R = [b for b in P.fn_bodies() if b.crate == crate and b.kind == 'fn' and want(b)]
    names = {b.name for b in R}
    inner = set()
    for b in R:
        for blk, t in b.calls():
            if blk.cleanup or not t.func:
                continue
            cs = P.resolve(t.func, b.crate)
            if len(cs) == 1 and cs[0].name in names and cs[0].name != b.name:
                inner.add(cs[0].name)
    return [b for b in R if b.name not in inner]


def protocol_anchor(P, required, inline_pred, crate='locustdb'):
    """The function(s) that contain a whole protocol whose steps may have been split over helpers:
    the *innermost* crate functions from which every call in `required` (list of predicates over
    normalised callee names) is reachable (uniquely resolved callees + closures), with every helper
    that reaches a call satisfying inline_pred spliced in."""
    from mirlib import inline as _inl
    wants = [_inl.reaches(P, r, crate=crate) for r in required]
    Q = [b for b in P.fn_bodies() if b.crate == crate and b.kind == 'fn' and '{closure' not in b.name
         and all(w(b) for w in wants)]
    names = {b.name for b in Q}
    g = _inl._helper_graph(P, True)
    outer = set()
    for b in Q:
        seen = set()
        work = list(g.get(b.name, ()))
        while work:
            x = work.pop()
            if x in seen or x == b.name:
                continue
            seen.add(x)
            if x in names:
                outer.add(b.name)
                break
            work.extend(g.get(x, ()))
    inner = [b for b in Q if b.name not in outer]
    return [inlined_anchor(P, b, inline_pred) for b in inner]
