"""Panic-source enumeration and the PAN / ERV / OPT rule families."""
import re

from mirlib.cfg import CFG
from mirlib.dataflow import DefUse, base_local, operand_place, locals_in
from mirlib.program import norm_callee, strip_generic_args, split_qualified
from . import common
from .common import calls_matching, where

UNWRAP_RE = re.compile(r'^(?:std|core)::(option::Option|result::Result)::<(.*)>::(unwrap|expect|unwrap_err|expect_err|unwrap_unchecked)$')
INDEX_RE = re.compile(r'^<(.*) as (?:std|core)::ops::(Index|IndexMut)<(.*)>>::(index|index_mut)$')
IGNORED_ASSERTS = ('null pointer dereference occurred', 'misaligned pointer dereference',
                   '`async fn` resumed', '`gen fn`', 'coroutine resumed', '`async gen fn`')


class PanicSource:
    __slots__ = ('body', 'bid', 'term', 'kind', 'what', 'operand', 'role')

    def __init__(self, body, bid, term, kind, what, operand=None):
        self.body = body
        self.bid = bid
        self.term = term
        self.kind = kind          # 'unwrap' | 'panic' | 'assert' | 'index'
        self.what = what          # short role text, no line numbers
        self.operand = operand
        self.role = None

    def where(self):
        return self.term.span.short() if self.term.span else None


def is_poison_unwrap(func):
    return 'PoisonError<' in func or 'sync::LockResult' in func or 'TryLockError<' in func


def panic_sources(body, include_poison=False):
    """Explicit panic sources of a body (non-cleanup blocks)."""
    body.parse()
    out = []
    for bid in sorted(body.blocks):
        blk = body.blocks[bid]
        t = blk.term
        if blk.cleanup or t is None:
            continue
        if t.kind == 'assert':
            msg = t.msg or ''
            if any(x in msg for x in IGNORED_ASSERTS):
                continue
            short = msg.strip('"')
            short = re.sub(r'[`{}]', '', short)
            out.append(PanicSource(body, bid, t, 'assert', 'assert:' + short.strip()[:60],
                                   t.cond))
        elif t.kind == 'call':
            f = t.func or ''
            m = UNWRAP_RE.match(f)
            if m:
                if not include_poison and is_poison_unwrap(f):
                    continue
                ty = m.group(1).split('::')[-1]
                out.append(PanicSource(body, bid, t, 'unwrap', '%s::%s<%s>' % (
                    ty, m.group(3), short_ty(m.group(2))), t.args[0] if t.args else None))
                continue
            n = strip_generic_args(f) if not f.startswith('<') else None
            if n and (n.startswith('core::panicking::') or n.startswith('std::rt::begin_panic')
                      or n in ('std::rt::panic_fmt', 'core::option::unwrap_failed',
                               'core::result::unwrap_failed', 'core::option::expect_failed',
                               'core::slice::index::slice_end_index_len_fail',
                               'core::slice::index::slice_start_index_len_fail',
                               'core::str::slice_error_fail')):
                msg = ''
                if t.args and t.args[0].startswith('const "'):
                    msg = t.args[0][7:-1][:50]
                out.append(PanicSource(body, bid, t, 'panic', 'panic:%s %s' % (n.split('::')[-1], msg)))
                continue
            mi = INDEX_RE.match(f)
            if mi:
                out.append(PanicSource(body, bid, t, 'index', 'index:%s[%s]' % (
                    short_ty(mi.group(1)), short_ty(mi.group(3))), t.args[0] if t.args else None))
    return out


def short_ty(t):
    t = re.sub(r"'[a-z_]+ ?", '', t)
    t = re.sub(r'(?:[A-Za-z_][A-Za-z0-9_]*::)+', '', t)
    return t[:80]


# ---------------------------------------------------------------------------- safe idioms
def guarded_by_len_or_check(body, du, cfg, ps):
    """Recognised safe idioms:
    (1) constant index `v[k]` dominated by the success edge of a comparison of `v.len()` (same
        access path) with a constant that implies len > k;
    (2) `x.unwrap()` dominated by the true edge of `x.is_some()` / `x.is_ok()` on the same place.
    Returns a reason string or None."""
    t = ps.term
    if ps.kind == 'index' and ps.what.endswith('[RangeFull]'):
        return 'full-range slice `v[..]` cannot fail'
    if ps.kind == 'index' and len(t.args) == 2 and t.args[1].startswith('const '):
        m = re.match(r'^const (\d+)_usize$', t.args[1])
        if not m:
            return None
        k = int(m.group(1))
        recv = du.access_path(t.args[0])
        for (bid, blk) in body.blocks.items():
            if blk.cleanup or blk.term is None or blk.term.kind != 'switch':
                continue
            dl = base_local(blk.term.discr)
            d = du.single_def(dl)
            if not d or d[1] != 'stmt':
                continue
            mm = re.match(r'^(Eq|Ge|Gt|Ne|Lt|Le)\((.*), const (\d+)_usize\)$', d[2].rhs)
            if not mm:
                continue
            op, lhs, n = mm.group(1), mm.group(2), int(mm.group(3))
            ll = base_local(lhs)
            ld = du.single_def(ll)
            if not ld or ld[1] != 'term' or not norm_callee(ld[2].func).endswith('::len'):
                continue
            if du.access_path(ld[2].args[0]) != recv:
                continue
            # edges on which len > k is known
            good = []
            for (val, tgt) in blk.term.targets:
                truth = (val != '0')
                if op == 'Eq' and truth and n > k:
                    good.append(tgt)
                elif op == 'Ge' and truth and n > k:
                    good.append(tgt)
                elif op == 'Gt' and truth and n >= k:
                    good.append(tgt)
                elif op == 'Lt' and not truth and n > k:
                    good.append(tgt)
                elif op == 'Le' and not truth and n >= k:
                    good.append(tgt)
                elif op == 'Ne' and not truth and n > k:
                    good.append(tgt)
            if any(cfg.dominates(g, ps.bid) and g != bid for g in good):
                return 'index %d under a len()-guard (%s %d)' % (k, op, n)
        if k == 0:
            # `!v.is_empty() && v[0]...`
            for (bid, blk) in body.blocks.items():
                if blk.cleanup or blk.term is None or blk.term.kind != 'switch':
                    continue
                dl = base_local(blk.term.discr)
                d = du.single_def(dl)
                neg = False
                if d and d[1] == 'stmt' and d[2].rhs.startswith('Not('):
                    neg = True
                    d = du.single_def(base_local(d[2].rhs))
                if not d or d[1] != 'term' or not norm_callee(d[2].func).endswith('::is_empty'):
                    continue
                if du.access_path(d[2].args[0]) != recv:
                    continue
                for (val, tgt) in blk.term.targets:
                    truth = (val != '0')
                    nonempty = truth if neg else (not truth)
                    if nonempty and cfg.dominates(tgt, ps.bid) and tgt != bid:
                        return 'index 0 under !is_empty()'
        return None
    if ps.kind == 'unwrap' and t.args:
        recv = du.access_path(t.args[0])
        for (bid, blk) in body.blocks.items():
            if blk.cleanup or blk.term is None or blk.term.kind != 'switch':
                continue
            dl = base_local(blk.term.discr)
            d = du.single_def(dl)
            if not d or d[1] != 'term':
                continue
            n = norm_callee(d[2].func)
            meth = n.split('::')[-1]
            if meth not in ('is_some', 'is_ok', 'is_none', 'is_err'):
                continue
            other = du.access_path(d[2].args[0])
            if other != recv and not _same_pure_call(du, d[2].args[0], t.args[0]):
                continue
            for (val, tgt) in blk.term.targets:
                truth = (val != '0')
                if (meth in ('is_some', 'is_ok')) == truth and cfg.dominates(tgt, ps.bid) and tgt != bid:
                    return 'unwrap under %s()' % meth
    return None


PURE_REPEATABLE = ('core::str::<impl str>::parse', 'core::str::parse')


def _same_pure_call(du, a, b):
    """Both operands are results of the same pure library call on the same receiver
    (`s.parse::<T>().is_ok()` followed by `s.parse::<T>().unwrap()`)."""
    ra, sa = du.access_path(a)
    rb, sb = du.access_path(b)
    if ra[0] != 'call' or rb[0] != 'call' or sa or sb:
        return False
    ta = du.body.blocks[ra[2]].term
    tb = du.body.blocks[rb[2]].term
    if ta.func != tb.func or len(ta.args) != len(tb.args):
        return False
    n = ta.func
    if not re.match(r'^core::str::<impl str>::parse::<.*>$', n):
        return False
    return all(du.access_path(x) == du.access_path(y) for x, y in zip(ta.args, tb.args))


# ---------------------------------------------------------------------------- PAN scope rule
def pan_scope(ctx, rule, roots, scope_pred, exceptions, floor_bodies, describe):
    """No explicit panic source in the bodies reachable (synchronously) from roots that satisfy
    scope_pred(body). exceptions: {(fn name, what): reason}."""
    P = ctx.P
    reach = P.reachable_bodies(roots)
    bodies = [P.body(n) for n in reach]
    bodies = [b for b in bodies if b is not None and scope_pred(b)]
    ctx.require(len(bodies) >= floor_bodies, '%s: scope has %d bodies (< %d)' % (rule, len(bodies), floor_bodies))
    ctx.extra.setdefault('scopes', {})[rule] = sorted(b.name for b in bodies)
    used = set()
    n_sources = 0
    for b in sorted(bodies, key=lambda x: x.name):
        du = None
        cfg = None
        for ps in panic_sources(b):
            n_sources += 1
            if du is None:
                du = DefUse(b)
                cfg = CFG(b)
            idiom = guarded_by_len_or_check(b, du, cfg, ps)
            key = '%s|%s' % (b.name, ps.what)
            if idiom:
                ctx.ok(rule, key, 'safe idiom: ' + idiom, ps.where())
                continue
            ek = (b.name, ps.what)
            if ek in exceptions:
                used.add(ek)
                ctx.exception(rule, '%s %s' % ek, exceptions[ek])
                ctx.ok(rule, key, 'tabled: ' + exceptions[ek], ps.where())
                continue
            ctx.violation(rule, key, '%s: explicit panic source %s' % (describe, ps.what), ps.where())
    if n_sources == 0:
        ctx.ok(rule, 'scope-clean', 'no explicit panic source in %d bodies' % len(bodies))
    stale = set(exceptions) - used
    for ek in sorted(stale):
        ctx.note('%s: exception table row no longer matches anything: %s %s' % ((rule,) + ek))
    return bodies


# ---------------------------------------------------------------------------- ERV
ERR_TYPES = ('errors::QueryError', 'futures::channel::oneshot::Canceled', 'futures_channel::oneshot::Canceled')


def erv_scope(ctx, rule, bodies, exceptions, describe, err_types=ERR_TYPES):
    """In the given bodies no Result<_, E> with E in err_types reaches unwrap/expect."""
    used = set()
    n = 0
    for b in sorted(bodies, key=lambda x: x.name):
        for ps in panic_sources(b):
            if ps.kind != 'unwrap':
                continue
            f = ps.term.func
            m = UNWRAP_RE.match(f)
            if not m or not m.group(1).endswith('Result'):
                continue
            tyargs = m.group(2)
            if not any(e in tyargs for e in err_types):
                continue
            n += 1
            key = '%s|%s' % (b.name, ps.what)
            ek = (b.name, ps.what)
            if ek in exceptions:
                used.add(ek)
                ctx.exception(rule, '%s %s' % ek, exceptions[ek])
                ctx.ok(rule, key, 'tabled: ' + exceptions[ek], ps.where())
            else:
                ctx.violation(rule, key, '%s: a request-level error value is unwrapped (%s)'
                              % (describe, ps.what), ps.where())
    for ek in sorted(set(exceptions) - used):
        ctx.note('%s: exception table row no longer matches anything: %s %s' % ((rule,) + ek))
    return n
