"""Request-shell rules: PAN-2, PAN-3 (C12), ERV-1/2/3 (C06, C11, C12, C17), ORD-9 (C17)."""
import re

from mirlib.cfg import CFG
from mirlib.dataflow import DefUse, base_local
from mirlib.program import norm_callee, strip_generic_args
from . import panics
from .common import calls_matching, where, classify_result_use

PAN2_EXCEPTIONS = {
    ('syntax::parser::get_raw_val', 'Result::unwrap<f64, ParseFloatError>'):
        'the operand is a Number token: sqlparser\'s tokenizer only produces digits[.digits]'
        '[e[+-]digits], every such string is accepted by f64::from_str (overflow gives inf)',
}
PAN3_EXCEPTIONS = {
    ('engine::execution::query_task::QueryTask::new', 'Option::unwrap<Vec<String>>'):
        'is_select_star() <=> the select list is the single column "*" <=> find_referenced_cols() '
        'contains "*", in which case run_query passes Some(names); structural half checked by '
        'PAN-3|select-star-literals-agree',
}


def pan2_parse_layer(ctx):
    ctx.rule('PAN-2', 'no explicit panic source in the text -> AST -> Query conversion '
                      '(syntax::parser and its crate-local callees)', floor=5)
    P = ctx.P
    root = P.one('syntax::parser::parse_query')
    return panics.pan_scope(ctx, 'PAN-2', [root], lambda b: b.name.startswith('syntax::'),
                            PAN2_EXCEPTIONS, 12, 'query text can reach it')


PAN3_FNS = ['Query::normalize', 'Query::extract_aggregators', 'Query::ensure_no_aggregates',
            'Query::is_select_star', 'Query::find_referenced_cols', 'QueryTask::new',
            'LocustDB::run_query']


def pan3_task_construction(ctx):
    ctx.rule('PAN-3', 'no explicit panic source between a parsed Query and the scheduled task',
             floor=3)
    P = ctx.P
    bodies = []
    for pat in PAN3_FNS:
        for b in P.find(pat):
            if b.crate != 'locustdb':
                continue
            bodies.append(b)
            bodies += P.closures_of(b)
    ctx.require(len(bodies) >= 8, 'PAN-3: scope functions not found')
    ctx.extra.setdefault('scopes', {})['PAN-3'] = sorted(b.name for b in bodies)
    used = set()
    for b in sorted(bodies, key=lambda x: x.name):
        du = DefUse(b)
        cfg = CFG(b)
        for ps in panics.panic_sources(b):
            key = '%s|%s' % (b.name, ps.what)
            idiom = panics.guarded_by_len_or_check(b, du, cfg, ps)
            if idiom:
                ctx.ok('PAN-3', key, 'safe idiom: ' + idiom, ps.where())
                continue
            ek = (b.name, ps.what)
            if ek in PAN3_EXCEPTIONS:
                used.add(ek)
                ctx.exception('PAN-3', '%s %s' % ek, PAN3_EXCEPTIONS[ek])
                ctx.ok('PAN-3', key, 'tabled: ' + PAN3_EXCEPTIONS[ek][:80], ps.where())
                continue
            ctx.violation('PAN-3', key, 'explicit panic source on the path from a parsed query to '
                                        'the scheduled task: %s' % ps.what, ps.where())
    # structural half of the tabled implication: both predicates test the same literal
    ast = ctx.ast
    from mirlib import astlib
    lits = {}
    for qual in ('Query::is_select_star', 'Query::find_referenced_cols'):
        fn = ast.fn(qual, 'engine/planning/query.rs')
        lits[qual] = set(astlib.strings_in(fn))
    rq = ast.fn('LocustDB::run_query', 'src/locustdb.rs')
    lits['run_query'] = set(astlib.strings_in(rq))
    star_everywhere = '*' in lits['Query::is_select_star'] and '*' in lits['run_query']
    ctx.check('PAN-3', 'select-star-literals-agree', star_everywhere,
              'is_select_star and run_query (which supplies the column list) test the same literal '
              '"*": %s' % {k: sorted(x for x in v if len(x) < 3) for k, v in lits.items()})


# ------------------------------------------------------------------------------------ ERV
ERV2_SCOPE = ['LocustDB::run_query', 'LocustDB::load_csv', 'LocustDB::search_column_names',
              'InnerLocustDB::schedule_query_column_names', 'InnerLocustDB::query_column_names',
              'InnerLocustDB::column_names_task',
              'QueryTask::new', 'QueryTask::run', 'QueryTask::combine_results',
              'QueryTask::push_result', 'QueryTask::fail_with', 'QueryTask::fail_with_no_lock',
              'QueryTask::convert_to_output_format', '<FnTask<F, T> as Task>::execute',
              '<QueryTask as Task>::execute']
ERV2_EXCEPTIONS = {
    ('scheduler::inner_locustdb::InnerLocustDB::column_names_task',
     'Result::unwrap<QueryTask, QueryError>'):
        'QueryTask::new on the built-in query `SELECT column_name FROM _meta_columns_<t>`: no '
        'aggregates, no star, normalisation cannot fail',
    ('server::index::register::index::{closure#0}', 'Result::unwrap<Vec<TableStats>, Canceled>'):
        'statistics task has no failing path; Canceled only if a worker already died',
    ('server::tables::register::tables::{closure#0}', 'Result::unwrap<Vec<TableStats>, Canceled>'):
        'statistics task has no failing path; Canceled only if a worker already died',
}


def erv2_scope_bodies(ctx):
    P = ctx.P
    bodies = []
    for pat in ERV2_SCOPE:
        found = [b for b in P.find(pat) if b.crate == 'locustdb']
        for b in found:
            bodies.append(b)
            bodies += P.closures_of(b)
    # server handlers
    for b in P.fn_bodies():
        if b.crate == 'locustdb' and b.name.startswith('server::'):
            bodies.append(b)
    uniq = {}
    for b in bodies:
        uniq[b.name] = b
    return list(uniq.values())


def erv2_request_shell(ctx):
    ctx.rule('ERV-2', 'inside the request shell no Result<_, QueryError | Canceled> reaches '
                      'unwrap/expect (errors are delivered as values)', floor=3)
    bodies = erv2_scope_bodies(ctx)
    ctx.require(len(bodies) >= 30, 'ERV-2: request shell scope too small (%d bodies)' % len(bodies))
    ctx.extra.setdefault('scopes', {})['ERV-2'] = sorted(b.name for b in bodies)
    n = panics.erv_scope(ctx, 'ERV-2', bodies, ERV2_EXCEPTIONS, 'request shell')
    # positive evidence: how the shell consumes QueryError results
    P = ctx.P
    cnt = 0
    for b in bodies:
        for blk, t in b.calls():
            if blk.cleanup:
                continue
            if norm_callee(t.func).endswith('QueryTask::fail_with') or \
                    norm_callee(t.func).endswith('QueryTask::fail_with_no_lock'):
                cnt += 1
    ctx.ok('ERV-2', 'shell-delivers-errors', '%d fail_with/fail_with_no_lock call sites deliver '
                                             'errors through the reply channel' % cnt)
    return n


def erv1_final_pass(ctx):
    ctx.rule('ERV-1', 'the final pass (expressions over aggregates) reports its error as a value',
             floor=1)
    P = ctx.P
    root = P.one('QueryTask::push_result')
    # the final pass is run by push_result or by a helper of QueryTask it calls
    scope = [P.body(n) for n in P.reachable_bodies([root])
             if n.startswith('engine::execution::query_task::QueryTask::')]
    sites = []
    for F in scope:
        for (b, t) in calls_matching(F, lambda n: n.endswith('NormalFormQuery::run')):
            sites.append((F, b, t))
    ctx.require(sites, 'ERV-1: neither push_result nor a QueryTask helper runs a final pass (anchor)')
    for (F, b, t) in sites:
        du = DefUse(F)
        use = classify_result_use(F, du, t)
        ctx.check('ERV-1', 'QueryTask::push_result|final-pass-result', use['kind'] in ('match', 'try'),
                  'result of the final pass is consumed by %s (overflow / division by zero in '
                  '`select sum(a)/0` must come back as an error value)' % use['kind'], where(t))


def erv3_http_maps_errors(ctx):
    ctx.rule('ERV-3', 'every HTTP handler that runs a query maps the error to an HTTP error '
                      'response', floor=4)
    P = ctx.P
    # a handler = the async fn with all closures / async blocks nested in it: the call that creates
    # the query future, the await and the error mapping may sit in different nested bodies
    # (`stream::iter(..map(|q| run_query(q))).buffered(n)` is as good as a loop of awaits)
    from .durability import top_function
    groups = {}
    for b in P.fn_bodies():
        if b.crate != 'locustdb' or not b.name.startswith('server::'):
            continue
        groups.setdefault(top_function(P, b).name, []).append(b)
    handlers = {t: bs for t, bs in groups.items()
                if any(calls_matching(b, lambda n: n.endswith('locustdb::LocustDB::run_query')) for b in bs)}
    ctx.require(len(handlers) >= 4, 'ERV-3: fewer than 4 handlers call run_query (%s)' % sorted(handlers))
    for top, bs in sorted(handlers.items()):
        name = top + '::{closure#0}'
        maps = [m for b in bs for m in calls_matching(b, lambda n: n.endswith('server::map_err_response'))]
        unwraps = [ps for b in bs for ps in panics.panic_sources(b) if ps.kind == 'unwrap'
                   and 'QueryError' in (ps.term.func or '') and 'QueryOutput' in (ps.term.func or '')]
        ctx.check('ERV-3', '%s|maps-error' % name, bool(maps) and not unwraps,
                  'handler routes the query result through map_err_response (%d) and never '
                  'unwraps it (%d)' % (len(maps), len(unwraps)),
                  where(unwraps[0].term) if unwraps else (where(maps[0][1]) if maps else None))
    # map_err_response itself: every Err arm builds a non-2xx response
    M = P.one('server::map_err_response')
    # the statuses may be built in a helper / closure map_err_response delegates to
    reach = [P.body(n) for n in P.reachable_bodies([M]) if n.startswith('server::')]
    builders = sorted({norm_callee(t.func).split('::')[-1] for b_ in reach if b_ is not None
                       for blk, t in b_.calls()
                       if 'HttpResponse::' in norm_callee(t.func) and not blk.cleanup})
    ctx.check('ERV-3', 'map_err_response|error-statuses', bool(builders) and 'Ok' not in builders,
              'map_err_response builds only error statuses: %s' % builders, where(M.blocks[0].term))


def ord9_insert(ctx):
    ctx.rule('ORD-9', 'insert_bin answers 200 only after ingestion completed and 400 without '
                      'ingesting', floor=2)
    P = ctx.P
    cands = [b for b in P.fn_bodies() if b.name.startswith('server::insert_bin')
             and calls_matching(b, lambda n: n.endswith('LocustDB::ingest_efficient'))]
    ctx.require(len(cands) == 1, 'ORD-9: insert_bin coroutine body not found (%d)' % len(cands))
    b = cands[0]
    cfg = CFG(b)
    du = DefUse(b)
    ing = calls_matching(b, lambda n: n.endswith('LocustDB::ingest_efficient'))
    oks = calls_matching(b, lambda n: n.endswith('HttpResponse::Ok'))
    bads = calls_matching(b, lambda n: n.endswith('HttpResponse::BadRequest'))
    polls = calls_matching(b, lambda n: n.endswith('Future>::poll'))
    ctx.require(oks and polls, 'ORD-9: no HttpResponse::Ok / poll in insert_bin')
    # Ready edges of polls
    ready = []
    for (pb, pt) in polls:
        r = base_local(pt.dest)
        for (b2, k2, o2) in du.uses.get(r, []):
            if k2 == 'stmt' and o2.rhs.startswith('discriminant('):
                dl = base_local(o2.lhs)
                for (b3, k3, o3) in du.uses.get(dl, []):
                    if k3 == 'term' and o3.kind == 'switch':
                        ready += [t for (v, t) in o3.targets if v == '0']
    for (ob, ot) in oks:
        ctx.check('ORD-9', 'insert_bin|ok-after-ingest-completed',
                  any(cfg.dominates(r, ob.id) for r in ready),
                  '200 is built only on the Ready edge of polling the ingestion future', where(ot))
    # the only reason to refuse a request is that it does not decode: nothing on the Ok edge of
    # EventBuffer::deserialize builds a non-2xx response (the embedded API accepts every EventBuffer)
    des = calls_matching(b, lambda n: n.endswith('EventBuffer::deserialize'))
    ctx.require(des, 'ORD-9: insert_bin does not call EventBuffer::deserialize')
    from .common import classify_result_use
    for (db_, dt) in des:
        use = classify_result_use(b, du, dt)
        sb = use.get('success_block')
        refusals = [(rb, rt) for (rb, rt) in b.calls() if not rb.cleanup and
                    re.search(r'HttpResponse::(?!Ok$|build$|new$)\w+$', norm_callee(rt.func or '')) and
                    sb is not None and cfg.dominates(sb, rb.id)]
        ctx.check('ORD-9', 'insert_bin|decoded-request-is-ingested', sb is not None and not refusals,
                  'a request that decodes %s' % ('is always handed to ingest_efficient (no refusal on the Ok edge of '
                                                 'deserialize)' if sb is not None and not refusals else
                                                 'can still be refused (%s): the HTTP interface rejects a batch the '
                                                 'embedded interface ingests' % sorted({norm_callee(rt.func).split('::')[-1] for (_rb, rt) in refusals})),
                  where(refusals[0][1]) if refusals else where(dt))
    for (bb, bt) in bads:
        ctx.check('ORD-9', 'insert_bin|bad-request-without-ingest',
                  not any(cfg.can_reach(ib.id, bb.id) for (ib, it) in ing) and
                  not any(cfg.can_reach(bb.id, ib.id) for (ib, it) in ing),
                  '400 path neither follows nor precedes a call to ingest_efficient', where(bt))


# ------------------------------------------------------------------------------------ ORD-14
UNORDERED = re.compile(r'(buffer_unordered|FuturesUnordered|for_each_concurrent|select_all|select_ok|'
                       r'JoinSet|try_buffer_unordered|flatten_unordered|mpsc::[A-Za-z:<>_ ]*channel|'
                       r'crossbeam|par_iter|into_par_iter)')


def ord14_multi_query_positional(ctx):
    ctx.rule('ORD-14', 'the answers of a multi-query request are positional (no query id in the '
                       'response): the handler collects them in request order, never in completion '
                       'order', floor=1)
    P = ctx.P
    from .durability import top_function
    groups = {}
    for b in P.fn_bodies():
        if b.crate == 'locustdb' and b.name.startswith('server::'):
            groups.setdefault(top_function(P, b).name, []).append(b)
    n = 0
    for top, bs in sorted(groups.items()):
        runs = [c for b in bs for c in calls_matching(b, lambda x: x.endswith('locustdb::LocustDB::run_query'))]
        if not runs:
            continue
        # a multi-query handler: run_query inside a loop or an iterator adaptor closure
        multi = False
        for b in bs:
            cfg = CFG(b)
            for (blk, t) in calls_matching(b, lambda x: x.endswith('locustdb::LocustDB::run_query')):
                if cfg.in_loop(blk.id) or b.name != top + '::{closure#0}':
                    multi = True
        if not multi:
            continue
        n += 1
        hits = []
        sorts = []
        for b in bs:
            for blk, t in b.calls():
                if blk.cleanup:
                    continue
                f = t.func or ''
                if UNORDERED.search(f):
                    hits.append((b, t))
                if re.search(r'::sort(_unstable)?_by(_key)?(::<|$)', f.split('(')[0]):
                    sorts.append(t)
        if hits and not sorts:
            b, t = hits[0]
            ctx.violation('ORD-14', '%s|request-order' % top,
                          'results of a multi-query request are gathered through a completion-order '
                          'combinator (%s) and not re-sorted: answer i is no longer the answer to '
                          'query i whenever a later query finishes first'
                          % UNORDERED.search(t.func).group(1), where(t))
        else:
            ctx.ok('ORD-14', '%s|request-order' % top,
                   'query futures are awaited / buffered in request order (%d run_query site(s), %d '
                   'completion-order combinators%s)' % (len(runs), len(hits),
                                                         ', re-sorted' if hits else ''),
                   where(runs[0][1]))
    ctx.require(n >= 1, 'ORD-14: no handler runs several queries per request')


# ------------------------------------------------------------------------------------ PAN-4
def pan4_constant_result_columns(ctx):
    ctx.rule('PAN-4', 'a constant in the select list reaches the result assembly as a scalar column: the '
                      'scalar column types for integers, floats and strings can be sliced (the column '
                      'view of the result is built with slice_box), and the length check of the '
                      'assembled result is an error value, not an unwrap', floor=3)
    ast = ctx.ast
    from mirlib import astlib
    f = 'engine/data_types/scalar_data.rs'
    want = {'i64': None, 'of64': None, 'str': None}
    for (p, q, n) in ast.fns:
        if not p.endswith(f) or not q.endswith('::slice_box') or not n.get('body'):
            continue
        impl = q.rsplit('::', 1)[0].replace(' ', '')
        m = re.search(r"ScalarVal<(&'?\w*str|i64|of64|String|T)>", impl)
        if not m:
            continue
        key = 'str' if 'str' in m.group(1) else m.group(1)
        if key in want:
            want[key] = n
    for key, n in sorted(want.items()):
        ok = n is not None and not astlib.node_panics(n['body']) if hasattr(astlib, 'node_panics') else n is not None
        if n is not None:
            body = n['body']
            while isinstance(body, dict) and body.get('k') == 'block' and len(body.get('stmts', [])) == 1:
                body = body['stmts'][0]
            ok = not (isinstance(body, dict) and body.get('k') == 'macro' and body.get('path') in
                      ('panic', 'todo', 'unimplemented', 'unreachable'))
        ctx.check('PAN-4', 'ScalarVal<%s>|slice_box' % key, ok,
                  'ScalarVal<%s> %s' % (key, 'can be sliced into a column' if ok else
                                        ('has no slice_box of its own and inherits the panicking default'
                                         if n is None else 'panics in slice_box') +
                                        ': `SELECT <constant> FROM t` kills the worker thread'),
                  'src/%s%s' % (f, ':%d' % n['l'] if n is not None else ''))
    # the length check in convert_to_output_format
    P = ctx.P
    F = P.one('QueryTask::convert_to_output_format')
    from .common import classify_result_use
    vals = calls_matching(F, lambda x: x.endswith('BatchResult::validate'))
    ctx.require(vals, 'PAN-4: convert_to_output_format does not validate the assembled result')
    du = DefUse(F)
    for (b, t) in vals:
        use = classify_result_use(F, du, t)
        ctx.check('PAN-4', 'convert_to_output_format|length-check-is-an-error-value', use['kind'] in ('try', 'returned', 'match'),
                  'BatchResult::validate() result is %s (a constant next to a column in the select list '
                  'gives columns of different lengths)' % use['kind'], where(t))


# ------------------------------------------------------------------------------------ TBL-24
def _sqlparser_fields(ctx):
    """Field lists of the sqlparser structs / variants of the enums the parser destructures, read from the
    source of the sqlparser version in Cargo.lock (cargo registry, available offline)."""
    import glob
    import os
    lock = open(os.path.join(ctx.repo, 'Cargo.lock')).read()
    m = re.search(r'name = "sqlparser"\nversion = "([^"]+)"', lock)
    ctx.require(m, 'TBL-24: sqlparser not in Cargo.lock')
    dirs = glob.glob(os.path.expanduser('~/.cargo/registry/src/*/sqlparser-%s' % m.group(1)))
    ctx.require(dirs, 'TBL-24: source of sqlparser %s not in the cargo registry' % m.group(1))
    src = open(os.path.join(dirs[0], 'src', 'ast', 'query.rs')).read()

    def struct_fields(name):
        mm = re.search(r'pub struct %s \{(.*?)\n\}' % name, src, re.S)
        return re.findall(r'^\s+pub (\w+):', mm.group(1), re.M) if mm else None

    def enum_variants(name):
        mm = re.search(r'pub enum %s \{(.*?)\n\}' % name, src, re.S)
        return re.findall(r'^    (\w+)\s*[\{\(,]', mm.group(1), re.M) if mm else None
    return m.group(1), {'Query': struct_fields('Query'), 'Select': struct_fields('Select'), 'OrderBy': struct_fields('OrderBy')}, \
        {'LimitClause': enum_variants('LimitClause'), 'OrderByKind': enum_variants('OrderByKind')}


def tbl24_statement_destructured_exhaustively(ctx):
    """The SQL front end is an external parser that accepts far more than LocustDB executes.  Whatever
    `parser::get_query_components` does not look at is accepted and ignored: `LIMIT 1, 2`, `FETCH FIRST 2
    ROWS ONLY` and `SELECT TOP 2` returned every row (more rows than the LIMIT allows), `QUALIFY`
    returned rows the query excludes, `count(DISTINCT g)` counted rows.  The destructuring of the parsed
    statement must therefore name every field (no `..`) and every variant (no `_` arm)."""
    from mirlib.astlib import find, walk
    ctx.rule('TBL-24', 'the parsed statement is destructured exhaustively: the patterns over sqlparser\'s Query, '
                       'Select and OrderBy name every field, the matches over LimitClause and OrderByKind have '
                       'no wildcard arm, and a function call is tested for DISTINCT / FILTER / OVER', floor=6)
    ver, structs, enums = _sqlparser_fields(ctx)
    fn = ctx.ast.fn('get_query_components', 'syntax/parser.rs')
    pats = {}
    for n in walk(fn):
        if isinstance(n, dict) and n.get('k') == 'p_struct':
            nm = (n.get('path') or '').split('::')[-1]
            pats.setdefault(nm, []).append(n)
    for sname in ('Query', 'Select', 'OrderBy'):
        want = structs.get(sname)
        ctx.require(want, 'TBL-24: struct %s not found in sqlparser %s' % (sname, ver))
        ps = pats.get(sname, [])
        if not ps:
            ctx.violation('TBL-24', 'get_query_components|%s|destructured' % sname,
                          'sqlparser::ast::%s is not destructured in get_query_components: its fields are read '
                          'selectively, the others are ignored' % sname, 'src/syntax/parser.rs')
            continue
        p = ps[0]
        named = [f['name'] for f in p['fields']]
        missing = [f for f in want if f not in named]
        ok = p.get('rest') == '0' and not missing
        ctx.check('TBL-24', 'get_query_components|%s|every-field-named' % sname, ok,
                  'pattern over sqlparser %s %s names %d of %d fields%s' %
                  (ver, sname, len(named), len(want), '' if ok else '; ignored: %s%s' % (missing, ' (rest pattern `..`)' if p.get('rest') != '0' else '')),
                  'src/syntax/parser.rs:%s' % p.get('l'))
    # enums: every variant appears in some pattern of the function, and no wildcard arm in the match that names them
    for ename in ('LimitClause', 'OrderByKind'):
        want = enums.get(ename)
        ctx.require(want, 'TBL-24: enum %s not found in sqlparser %s' % (ename, ver))
        best = None
        for m in find(fn, 'match'):
            seen = set()
            wild = False
            for a in m.get('arms', []):
                top = a['pat']
                for n in walk(top):
                    if isinstance(n, dict) and n.get('path') and ('%s::' % ename) in n['path']:
                        seen.add(n['path'].split('::')[-1])
                if top.get('k') == 'p_wild':
                    wild = True
            if seen and (best is None or len(seen) > len(best[0])):
                best = (seen, wild, m)
        if best is None:
            ctx.violation('TBL-24', 'get_query_components|%s|matched' % ename,
                          'no match over sqlparser::ast::%s in get_query_components' % ename, 'src/syntax/parser.rs')
            continue
        seen, wild, m = best
        missing = [v for v in want if v not in seen]
        # a struct-like variant pattern with `..` ignores fields of the variant (LIMIT .. BY)
        open_variants = sorted({n['path'].split('::')[-1] for n in walk(m) if isinstance(n, dict) and n.get('k') == 'p_struct'
                                and ('%s::' % ename) in (n.get('path') or '') and n.get('rest') != '0'
                                and len(n.get('fields', [])) > 0})
        if open_variants:
            missing = missing + ['%s { .. }' % v for v in open_variants]
        ctx.check('TBL-24', 'get_query_components|%s|every-variant-named' % ename, not missing and not wild,
                  'match over %s names %s%s' % (ename, sorted(seen),
                                               '' if not missing and not wild else '; not named: %s%s' % (missing, ', wildcard arm present' if wild else '')),
                  'src/syntax/parser.rs:%s' % m.get('l'))
    # function calls
    ce = ctx.ast.fn('convert_to_native_expr', 'syntax/parser.rs')
    txt = ' '.join(n.get('member', '') for n in walk(ce) if isinstance(n, dict) and n.get('k') == 'field')
    for fld in ('duplicate_treatment', 'filter', 'over'):
        ctx.check('TBL-24', 'convert_to_native_expr|Function|%s-tested' % fld, fld in txt,
                  'function calls are %s for `%s`' % ('tested' if fld in txt else 'not tested', fld) +
                  ('' if fld in txt else ': count(DISTINCT x) / sum(x) FILTER (..) / sum(x) OVER (..) run as the plain aggregate'),
                  'src/syntax/parser.rs')
