"""FLW-23: the WHERE filter is applied exactly once to everything a partition plan reads (C03, C04).

`QueryPlan::compile_expr(expr, filter, ..)` applies the compiled filter to every column it reads, so
what it returns has the length of the *filtered* partition.  Everything else that is built at
partition length inside a function that receives a `Filter` (a column section, a constant expanded
to `column_len` / `partition_len` rows, a NULL vector of that length) is still *unfiltered* and must
pass `Filter::apply_filter` before it is returned or combined with a filtered plan - and a plan that
already came out of `compile_expr` must not pass it again.  The rule is a two-point typestate
(Unfiltered / Filtered) decided by a flow-sensitive backward slice over MIR (mirlib.dataflow.
ReachingDefs); no value is computed.

  (a) no double filter : the plan handed to `apply_filter` does not derive from the result of
                         `compile_expr` / `compile_grouping_key` / `try_bitpacking` / `apply_filter`
  (b) no missing filter: the value returned by a function with a `Filter` parameter does not derive
                         from an unfiltered partition-length source except through `apply_filter`,
                         or on the `Filter::None` arm of a match on the parameter
  (c) callers           : in the per-partition planners every `compile_expr` / `compile_grouping_key`
                         call except the one that compiles the WHERE expression itself receives the
                         filter built from that expression (not a constant `Filter::None`)
"""
import re

from mirlib.cfg import CFG
from mirlib.dataflow import DefUse, ReachingDefs, base_local, is_const, locals_in
from mirlib.program import norm_callee
from .common import where

FILTER_TY = 'engine::planning::filter::Filter'
PLANNER = 'engine::planning::planner::QueryPlanner'

COMPILERS = ('QueryPlan::compile_expr', 'query_plan::compile_grouping_key', 'query_plan::try_bitpacking')


def _callee(t):
    return norm_callee(t.func or '')


def _is(t, suffixes):
    n = _callee(t)
    return any(n.endswith(s) for s in suffixes)


def _is_apply(t):
    return _callee(t).endswith('Filter::apply_filter')


def _is_compiler(t):
    return _is(t, COMPILERS)


def _planner_method(t, name):
    n = _callee(t)
    return n.endswith('QueryPlanner>::' + name) or n.endswith('QueryPlanner::' + name)


def _source_kind(F, t):
    """'column_section' / 'constant_expand' / 'null_vec' when the call builds a partition-length
    buffer, else None.  For the two sized constructors the length operand must not be a constant
    (a constant length, e.g. `null_vec(0, ..)`, is not the partition length)."""
    if t.kind != 'call':
        return None
    if _planner_method(t, 'column_section'):
        return 'column_section'
    for name, pos in (('constant_expand', 2), ('null_vec', 1)):
        if _planner_method(t, name):
            if len(t.args) > pos and not is_const(t.args[pos]):
                return name
            return None
    return None


def _filter_params(F):
    return [ln for (ln, ty) in F.args if ty.strip() == FILTER_TY]


def _none_arm_blocks(F, cfg, params, none_index=0):
    """Blocks dominated by the `Filter::None` edge of a switch on the discriminant of a Filter
    parameter (or of a by-value copy of it)."""
    du = DefUse(F)
    heads = []
    copies = set(params)
    for p in params:
        copies |= {l for l in du.forward(p) if (F.local_type(l) or '').strip() == FILTER_TY}
    for bid, blk in F.blocks.items():
        if blk.cleanup:
            continue
        for s in blk.stmts:
            if s.kind == 'assign' and s.rhs.startswith('discriminant('):
                src = base_local(s.rhs)
                if src in copies:
                    dl = base_local(s.lhs)
                    t = blk.term
                    if t is not None and t.kind == 'switch' and base_local(t.discr) == dl:
                        for (v, tg) in t.targets:
                            if v == str(none_index):
                                heads.append(tg)
    out = set()
    for h in heads:
        out |= {b for b in F.blocks if cfg.dominates(h, b)}
    return out


def _none_variant_index(ctx):
    try:
        en = ctx.ast.enum('Filter', 'engine/planning/filter.rs')
        names = [v['name'] for v in en['variants']]
        return names.index('None')
    except Exception:
        return 0


def flw23_filter_exactly_once(ctx):
    ctx.rule('FLW-23', 'the WHERE filter is applied exactly once: a plan that came out of compile_expr '
                       '(already filtered) never passes apply_filter again, a partition-length source '
                       'built next to it (column section, expanded constant, NULL vector) never reaches '
                       'the result without it, and every expression of the query is compiled with the '
                       'filter built from the WHERE clause', floor=12)
    P = ctx.P
    none_idx = _none_variant_index(ctx)
    scope = []
    for F in P.all_bodies():
        if getattr(F, 'crate', 'locustdb') != 'locustdb':
            continue
        if F._lines is not None and not any('filter::Filter' in l for l in F._lines):
            continue
        F.parse()
        if F.name.endswith('Filter::apply_filter') or ('<impl' in F.name and 'filter::Filter' in F.name):
            continue
        has_param = bool(_filter_params(F))
        has_call = any((not b.cleanup) and (_is_apply(t) or _is_compiler(t)) for (b, t) in F.calls())
        if has_param or has_call:
            scope.append(F)
    ctx.require(len(scope) >= 5, 'FLW-23: fewer than 5 functions take or pass a Filter (%s)' % [f.name for f in scope])

    n_apply = n_src = n_calls = 0
    for F in scope:
        cfg = CFG(F)
        rd = ReachingDefs(F, cfg)
        params = _filter_params(F)
        fn = F.name.split('::')[-1] if '::' in F.name else F.name
        fn = re.sub(r'^.*?([A-Za-z_]+::[A-Za-z_]+)$', r'\1', F.name)

        def stop(d):
            return d[2] == 'term' and (_is_apply(d[3]) or _is_compiler(d[3]))

        def plan_typed(l, F=F):
            # only buffer handles carry a length: a bool / integer / type descriptor computed from a
            # plan (`plan.is_null()`, its codec) is not a plan
            return 'BufferRef' in (F.local_type(l) or '')

        # ---- (a) no double filter
        k = 0
        for (blk, t) in F.calls():
            if blk.cleanup or not _is_apply(t) or len(t.args) < 3:
                continue
            n_apply += 1
            k += 1
            sl = rd.slice_back(base_local(t.args[2]), blk.id, len(blk.stmts), stop=stop, follow=plan_typed)
            already = [d for d in sl['defs'] if d[2] == 'term' and (_is_apply(d[3]) or _is_compiler(d[3]))]
            srcs = sorted({_source_kind(F, d[3]) for d in sl['defs'] if d[2] == 'term' and _source_kind(F, d[3])})
            ctx.check('FLW-23', '%s|apply_filter#%d|input-not-yet-filtered' % (fn, k), not already,
                      'the plan handed to apply_filter %s' %
                      ('is built from unfiltered partition-length source(s) %s' % srcs if not already else
                       'derives from the result of %s, which has applied the filter already: the filter '
                       'runs twice and keeps a filtered prefix of the filtered rows'
                       % sorted({_callee(d[3]).split('::')[-1] for d in already})), where(t))

        # ---- (b) no missing filter (functions that receive the filter)
        if params:
            none_blocks = _none_arm_blocks(F, cfg, params, none_idx)
            leaks = {}
            for bid in cfg.return_blocks():
                blk = F.blocks[bid]
                if blk.cleanup:
                    continue
                sl = rd.slice_back(0, bid, len(blk.stmts), stop=stop, follow=plan_typed)
                for d in sl['defs']:
                    if d[2] != 'term':
                        continue
                    kind = _source_kind(F, d[3])
                    if kind and d[0] not in none_blocks:
                        leaks[(d[0], d[1])] = (kind, d[3])
            srcs = [(b, t) for (b, t) in F.calls() if not b.cleanup and _source_kind(F, t)]
            ord_ = {}
            for (b, t) in srcs:
                kind = _source_kind(F, t)
                ord_[kind] = ord_.get(kind, 0) + 1
                n_src += 1
                leaked = (b.id, len(b.stmts)) in leaks
                in_none = b.id in none_blocks
                ctx.check('FLW-23', '%s|%s#%d|filtered-before-result' % (fn, kind, ord_[kind]), not leaked,
                          'partition-length %s %s' % (kind,
                              'reaches the result of %s without passing apply_filter: with a WHERE clause '
                              'the column has the length of the whole partition, not of the filtered rows'
                              % fn if leaked else
                              ('sits on the Filter::None arm' if in_none else
                               'reaches the result only through apply_filter')), where(t))

        # ---- (c) callers that build the filter themselves
        if not params:
            calls = [(b, t) for (b, t) in F.calls() if not b.cleanup and _is_compiler(t)]
            unf = []
            for (b, t) in calls:
                # the Filter operand: the argument whose type is Filter
                fa = None
                for a in t.args:
                    l = base_local(a)
                    if l is not None and (F.local_type(l) or '').strip() == FILTER_TY:
                        fa = l
                if fa is None:
                    continue
                n_calls += 1
                sl = rd.slice_back(fa, b.id, len(b.stmts))
                ctors = set()
                for d in sl['defs']:
                    if d[2] == 'stmt':
                        m = re.search(r'filter::Filter::(\w+)', d[3].rhs or '')
                        if m:
                            ctors.add(m.group(1))
                    elif d[2] == 'term' and d[3].func and 'Filter' in (F.local_type(base_local(d[3].dest)) or ''):
                        # a helper that builds the filter (`filter_from_plan(plan) -> Result<Filter, _>`)
                        for hb in P.resolve(d[3].func, F.crate):
                            if hb.crate != 'locustdb' or hb.kind != 'fn':
                                continue
                            hb.parse()
                            for hblk in hb.blocks.values():
                                for hs in hblk.stmts:
                                    if hs.kind == 'assign':
                                        hm = re.search(r'filter::Filter::(\w+)', hs.rhs or '')
                                        if hm:
                                            ctors.add(hm.group(1))
                if ctors <= {'None'}:
                    unf.append((b, t))
                else:
                    ctx.ok('FLW-23', '%s|%s|receives-the-where-filter' % (fn, _callee(t).split('::')[-1]),
                           'the Filter operand is one of %s built from the compiled WHERE expression' % sorted(ctors),
                           where(t))
            if calls:
                for i, (b, t) in enumerate(unf):
                    ctx.check('FLW-23', '%s|%s|compiled-without-filter' % (fn, _callee(t).split('::')[-1]),
                              i == 0,
                              'compiled with the constant Filter::None: %s' %
                              ('the WHERE expression itself (exactly one such call per planner)' if i == 0 else
                               'a second expression of the query ignores the WHERE clause'), where(t))
    ctx.note('FLW-23: %d function(s) in scope, %d apply_filter site(s), %d partition-length source(s), '
             '%d compile calls in the per-partition planners' % (len(scope), n_apply, n_src, n_calls))


# ------------------------------------------------------------------------------------ FLW-25
TYPE_TY = 'engine::data_types::types::Type'


def flw25_decoded_once(ctx):
    """`compile_expr` returns a plan together with its `Type`; the type carries the codec that still has
    to be applied to the plan.  An arm that applies `t.codec.decode(plan)` itself has to return a type
    without that codec (`t.decoded()`, `Type::integer()`, ...): handing back the decoded plan together
    with the original `t` makes the enclosing expression decode a second time - for an offset-encoded
    column the offset is added twice, silently."""
    ctx.rule('FLW-25', 'decode exactly once: a plan that an arm of compile_expr has decoded with the codec of '
                       'its type is never returned together with that same (still encoded) type', floor=6)
    P = ctx.P
    F = P.one('QueryPlan::compile_expr')
    F.parse()
    cfg = CFG(F)
    rd = ReachingDefs(F, cfg)
    du = DefUse(F)
    decodes = {}
    for blk, t in F.calls():
        if blk.cleanup or not norm_callee(t.func or '').endswith('Codec::decode') or not t.args:
            continue
        tl = None
        org = du.origins(base_local(t.args[0]), through_calls=False)
        for (_b, s) in org['stmts']:
            m = re.search(r'\(\(?\*?_(\d+)\)?\.\d+: mem_store::codec::Codec\)', s.rhs or '')
            if m and TYPE_TY in (F.local_type(int(m.group(1))) or ''):
                tl = int(m.group(1))
        decodes[(blk.id, len(blk.stmts))] = (t, tl)
    ctx.require(len(decodes) >= 6, 'FLW-25: fewer than 6 Codec::decode calls in compile_expr (%d)' % len(decodes))

    def plan_typed(l):
        return 'BufferRef' in (F.local_type(l) or '')

    def type_typed(l):
        return TYPE_TY in (F.local_type(l) or '')

    def stop_plan(d):
        return d[2] == 'term' and _is_compiler(d[3])

    def stop_type(d):
        if d[2] != 'term':
            return False
        m = norm_callee(d[3].func or '').split('::')[-1]
        return m not in ('clone', 'deref', 'borrow', 'into', 'from')
    order = sorted(decodes, key=lambda k: (decodes[k][0].span.line if decodes[k][0].span else 0, k))
    rank = {id(decodes[k][0]): i + 1 for i, k in enumerate(order)}
    per = {}
    reported = set()
    n_tuples = 0
    for bid, blk in F.blocks.items():
        if blk.cleanup:
            continue
        for idx, s in enumerate(blk.stmts):
            if s.kind != 'assign' or not s.rhs.startswith('('):
                continue
            lt = F.local_type(base_local(s.lhs)) or ''
            if not (lt.startswith('(') and 'TypedBufferRef' in lt and TYPE_TY in lt):
                continue
            ops = [x.strip() for x in s.rhs.strip()[1:-1].split(', ')]
            if len(ops) != 2:
                continue
            p, y = base_local(ops[0]), base_local(ops[1])
            if p is None or y is None:
                continue
            n_tuples += 1
            sp = rd.slice_back(p, bid, idx, stop=stop_plan, follow=plan_typed)
            used = [decodes[(d[0], d[1])] for d in sp['defs'] if d[2] == 'term' and (d[0], d[1]) in decodes]
            if not used:
                continue
            sy = rd.slice_back(y, bid, idx, stop=stop_type, follow=type_typed)
            ylocals = {y}
            for d in sy['defs']:
                if d[2] == 'stmt':
                    ylocals.add(base_local(d[3].lhs))
                    ylocals |= {l for l in ReachingDefs.def_inputs(d) if type_typed(l)}
                elif not stop_type(d):
                    ylocals |= {l for l in ReachingDefs.def_inputs(d) if type_typed(l)}
            for (dt, tl) in used:
                key = (dt.span.short() if dt.span else str(dt), s.span.short() if s.span else idx)
                if key in reported:
                    continue
                reported.add(key)
                bad = tl is not None and tl in ylocals
                per[rank[id(dt)]] = per.get(rank[id(dt)], 0) + 1
                ctx.check('FLW-25', 'compile_expr|decode#%d|result#%d|type-returned-without-codec' %
                          (rank[id(dt)], per[rank[id(dt)]]), not bad,
                          'plan decoded with the codec of its type at %s is returned with %s' %
                          (dt.span.short() if dt.span else '?',
                           'a type that no longer carries that codec' if not bad else
                           'the same, still encoded type: the enclosing expression decodes again (an offset-'
                           'encoded column gets its offset added twice)'), where(s))
    ctx.note('FLW-25: %d decode calls, %d (plan, type) results in compile_expr' % (len(decodes), n_tuples))
