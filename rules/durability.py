"""Durability / crash-ordering rules over MIR (C08, C09, C18, parts of C14)."""
import re

from mirlib.cfg import CFG
from mirlib.dataflow import DefUse, base_local, place_fields, operand_place
from mirlib.program import norm_callee, strip_generic_args
from . import common
from .common import calls_matching, classify_result_use, where

BLOBWRITER_CALL = re.compile(r' as disk_store::file_writer::BlobWriter>::(store|delete|load|list|exists)$')


def blobwriter_method(func):
    m = BLOBWRITER_CALL.search(func or '')
    return m.group(1) if m else None


def top_function(P, body):
    """The outermost named function a closure body is nested in."""
    raw = body.raw_name
    idx = raw.find('::{closure')
    if idx < 0:
        return body
    return P.crates[body.crate].by_raw.get(raw[:idx], body)


FS_PROTOCOL = ('std::fs::rename', 'std::fs::File::create', 'std::fs::File::create_new',
               '<File as Write>::write_all', '<File as Write>::write', '<BufWriter as Write>::write_all',
               'std::fs::File::sync_all', 'std::fs::File::sync_data')


# ------------------------------------------------------------------------------------ ORD-4
def ord4_atomic_store(ctx):
    ctx.rule('ORD-4', 'atomic blob replace: create(tmp) < write_all < sync < rename(tmp -> path), '
                      'each step checked, success return only after rename', floor=5)
    P = ctx.P
    # anchor: the outermost function of the protocol (its steps may live in extracted helpers,
    # which are spliced in with return-variant threading, mirlib/inline.py)
    tops = common.topmost_reaching(P, lambda n: n == 'std::fs::rename')
    ctx.require(tops, 'ORD-4: no body calls std::fs::rename (anchor of the atomic-replace protocol)')
    bodies = [common.inlined_anchor(P, b, lambda n: n in FS_PROTOCOL) for b in tops]
    ord4_on_bodies(ctx, bodies)


def ord4_on_bodies(ctx, bodies):
    for body in bodies:
        fn = body.name
        cfg = CFG(body)
        du = DefUse(body)
        renames = calls_matching(body, 'std::fs::rename')
        creates = calls_matching(body, ('std::fs::File::create', 'std::fs::File::create_new'))
        # `OpenOptions::new()...open(tmp)` creates the staging file as well; whether it starts out
        # empty depends on the options (clause staging-file-created-empty below)
        opens = calls_matching(body, lambda n: n.endswith('fs::OpenOptions::open'))
        path_arg = {}
        empty = {}
        for (cb_, ct_) in creates:
            path_arg[id(ct_)] = ct_.args[0]
            empty[id(ct_)] = True
        for (ob, ot) in opens:
            if len(ot.args) < 2:
                continue
            org = du.origins(base_local(ot.args[0]))
            opts = {norm_callee(c.func).split('::')[-1]: c for (_b, c) in org['calls']
                    if 'OpenOptions' in (c.func or '')}
            if not ('create' in opts or 'create_new' in opts):
                continue        # opens an existing file: not the creation of a staging file
            creates.append((ob, ot))
            path_arg[id(ot)] = ot.args[1]
            empty[id(ot)] = any(k in opts and len(opts[k].args) >= 2 and opts[k].args[1].strip() == 'const true'
                                for k in ('truncate', 'create_new'))
        writes = calls_matching(body, lambda n: n in ('<File as Write>::write_all',
                                                       '<File as Write>::write',
                                                       '<BufWriter as Write>::write_all'))
        syncs = calls_matching(body, ('std::fs::File::sync_all', 'std::fs::File::sync_data'))
        for (rb, rt) in renames:
            # locate the chain that feeds this rename
            src_root = du.access_path(rt.args[0])[0]
            chain = []
            cr = [c for c in creates if du.access_path(path_arg[id(c[1])])[0] == src_root]
            if not cr:
                ctx.violation('ORD-4', '%s|create-feeds-rename' % fn,
                              'rename source is not the path given to File::create in this body',
                              where(rt))
                continue
            cb, ct = cr[0]
            ctx.ok('ORD-4', '%s|create-feeds-rename' % fn,
                   'rename source and File::create argument are the same temp path', where(rt))
            ctx.check('ORD-4', '%s|staging-file-created-empty' % fn, empty[id(ct)],
                      'the staging file %s' % ('starts out empty (File::create / truncate(true) / create_new(true))'
                                               if empty[id(ct)] else
                                               'is opened with create(true) but without truncate(true): a longer '
                                               'staging file left by a crash keeps its tail, and the renamed blob '
                                               'fails its length / checksum test for ever'), where(ct))
            # write_all on that file
            wr = [w for w in writes if any(c is ct for (_b, c) in du.origins(
                base_local(w[1].args[0]))['calls'])]
            sy = [s for s in syncs if any(c is ct for (_b, c) in du.origins(
                base_local(s[1].args[0]))['calls'])]
            steps = [('create', cb, ct)]
            if not wr:
                ctx.violation('ORD-4', '%s|write_all-present' % fn,
                              'no write_all on the created temp file', where(ct))
            else:
                steps.append(('write_all', wr[0][0], wr[0][1]))
            if not sy:
                ctx.violation('ORD-4', '%s|sync-present' % fn,
                              'temp file is renamed into place without File::sync_all: a crash '
                              'after the rename can expose an empty or partial file',
                              where(rt))
            else:
                steps.append(('sync', sy[0][0], sy[0][1]))
            steps.append(('rename', rb, rt))
            for (n1, b1, t1), (n2, b2, t2) in zip(steps, steps[1:]):
                use = classify_result_use(body, du, t1)
                key = '%s|%s<%s' % (fn, n1, n2)
                if use['kind'] not in ('try', 'unwrap', 'match'):
                    ctx.violation('ORD-4', key, 'result of %s is not checked (%s) before %s'
                                  % (n1, use['kind'], n2), where(t1))
                    continue
                sb = use['success_block']
                if sb is None or not cfg.dominates(sb, b2.id):
                    ctx.violation('ORD-4', key, '%s is reachable without %s having succeeded'
                                  % (n2, n1), where(t2))
                else:
                    ctx.ok('ORD-4', key, '%s only after %s succeeded (dominance of the success '
                                         'edge)' % (n2, n1), where(t2))
            # data written is the caller's data
            if wr:
                org = du.origins(base_local(wr[0][1].args[1]))
                nargs = [n for (n, t) in body.args if '[u8]' in t or 'Vec<u8>' in t]
                ctx.check('ORD-4', '%s|write-data-is-param' % fn,
                          bool(set(nargs) & org['args']),
                          'write_all writes the data parameter', where(wr[0][1]))
            # rename target is the path parameter
            root, steps_ = du.access_path(rt.args[1])
            ctx.check('ORD-4', '%s|rename-target-is-param' % fn,
                      root[0] == 'arg' and not steps_ and root != src_root,
                      'rename target is the path parameter', where(rt))
            # success returns only after rename succeeded
            use = classify_result_use(body, du, rt)
            okb = common.blocks_assigning_ok_return(body)
            sb = use.get('success_block')
            good = use['kind'] in ('try', 'unwrap', 'match') and sb is not None and okb and \
                all(cfg.dominates(sb, b) for b in okb)
            ctx.check('ORD-4', '%s|ok-after-rename' % fn, good,
                      'every Ok(..) return is dominated by the success edge of rename '
                      '(rename result: %s)' % use['kind'], where(rt))


# ------------------------------------------------------------------------------------ FLW-3
def flw3_storage_errors_not_dropped(ctx):
    ctx.rule('FLW-3', 'no BlobWriter::store/delete result is dropped: consumed by ?, unwrap, match '
                      'or returned', floor=4)
    P = ctx.P
    seen_m = set()
    for body, blk, t in P.call_sites(lambda f: blobwriter_method(f) in ('store', 'delete')):
        if blk.cleanup:
            continue
        du = DefUse(body)
        use = classify_result_use(body, du, t)
        m = blobwriter_method(t.func)
        seen_m.add(m)
        ctx.check('FLW-3', '%s|%s' % (body.name, m),
                  use['kind'] in ('try', 'unwrap', 'match', 'returned'),
                  'result of BlobWriter::%s is %s' % (m, use['kind']), where(t))
    ctx.require({'store', 'delete'} <= seen_m, 'FLW-3: no BlobWriter::store or no BlobWriter::delete call '
                                               'site found (%s)' % sorted(seen_m))


# ------------------------------------------------------------------------------------ ORD-3
def ord3_ack_after_durable(ctx):
    ctx.rule('ORD-3', 'ingestion returns only after the write-ahead segment write was joined and '
                      'its result unwrapped', floor=3)
    P = ctx.P
    sites = list(P.call_sites(lambda f: norm_callee(f) == 'disk_store::storage::Storage::persist_wal_segment'))
    ctx.require(sites, 'ORD-3: no caller of Storage::persist_wal_segment')
    tops = {}
    for body, blk, t in sites:
        tops.setdefault(top_function(P, body).name, []).append((body, t))
    ctx.check('ORD-3', 'who-calls-persist_wal_segment', len(tops) == 1,
              'Storage::persist_wal_segment is called from exactly one function: %s'
              % sorted(tops), where(sites[0][2]))
    for topname, lst in tops.items():
        F = P.body(topname)
        cfg0 = CFG(F)
        du = DefUse(F)
        # the closure that calls persist_wal_segment must be spawned/executed from F (possibly via
        # an Option::map closure); find JoinHandle::join calls in F
        joins = calls_matching(F, lambda n: n.endswith('std::thread::JoinHandle::join'))
        inline = any(body is F for body, _t in lst)
        if inline:
            ctx.ok('ORD-3', '%s|join' % topname, 'segment is written synchronously in the '
                                                'ingesting function', where(lst[0][1]))
            continue
        if not joins:
            ctx.violation('ORD-3', '%s|join' % topname,
                          'the thread writing the write-ahead segment is never joined: the call '
                          'is acknowledged before the segment is durable', where(lst[0][1]))
            continue
        # world: the Option<JoinHandle> is Some
        worlds, guards = common.option_guard_worlds(F, du)
        rets = cfg0.return_blocks()
        jb = [b.id for (b, t) in joins]
        good = False
        detail = []
        for (label, removed, outcome) in worlds:
            if not outcome or list(outcome.values())[0] != 'Some':
                continue
            key = list(outcome.keys())[0]
            if 'JoinHandle' not in (common.KEY_TYPES.get((F.name, key)) or ''):
                continue
            cfg = CFG(F, removed_edges=removed)
            okw = all(cfg.must_pass_before(r, jb) for r in rets if r in cfg.reachable())
            detail.append((label, okw))
            good = good or okw
        if not detail:
            # handle is not optional: plain dominance
            good = all(cfg0.must_pass_before(r, jb) for r in rets)
            detail.append(('all-paths', good))
        ctx.check('ORD-3', '%s|join' % topname, good,
                  'every return of the ingesting function passes JoinHandle::join when a '
                  'write-ahead thread was started (worlds: %s)' % detail, where(joins[0][1]))
        for (b, t) in joins:
            use = classify_result_use(F, du, t)
            ctx.check('ORD-3', '%s|join-result' % topname, use['kind'] in ('unwrap', 'try', 'match'),
                      'result of join is %s (a failed segment write must not be acknowledged)'
                      % use['kind'], where(t))
        # inside the closure: result of persist_wal_segment is the closure's return value
        for body, t in lst:
            ctx.check('ORD-3', '%s|closure-returns-bytes' % topname,
                      base_local(t.dest) == 0 or classify_result_use(body, DefUse(body), t)['kind']
                      in ('returned', 'passed', 'unwrap', 'try'),
                      'spawned closure returns the value of persist_wal_segment', where(t))


# ------------------------------------------------------------------------------------ ORD-5 / FLW-4 / FLW-14
FLUSH_STEPS = ('disk_store::storage::Storage::unflushed_wal_ids',
               'disk_store::storage::Storage::persist_partitions',
               'disk_store::storage::Storage::persist_partition',
               'disk_store::storage::Storage::persist_metastore',
               'disk_store::storage::Storage::delete_orphaned_partitions',
               'disk_store::storage::Storage::delete_wal_segments',
               'mem_store::table::Table::freeze_buffer',
               'mem_store::table::Table::batch')


def flush_functions(ctx):
    """The flush function: the innermost function from which reading the unflushed range, the
    catalogue write and the log deletion are all reachable; helpers that perform flush steps are
    spliced in (mirlib/inline.py), so splitting the flush into phases does not move the anchor."""
    cached = getattr(ctx, '_flush_functions', None)
    if cached is not None:
        return cached
    P = ctx.P
    sites = list(P.call_sites(lambda f: norm_callee(f) == 'disk_store::storage::Storage::delete_wal_segments'))
    ctx.require(sites, 'no caller of Storage::delete_wal_segments (anchor of the flush function)')
    req = [lambda n: n == 'disk_store::storage::Storage::unflushed_wal_ids',
           lambda n: n == 'disk_store::storage::Storage::persist_metastore',
           lambda n: n == 'disk_store::storage::Storage::delete_wal_segments']
    out = common.protocol_anchor(P, req, lambda n: n in FLUSH_STEPS)
    ctx.require(out, 'no function contains the whole flush protocol (range read, catalogue write, '
                     'log deletion)')
    ctx._flush_functions = out
    return out


S = 'disk_store::storage::Storage::'


def storage_some_worlds(F, worlds):
    """Worlds in which the optional Storage is present (guard key = an Option<..Storage..>)."""
    sel = [w for w in worlds if w[2] and list(w[2].values())[0] == 'Some' and
           'disk_store::storage::Storage' in (common.KEY_TYPES.get((F.name, list(w[2].keys())[0])) or '')]
    return sel or [worlds[0]]


def ord5_flush_order(ctx):
    ctx.rule('ORD-5', 'flush order: partition files and compaction outputs are written before the '
                      'catalogue is persisted; deletions only after the catalogue', floor=4)
    P = ctx.P
    for F in flush_functions(ctx):
        fn = F.name
        du = DefUse(F)
        worlds, guards = common.option_guard_worlds(F, du)
        pm = calls_matching(F, S + 'persist_metastore')
        pp = calls_matching(F, (S + 'persist_partitions', S + 'persist_partition'))
        dop = calls_matching(F, S + 'delete_orphaned_partitions')
        dws = calls_matching(F, S + 'delete_wal_segments')
        if not pm:
            ctx.violation('ORD-5', '%s|persist_metastore-present' % fn,
                          'the function that deletes write-ahead segments never persists the '
                          'catalogue', where(dws[0][1]))
            continue
        # compaction result loop: closures executed on a pool that (transitively) reach
        # Storage::prepare_compact
        loop_exits = compaction_collect_exits(ctx, F, du)
        sel = storage_some_worlds(F, worlds)
        for (label, removed, outcome) in sel:
            cfg = CFG(F, removed_edges=removed)
            reach = cfg.reachable()
            pmb = [b.id for (b, t) in pm if b.id in reach]
            if not pmb:
                continue
            wl = 'world(%s)' % label.split('=')[-1] if outcome else 'all-paths'
            # persist_partitions before persist_metastore
            ppb = [b.id for (b, t) in pp if b.id in reach]
            ctx.check('ORD-5', '%s|persist_partitions<persist_metastore|%s' % (fn, wl),
                      bool(ppb) and all(cfg.must_pass_before(x, ppb) for x in pmb) and
                      not any(cfg.can_reach(x, y) for x in pmb for y in ppb),
                      'new partition files are written before the catalogue that references them '
                      '(and never after)', where(pm[0][1]))
            # compaction outputs collected before persist_metastore
            if loop_exits is not None:
                ctx.check('ORD-5', '%s|compaction-collected<persist_metastore|%s' % (fn, wl),
                          bool(loop_exits) and all(any(cfg.dominates(e, x) for e in loop_exits)
                                                   for x in pmb),
                          'the loop that waits for all compaction jobs (which write the merged '
                          'files) is left before the catalogue is persisted', where(pm[0][1]))
            for name, lst in (('delete_orphaned_partitions', dop), ('delete_wal_segments', dws)):
                lb = [b.id for (b, t) in lst if b.id in reach]
                if not lb:
                    continue
                ctx.check('ORD-5', '%s|persist_metastore<%s|%s' % (fn, name, wl),
                          all(cfg.must_pass_before(x, pmb) for x in lb) and
                          not any(cfg.can_reach(x, y) for x in lb for y in pmb),
                          '%s happens only after the catalogue is durable' % name,
                          where(lst[0][1]))


def compaction_collect_exits(ctx, F, du):
    """Blocks reached when the loop receiving the results of the compaction jobs terminates."""
    P = ctx.P
    execs = calls_matching(F, 'threadpool::ThreadPool::execute')
    target = None
    for (b, t) in execs:
        for cb in P.closures_in_text(t.func):
            reach = P.reachable_bodies([cb])
            if any(n.endswith('Storage::prepare_compact') for n in reach):
                target = cb
    if target is None:
        return None
    # payload type of the channel: type of the captured Sender in the closure
    m = re.search(r'std::sync::mpsc::Sender<(.*)>', ' '.join(
        (target.parse().locals.get(k) or '') for k in target.locals))
    sender_tys = set()
    target.parse()
    for blk, t in target.calls():
        n = norm_callee(t.func)
        if n.endswith('mpsc::Sender::send'):
            mm = re.match(r'^std::sync::mpsc::Sender::<(.*)>::send$', t.func)
            if mm:
                sender_tys.add(mm.group(1))
    exits = []
    for bid, blk in F.blocks.items():
        t = blk.term
        if blk.cleanup or t is None or t.kind != 'call':
            continue
        f = t.func or ''
        if f.endswith('as std::iter::Iterator>::next') and 'std::sync::mpsc::Iter<' in f and \
                any(st in f for st in sender_tys):
            r = base_local(t.dest)
            for (b2, k2, o2) in du.uses.get(r, []):
                if k2 == 'stmt' and o2.rhs.startswith('discriminant('):
                    dl = base_local(o2.lhs)
                    for (b3, k3, o3) in du.uses.get(dl, []):
                        if k3 == 'term' and o3.kind == 'switch':
                            for (val, tgt) in o3.targets:
                                if val == '0':
                                    exits.append(tgt)
    return exits


def flw4_cursor_values(ctx):
    ctx.rule('FLW-4', 'write-ahead cursor values: persisted cursor = end of the range frozen under '
                      'the ingestion lock; the same range is deleted; catalogue stores the '
                      'cursor (not next id)', floor=5)
    P = ctx.P
    for F in flush_functions(ctx):
        fn = F.name
        du = DefUse(F)
        pm = calls_matching(F, S + 'persist_metastore')
        dws = calls_matching(F, S + 'delete_wal_segments')
        for (b, t) in pm:
            place = operand_place(t.args[1])
            U = base_local(place)
            fields = place_fields(place)
            root, steps = du.access_path(t.args[1])
            org = du.origins(U)
            from_unflushed = _derives_from_unflushed(P, F, org)
            ctx.check('FLW-4', '%s|cursor-is-range-end' % fn,
                      (fields == [1] or steps == [1]) and from_unflushed,
                      'persist_metastore receives field .end (index 1) of the range returned by '
                      'Storage::unflushed_wal_ids (got place %s, derives=%s)' % (place, from_unflushed),
                      where(t))
            for (b2, t2) in dws:
                from mirlib.dataflow import typed_path
                r2, s2 = typed_path(F, du, t2.args[1])
                U2 = base_local(operand_place(t2.args[1]))
                same = (r2 == root) or (U2 == U) or (r2[0] == 'local' and r2[1] == U) or \
                    (r2[0] == 'call' and root[0] == 'call' and r2[2] == root[2])
                ctx.check('FLW-4', '%s|deleted-range-is-frozen-range' % fn,
                          same and not s2,
                          'delete_wal_segments receives the same range whose end was persisted',
                          where(t2))
    # MetaStore::serialize writes earliest_unflushed_wal_id
    ms = P.one('MetaStore::serialize')
    du = DefUse(ms)
    st = ctx.ast.struct('MetaStore', 'meta_store.rs')
    fnames = [f['name'] for f in st['fields']]
    sets = calls_matching(ms, lambda n: n.endswith('d_b_meta::Builder::set_next_wal_id'))
    ctx.require(sets, 'FLW-4: MetaStore::serialize does not call set_next_wal_id')
    for (b, t) in sets:
        root, steps = du.access_path(t.args[1])
        fld = fnames[steps[0]] if steps and steps[0] < len(fnames) else None
        ctx.check('FLW-4', 'MetaStore::serialize|stores-cursor',
                  root[0] == 'arg' and fld == 'earliest_unflushed_wal_id',
                  'the catalogue stores field earliest_unflushed_wal_id as its cursor (got %s)'
                  % fld, where(t))
    # deserialize initialises both fields from get_next_wal_id
    md = P.one('MetaStore::deserialize')
    du = DefUse(md)
    found = False
    for bid, blk in md.blocks.items():
        if blk.cleanup:
            continue
        for s in blk.stmts:
            if s.kind == 'assign' and re.match(r'^disk_store::meta_store::MetaStore \{', s.rhs):
                found = True
                fields = dict(re.findall(r'(\w+): ((?:move|copy) [^,}]+|const [^,}]+)', s.rhs))
                for fname in ('next_wal_id', 'earliest_unflushed_wal_id'):
                    op = fields.get(fname, '')
                    l = base_local(op)
                    org = du.origins(l) if l is not None else {'calls': []}
                    ok = any(norm_callee(c.func).endswith('d_b_meta::Reader::get_next_wal_id')
                             for (_b, c) in org['calls'])
                    ctx.check('FLW-4', 'MetaStore::deserialize|%s-from-stored-cursor' % fname, ok,
                              'field %s is initialised from the stored cursor' % fname, where(s))
    ctx.require(found, 'FLW-4: MetaStore::deserialize builds no MetaStore literal')
    # who advances the cursor
    adv = list(P.call_sites(lambda f: norm_callee(f).endswith('MetaStore::advance_earliest_unflushed_wal_id')))
    callers = sorted({b.name for b, _blk, _t in adv})
    ctx.check('FLW-4', 'who-advances-cursor',
              callers == ['disk_store::storage::Storage::persist_metastore'],
              'advance_earliest_unflushed_wal_id is called only from Storage::persist_metastore: %s'
              % callers, where(adv[0][2]) if adv else None)


def _derives_from_unflushed(P, F, org):
    for (_b, c) in org['calls']:
        if norm_callee(c.func).endswith('Storage::unflushed_wal_ids'):
            return True
        for cb in P.closures_in_text(c.func):
            if calls_matching(cb, lambda n: n.endswith('Storage::unflushed_wal_ids')):
                return True
    return False


# ------------------------------------------------------------------------------------ ORD-10
def ord10_cursor_before_snapshot(ctx):
    ctx.rule('ORD-10', 'the catalogue that is written contains the advanced cursor: the cursor is '
                       'advanced before the catalogue is cloned / serialised for writing', floor=2)
    P = ctx.P
    sites = list(P.call_sites(lambda f: norm_callee(f).endswith('MetaStore::advance_earliest_unflushed_wal_id')))
    ctx.require(sites, 'ORD-10: nobody advances the cursor')
    for body, blk, t in sites:
        cfg = CFG(body)
        du = DefUse(body)
        writes = calls_matching(body, lambda n: n in (S + 'write_metastore',) or
                                n.endswith('MetaStore::serialize') or blobwriter_method(n + '') == 'store')
        writes += [(b, tt) for (b, tt) in body.calls() if not b.cleanup and blobwriter_method(tt.func) == 'store']
        if not writes:
            ctx.violation('ORD-10', '%s|catalogue-written' % body.name,
                          'the function that advances the cursor does not write the catalogue',
                          where(t))
            continue
        for (wb, wt) in writes:
            ctx.check('ORD-10', '%s|advance-before-write' % body.name,
                      cfg.dominates(blk.id, wb.id) and not cfg.can_reach(wb.id, blk.id),
                      'cursor is advanced before the catalogue is written (never after)', where(wt))
            # the written snapshot is taken after the advance
            for a in wt.args[1:2]:
                org = du.origins(base_local(a))
                clones = [(cb_, c) for (cb_, c) in org['calls'] if norm_callee(c.func).endswith('Clone>::clone')
                          and 'MetaStore' in (c.func or '')]
                for (cb_, c) in clones:
                    ctx.check('ORD-10', '%s|advance-before-snapshot' % body.name,
                              cfg.dominates(blk.id, cb_),
                              'the catalogue snapshot that is written is cloned after the cursor '
                              'was advanced: otherwise the file lists the new partitions with the '
                              'old cursor and a crash before the log deletion replays rows twice',
                              where(c))
    # the argument of advance is the function's cursor parameter
    for body, blk, t in sites:
        du = DefUse(body)
        org = du.origins(base_local(t.args[1]))
        ctx.check('ORD-10', '%s|advance-uses-parameter' % body.name, 2 in org['args'] or bool(org['args'] - {1}),
                  'the cursor parameter is what the catalogue is advanced to', where(t))


# ------------------------------------------------------------------------------------ FLW-5
def flw5_replay_delete_split(ctx):
    ctx.rule('FLW-5', 'recovery: a segment is deleted iff id < cursor, otherwise registered and '
                      'replayed', floor=3)
    P = ctx.P
    R = P.one('Storage::recover')
    du = DefUse(R)
    cfg = CFG(R)
    cmps = []
    for bid, blk in R.blocks.items():
        if blk.cleanup:
            continue
        for s in blk.stmts:
            if s.kind == 'assign':
                m = re.match(r'^(Lt|Le|Gt|Ge|Eq|Ne)\((.*)\)$', s.rhs)
                if not m:
                    continue
                ops = [x.strip() for x in m.group(2).split(', ')]
                if len(ops) != 2:
                    continue
                roles = [_recover_role(R, du, o) for o in ops]
                if set(roles) == {'segment-id', 'cursor'}:
                    cmps.append((bid, s, m.group(1), roles))
    ctx.require(cmps, 'FLW-5: no comparison between a segment id and the catalogue cursor in '
                      'Storage::recover')
    deletes = [(b, t) for (b, t) in R.calls() if not b.cleanup and blobwriter_method(t.func) == 'delete']
    regs = calls_matching(R, lambda n: n.endswith('MetaStore::register_wal_segment'))
    pushes = [(b, t) for (b, t) in R.calls() if not b.cleanup and
              re.search(r'Vec::<disk_store::wal_segment::WalSegment<.*>>::push$', t.func or '')]
    for (bid, s, op, roles) in cmps:
        # normalise to  id OP cursor
        if roles[0] == 'cursor':
            op = {'Lt': 'Gt', 'Le': 'Ge', 'Gt': 'Lt', 'Ge': 'Le'}.get(op, op)
        ctx.check('FLW-5', 'Storage::recover|comparison-is-strict-less', op == 'Lt',
                  'segments are classified by `id < cursor` (found id %s cursor)' % op, where(s))
        bl = base_local(s.lhs)
        # the flag may be bound to a named local first (`let already_flushed = a < b; if already_flushed`)
        flags, work = set(), [bl]
        while work:
            x = work.pop()
            if x in flags:
                continue
            flags.add(x)
            for (b_, k_, o_) in du.uses.get(x, []):
                if k_ == 'stmt' and o_.kind == 'assign' and re.match(r'^(move|copy) _%d$' % x, o_.rhs.strip()) \
                        and (R.local_type(base_local(o_.lhs)) or '') == 'bool':
                    work.append(base_local(o_.lhs))
        sw = [o for x in flags for (b, k, o) in du.uses.get(x, []) if k == 'term' and o.kind == 'switch']
        if not sw:
            ctx.violation('FLW-5', 'Storage::recover|branch', 'comparison result is not branched on',
                          where(s))
            continue
        t_false = [t for (v, t) in sw[0].targets if v == '0']
        t_true = [t for (v, t) in sw[0].targets if v != '0']
        if op in ('Ge', 'Gt'):
            t_false, t_true = t_true, t_false
        ctx.check('FLW-5', 'Storage::recover|delete-on-true-edge',
                  bool(deletes) and all(any(cfg.dominates(tt, b.id) for tt in t_true)
                                        for (b, t) in deletes),
                  'BlobWriter::delete of a segment is control dependent on id < cursor',
                  where(deletes[0][1]) if deletes else where(s))
        ctx.check('FLW-5', 'Storage::recover|replay-on-false-edge',
                  bool(regs) and bool(pushes) and
                  all(any(cfg.dominates(tf, b.id) for tf in t_false) for (b, t) in regs + pushes),
                  'register_wal_segment and the push into the replay list happen on id >= cursor',
                  where(regs[0][1]) if regs else where(s))


def _recover_role(R, du, operand):
    place = operand_place(operand)
    l = base_local(place)
    if l is None:
        return None
    org = du.origins(l)
    if any(norm_callee(c.func).endswith('MetaStore::earliest_uncommited_wal_id') for (_b, c) in org['calls']):
        return 'cursor'
    # field 0 (`id`) of a WalSegment value
    for (_b, st) in org['stmts'] + [(None, None)]:
        pass
    txts = [place] + [st.rhs for (_b, st) in org['stmts']]
    for tx in txts:
        m = re.search(r'\((_\d+)\.0: u64\)', tx)
        if m:
            ty = R.local_type(int(m.group(1)[1:])) or ''
            if 'WalSegment' in ty:
                return 'segment-id'
    return None


# ------------------------------------------------------------------------------------ FLW-14
def flw14_nothing_to_delete_is_lost(ctx):
    ctx.rule('FLW-14', 'every file of a merged-away partition reaches delete_orphaned_partitions; '
                       'both deletions follow the catalogue write on every path', floor=4)
    P = ctx.P
    for F in flush_functions(ctx):
        fn = F.name
        du = DefUse(F)
        cfg0 = CFG(F)
        worlds, guards = common.option_guard_worlds(F, du)
        dop = calls_matching(F, S + 'delete_orphaned_partitions')
        dws = calls_matching(F, S + 'delete_wal_segments')
        pm = calls_matching(F, S + 'persist_metastore')
        if not dop:
            ctx.violation('FLW-14', '%s|delete_orphaned_partitions-present' % fn,
                          'files of merged-away partitions are never deleted', where(pm[0][1]) if pm else None)
            continue
        # the vector handed to delete_orphaned_partitions accumulates what the compaction jobs sent
        for (b, t) in dop:
            V = du.access_path(t.args[1])[0]
            vl = V[1] if V[0] == 'local' else base_local(operand_place(t.args[1]))
            pushes = [(pb, pt) for (pb, pt) in F.calls() if not pb.cleanup and
                      norm_callee(pt.func).endswith('Vec::push') and
                      du.access_path(pt.args[0])[0] == V]
            fed = False
            for (pb, pt) in pushes:
                org = du.origins(base_local(pt.args[1]))
                if any('std::sync::mpsc::Iter<' in (c.func or '') and c.func.endswith('Iterator>::next')
                       for (_b, c) in org['calls']):
                    fed = True
            ctx.check('FLW-14', '%s|to-delete-accumulates-job-results' % fn, fed,
                      'the list given to delete_orphaned_partitions is filled from the values '
                      'received from the compaction jobs', where(t))
        # on every path from persist_metastore to return both deletes happen (Some world)
        sel = storage_some_worlds(F, worlds)
        for (label, removed, outcome) in sel:
            cfg = CFG(F, removed_edges=removed)
            rets = set(cfg.return_blocks())
            for name, lst in (('delete_orphaned_partitions', dop), ('delete_wal_segments', dws)):
                lb = [b.id for (b, t) in lst]
                okk = all(cfg.must_pass_after(b.id, lb, rets) for (b, t) in pm if b.id in cfg.reachable())
                ctx.check('FLW-14', '%s|%s-on-every-path-after-catalogue' % (fn, name), okk and bool(pm),
                          'every path from persist_metastore to return passes %s' % name,
                          where(lst[0][1]) if lst else None)
    # a flush that has frozen the buffers (and reset the accounted log size) runs to the end: from
    # the read of the unflushed range every path to return passes the catalogue write and the log
    # deletion (Some world) - there is no early exit for "nothing to do"
    for F in flush_functions(ctx):
        fn = F.name
        du = DefUse(F)
        worlds, guards = common.option_guard_worlds(F, du)
        starts = [b.id for (b, t) in F.calls() if not b.cleanup and
                  (norm_callee(t.func) == S + 'unflushed_wal_ids' or
                   any(calls_matching(cb, S + 'unflushed_wal_ids') for cb in P.closures_in_text(t.func or '')))]
        pm = calls_matching(F, S + 'persist_metastore')
        dws = calls_matching(F, S + 'delete_wal_segments')
        if not starts or not pm or not dws:
            continue
        for (label, removed, outcome) in storage_some_worlds(F, worlds):
            cfg = CFG(F, removed_edges=removed)
            rets = set(cfg.return_blocks())
            for name, lst in (('persist_metastore', pm), ('delete_wal_segments', dws)):
                lb = [b.id for (b, t) in lst]
                okk = all(cfg.must_pass_after(sb, lb, rets) for sb in starts if sb in cfg.reachable())
                ctx.check('FLW-14', '%s|%s-on-every-path-after-freeze' % (fn, name), okk,
                          'every path from the read of the unflushed range to return passes %s: a '
                          'flush cannot end early after the log-size counter was reset, leaving '
                          'segments nobody accounts for' % name, where(lst[0][1]))
    # compact returns prepare_compact's value; prepare_compact returns delete_partitions' value
    pc = P.one('Storage::prepare_compact')
    du = DefUse(pc)
    org = du.origins(0)
    def returns_deleted(body, org, depth=0):
        for (_b, c) in org['calls']:
            if norm_callee(c.func).endswith('MetaStore::delete_partitions'):
                return True
            if depth < 3:
                # a helper of the crate that performs the swap and hands the list back
                for hb in P.resolve(c.func or '', body.crate):
                    if hb.crate == body.crate and returns_deleted(hb, DefUse(hb).origins(0), depth + 1):
                        return True
        return False
    ctx.check('FLW-14', 'Storage::prepare_compact|returns-deleted-list', returns_deleted(pc, org),
              'prepare_compact returns the list produced by MetaStore::delete_partitions',
              where(pc.blocks[0].term))
    comp = P.one('InnerLocustDB::compact')
    ok = False
    for cb in [comp] + P.closures_of(comp):
        for (b, t) in calls_matching(cb, S + 'prepare_compact'):
            d = DefUse(cb)
            use = classify_result_use(cb, d, t)
            ok = ok or base_local(t.dest) == 0 or use['kind'] in ('returned', 'passed', 'match')
            # value must flow to the closure's/func's return
            fw = d.forward(base_local(t.dest))
            ok = 0 in fw
            ctx.check('FLW-14', 'InnerLocustDB::compact|returns-prepare_compact-result', ok,
                      'the value of prepare_compact flows into the return value', where(t))


# ------------------------------------------------------------------------------------ WHO-1 / WHO-2
REMOVE_FNS = ('std::fs::remove_file', 'std::fs::remove_dir', 'std::fs::remove_dir_all')
WRITE_FNS = ('std::fs::File::create', 'std::fs::File::create_new', 'std::fs::OpenOptions::open',
             'std::fs::write', 'std::fs::rename', 'std::fs::create_dir_all', 'std::fs::create_dir',
             'std::fs::copy', 'std::fs::File::options', 'std::fs::hard_link',
             'std::fs::File::set_len')

WHO_REMOVE_TABLE = {
    'disk_store::file_writer::<FileBlobWriter as BlobWriter>::delete':
        'the one file-system backend operation that removes a blob',
}
WHO_DELETE_CALLERS = {
    'disk_store::storage::Storage::delete_wal_segments': 'flush: segments below the persisted cursor',
    'disk_store::storage::Storage::delete_orphaned_partitions': 'flush: files of merged-away partitions',
    'disk_store::storage::Storage::recover': 'recovery: segments below the persisted cursor',
    'disk_store::file_writer::<VersionedChecksummedBlobWriter as BlobWriter>::delete':
        'envelope delegates to the backend',
}
WHO_WRITE_TABLE = {
    'disk_store::file_writer::<FileBlobWriter as BlobWriter>::store':
        'atomic blob replace (ORD-4)',
    'engine::execution::query_task::QueryTask::new':
        'optional query-plan visualisation file requested by the caller (not database state)',
    'observability::simple_trace::SimpleTracer::...': '',
}


def who1_who_may_remove(ctx):
    ctx.rule('WHO-1', 'file removal happens only in the blob backend; BlobWriter::delete is called '
                      'only by the flush tail and recovery', floor=3)
    P = ctx.P
    n = 0
    for body, blk, t in P.call_sites(lambda f: strip_generic_args(f) in REMOVE_FNS):
        if blk.cleanup:
            continue
        n += 1
        ctx.check('WHO-1', 'fs-remove|%s' % body.name, body.name in WHO_REMOVE_TABLE,
                  '%s called in %s' % (strip_generic_args(t.func), body.name), where(t))
    ctx.require(n >= 1, 'WHO-1: no std::fs::remove_* call found at all (anchor)')
    del_ok = common.helper_closure(P, set(WHO_DELETE_CALLERS))
    for body, blk, t in P.call_sites(lambda f: blobwriter_method(f) == 'delete'):
        if blk.cleanup:
            continue
        top = top_function(P, body).name
        ctx.check('WHO-1', 'blob-delete|%s' % top, top in del_ok,
                  'BlobWriter::delete called from %s' % body.name, where(t))
    ffs = flush_functions(ctx)
    flush = {f.name for f in ffs}
    # helpers spliced into the flush function (ORD-5 is decided on the spliced body) and called
    # from nowhere else
    parts = common.helper_closure(P, flush) & (flush | {n for f in ffs for n in getattr(f, 'inlined', [])})
    for callee in ('delete_wal_segments', 'delete_orphaned_partitions'):
        for body, blk, t in P.call_sites(lambda f, c=callee: norm_callee(f) == S + c):
            host = body.name if body.name in flush else \
                ('%s (phase of %s)' % (body.name, sorted(flush)[0]) if body.name in parts else body.name)
            ctx.check('WHO-1', '%s-caller|%s' % (callee, body.name), body.name in parts and
                      any(calls_matching(f, S + 'persist_metastore') for f in ffs),
                      'Storage::%s is called only from the flush function, which persists the '
                      'catalogue first (ORD-5): %s' % (callee, host), where(t))


def who2_who_may_write(ctx, table):
    ctx.rule('WHO-2', 'files are created/renamed only by the atomic store routine (+ tabled '
                      'non-database outputs)', floor=3)
    P = ctx.P
    allowed = common.helper_closure(P, set(table))
    for body, blk, t in P.call_sites(lambda f: strip_generic_args(f) in WRITE_FNS):
        if blk.cleanup:
            continue
        top = top_function(P, body).name
        reason = table.get(top)
        if reason is None and top in allowed:
            hosts = sorted(x for x in table if x in allowed)
            reason = 'helper called only from tabled writers'
        if reason is not None:
            ctx.exception('WHO-2', top, reason)
        ctx.check('WHO-2', '%s|%s' % (top, strip_generic_args(t.func).split('::')[-1]),
                  reason is not None,
                  '%s in %s%s' % (strip_generic_args(t.func), body.name,
                                  (' [tabled: %s]' % reason) if reason else ''), where(t))


# ------------------------------------------------------------------------------------ WHO-4
def who4_envelope(ctx):
    ctx.rule('WHO-4', 'Storage.writer is always the versioned+checksummed envelope around a backend',
             floor=2)
    P = ctx.P
    news = list(P.call_sites(lambda f: norm_callee(f).endswith('VersionedChecksummedBlobWriter::new')))
    # every Storage { .. writer: X .. } literal: X derives from VersionedChecksummedBlobWriter::new
    lits = 0
    for body in P.fn_bodies():
        if body.crate != 'locustdb':
            continue
        for bid, blk in body.parse().blocks.items():
            if blk.cleanup:
                continue
            for s in blk.stmts:
                if s.kind == 'assign' and re.match(r'^disk_store::storage::Storage \{', s.rhs):
                    lits += 1
                    m = re.search(r'\bwriter: ((?:move|copy) _\d+)', s.rhs)
                    du = DefUse(body)
                    org = du.origins(base_local(m.group(1))) if m else {'calls': []}
                    env = any(norm_callee(c.func).endswith('VersionedChecksummedBlobWriter::new')
                              for (_b, c) in org['calls'])
                    raw = [norm_callee(c.func) for (_b, c) in org['calls']
                           if re.search(r'(FileBlobWriter|GCSBlobWriter|AzureBlobWriter)::new$', norm_callee(c.func))]
                    ctx.check('WHO-4', '%s|writer-is-envelope' % body.name, env,
                              'Storage.writer derives from VersionedChecksummedBlobWriter::new '
                              '(backends: %s)' % raw, where(s))
                    # the Arc::new around it must take the envelope, not the raw backend
    ctx.require(lits >= 1, 'WHO-4: no Storage literal found')
    # recover receives the same writer
    for body, blk, t in P.call_sites(lambda f: norm_callee(f) == S + 'recover'):
        du = DefUse(body)
        org = du.origins(base_local(t.args[0]))
        ctx.check('WHO-4', '%s|recover-uses-envelope' % body.name,
                  any(norm_callee(c.func).endswith('VersionedChecksummedBlobWriter::new') for (_b, c) in org['calls']),
                  'Storage::recover reads through the envelope', where(t))
    # backends' load/store are called only from the envelope (dyn dispatch through .writer)
    for body, blk, t in P.call_sites(lambda f: re.search(r'<disk_store::(file_writer::FileBlobWriter|gcs_writer::GCSBlobWriter|azure_writer::AzureBlobWriter) as .*BlobWriter>::(load|store)$', f or '') is not None):
        ctx.violation('WHO-4', '%s|direct-backend-call' % body.name,
                      'backend load/store called directly, bypassing the envelope', where(t))


# ------------------------------------------------------------------------------------ ORD-11 / LIT-3
def _written_before(P, b, bid, depth):
    """write_subpartitions dominates block `bid` of `b`; a helper without a write of its own (the
    catalogue swap extracted from prepare_compact) is judged at each of its call sites."""
    wr = calls_matching(b, S + 'write_subpartitions')
    cfg = CFG(b)
    if any(wb.id != bid and cfg.dominates(wb.id, bid) for (wb, _wt) in wr):
        return True
    if depth >= 3:
        return False
    cs = [(c, blk) for (c, kind, blk) in P.callers().get(b.name, []) if kind == 'call']
    if not cs:
        return False
    for (cname, blk) in cs:
        cb = P.body(cname)
        if cb is None or blk is None:
            return False
        if not _written_before(P, cb, blk if isinstance(blk, int) else blk.id, depth + 1):
            return False
    return True


def ord11_files_before_catalogue_entry(ctx):
    ctx.rule('ORD-11', 'partition files are written before the in-memory catalogue learns about the '
                       'partition (a catalogue persisted in between must not reference a missing file)',
             floor=3)
    P = ctx.P
    n = 0
    for b in P.fn_bodies():
        if b.crate != 'locustdb' or not b.name.startswith('disk_store::storage::'):
            continue
        ins = calls_matching(b, lambda x: x.endswith('MetaStore::insert_partition'))
        if not ins:
            continue
        for (ib, it) in ins:
            n += 1
            ctx.check('ORD-11', '%s|write-before-insert' % b.name, _written_before(P, b, ib.id, 0),
                      'write_subpartitions dominates MetaStore::insert_partition (in the function, or in '
                      'every caller of a helper that performs the catalogue swap)', where(it))
    ctx.require(n >= 3, 'ORD-11: fewer than 3 insert_partition sites (%d)' % n)


def lit3_wal_file_names(ctx):
    ctx.rule('LIT-3', 'log segment file names: writer, deleters and the recovery filter use the same '
                      'suffix', floor=3)
    ast = ctx.ast
    f = 'disk_store/storage.rs'
    from mirlib.astlib import strings_in
    sites = {}
    for qual in ('Storage::persist_wal_segment', 'Storage::delete_wal_segments'):
        fn = ast.fn_closure(qual, f)
        fm = sorted({s for s in strings_in(fn, ast) if 'wal' in s and '{' in s})
        sites[qual] = fm
    rec = ast.fn('Storage::recover', f)
    ext = sorted({s for s in strings_in(rec, ast) if s in ('wal', '.wal')})
    ctx.check('LIT-3', 'wal|writer-and-deleter-format', sites['Storage::persist_wal_segment'] == ['{}.wal'] and
              sites['Storage::delete_wal_segments'] == ['{}.wal'],
              'persist_wal_segment formats %s, delete_wal_segments formats %s'
              % (sites['Storage::persist_wal_segment'], sites['Storage::delete_wal_segments']), 'src/' + f)
    ctx.check('LIT-3', 'wal|recovery-filter-suffix', ext in (['wal'], ['.wal']),
              'recovery accepts files with suffix %s, the writer produces `<id>.wal`' % ext, 'src/' + f)
    pf = ast.fn('partition_filename', f)
    fm = [s for s in strings_in(pf, ast) if '{' in s]
    ctx.check('LIT-3', 'partition|single-name-function', len(fm) == 1 and fm[0].endswith('.part'),
              'partition files are named by one function (%s) used by writer, deleter and loader '
              '(FLW-10)' % fm, 'src/' + f)


# ------------------------------------------------------------------------------------ FLW-18 / FLW-19
def flw18_segment_id_consistency(ctx):
    ctx.rule('FLW-18', 'a log segment is stored under the id it carries: the id assigned from '
                       'add_wal_segment is written into the segment before it is serialised and is '
                       'the id formatted into the file name', floor=3)
    P = ctx.P
    F = P.one('Storage::persist_wal_segment')
    # helpers that build the file path / format the id are spliced in
    F = common.inlined_anchor(P, F, lambda n: n.endswith('std::path::Path::join') or n.endswith('PathBuf::push')
                              or n == 'alloc::fmt::format' or n.endswith('fmt::format'))
    du = DefUse(F)
    cfg = CFG(F)
    adds = calls_matching(F, lambda n: n.endswith('MetaStore::add_wal_segment'))
    sers = calls_matching(F, lambda n: n.endswith('WalSegment::serialize'))
    stores = [(b, t) for (b, t) in F.calls() if not b.cleanup and blobwriter_method(t.func) == 'store']
    ctx.require(adds and sers and stores, 'FLW-18: persist_wal_segment lacks add_wal_segment/serialize/store')
    ab = adds[0][0]
    # the id field of the segment parameter is assigned from the add_wal_segment result
    assigned = False
    for bid, blk in F.blocks.items():
        if blk.cleanup:
            continue
        for s in blk.stmts:
            if s.kind == 'assign' and re.match(r'^\(_2\.0: u64\)$', s.lhs.strip()):
                org = du.origins(base_local(s.rhs))
                if any(c is adds[0][1] for (_b, c) in org['calls']) or base_local(s.rhs) == base_local(adds[0][1].dest):
                    assigned = cfg.dominates(ab.id, bid) and all(cfg.dominates(bid, sb.id) for (sb, st) in sers)
        t = blk.term
        if t is not None and t.kind == 'call' and t is adds[0][1] and re.match(r'^\(_2\.0: u64\)$', (t.dest or '').strip()):
            assigned = all(cfg.dominates(bid, sb.id) and bid != sb.id for (sb, st) in sers)
    ctx.check('FLW-18', 'persist_wal_segment|id-assigned-before-serialize', assigned,
              'segment.id = add_wal_segment() happens before the segment is serialised', where(adds[0][1]))
    # file name uses the same id
    fmt_ok = False
    for (b, t) in stores:
        org = du.origins(base_local(t.args[1]))
        disp = [c for (_b, c) in org['calls'] if 'new_display::<u64>' in (c.func or '')]
        for c in disp:
            o2 = du.origins(base_local(c.args[0]))
            if any(re.search(r'\(_2\.0: u64\)', st.rhs or '') for (_b, st) in o2['stmts']) or \
                    any(cc is adds[0][1] for (_b, cc) in o2['calls']):
                fmt_ok = True
    ctx.check('FLW-18', 'persist_wal_segment|file-named-by-segment-id', fmt_ok,
              'the file name is formatted from the id stored in the segment', where(stores[0][1]))
    # data stored is the serialised segment
    for (b, t) in stores:
        org = du.origins(base_local(t.args[2]))
        ctx.check('FLW-18', 'persist_wal_segment|stores-serialised-segment',
                  any(c is sers[0][1] for (_b, c) in org['calls']),
                  'the bytes stored are the serialised segment', where(t))


def flw19_log_size_accounted(ctx):
    ctx.rule('FLW-19', 'the bytes written to the log are added to the accounted log size under the '
                       'ingestion lock (the size-triggered flush depends on it)', floor=1)
    P = ctx.P
    from .locking import lockmodel, GUARD_DEREF, WAL, ids
    lm = lockmodel(ctx)
    sites0 = list(P.call_sites(lambda f: norm_callee(f) == S + 'persist_wal_segment'))
    tops = {top_function(P, b).name for b, _blk, _t in sites0}
    for topname in sorted(tops):
        F = P.body(topname)
        du = lm.du(F)
        joins = calls_matching(F, lambda n: n.endswith('std::thread::JoinHandle::join'))
        found = False
        site = F.blocks[0].term
        for bid, blk in F.blocks.items():
            if blk.cleanup:
                continue
            for idx, s in enumerate(blk.stmts):
                if s.kind == 'assign' and re.match(r'^\(\*_\d+\)$', s.lhs.strip()):
                    d = du.single_def(base_local(s.lhs))
                    if not (d and d[1] == 'term' and GUARD_DEREF.match(d[2].func or '')):
                        continue
                    org = du.origins(base_local(s.rhs))
                    from_join = any(any(c is jt for (_jb, jt) in joins) for (_b, c) in org['calls']) or \
                        any(norm_callee(c.func) == S + 'persist_wal_segment' for (_b, c) in org['calls'])
                    held = WAL in ids(lm.must_at(F, bid, idx))
                    if from_join:
                        found = held
                        site = s
        ctx.check('FLW-19', '%s|log-size-accounted' % topname, found,
                  'the accounted log size grows by the number of bytes the log write reported, with '
                  'the ingestion lock held', where(site))


# ------------------------------------------------------------------------------------ ORD-15
def ord15_store_not_conditional_on_presence(ctx):
    ctx.rule('ORD-15', 'files are (re)written unconditionally: no BlobWriter::store depends on a '
                       'BlobWriter::exists test of the target. Partition ids and paths are reused after a '
                       'crash (the id counter is rebuilt from the persisted catalogue), so "already '
                       'there" may be the orphan of a flush that never committed', floor=3)
    P = ctx.P
    n = 0
    for b in P.fn_bodies():
        if b.crate != 'locustdb' or not b.name.startswith('disk_store::storage::'):
            continue
        stores = [(blk, t) for blk, t in b.calls() if not blk.cleanup and blobwriter_method(t.func) == 'store']
        if not stores:
            continue
        exists = [(blk, t) for blk, t in b.calls() if not blk.cleanup and blobwriter_method(t.func) == 'exists']
        du = DefUse(b)
        cfg = CFG(b)
        guards = []     # (switch term, [targets])
        for (eb, et) in exists:
            fw = du.forward(base_local(et.dest))
            for l in fw:
                for (b2, k2, o2) in du.uses.get(l, []):
                    if k2 == 'term' and o2.kind == 'switch' and (b.local_type(l) or '') in ('bool', 'isize', 'u8'):
                        guards.append((o2, [tg for (_v, tg) in o2.targets]))
                    if k2 == 'term' and o2.kind == 'switch' and (b.local_type(l) or '') == 'bool':
                        pass
        for i, (sb, st) in enumerate(stores):
            n += 1
            dep = None
            for (sw, tgs) in guards:
                doms = [tg for tg in tgs if cfg.dominates(tg, sb.id)]
                if doms and len(set(doms)) < len(set(tgs)):
                    dep = sw
            ctx.check('ORD-15', '%s|store%s|unconditional' % (b.name, '' if i == 0 else '#%d' % (i + 1)), dep is None,
                      'BlobWriter::store is %s' % ('not guarded by a presence test' if dep is None else
                                                   'skipped when BlobWriter::exists reports the file: a stale file '
                                                   'under a reused id survives while the catalogue records the new content'),
                      where(st))
    ctx.require(n >= 3, 'ORD-15: fewer than 3 BlobWriter::store sites in Storage (%d)' % n)


# ------------------------------------------------------------------------------------ ERV-4
ERRTY = re.compile(r'(std::io::Error|dyn std::error::Error|capnp::Error|errors::QueryError|QueryError|reqwest::Error)')


def erv4_no_error_discarded(ctx):
    ctx.rule('ERV-4', 'no result that carries an I/O, decode or query error is discarded (`let _ =`, '
                      '`.ok()` unused, `drop`): every such result is propagated, matched, unwrapped or '
                      'returned - a swallowed error turns a failed write / a corrupt file into silent '
                      'data loss', floor=1)
    P = ctx.P
    n = 0
    for b in P.fn_bodies():
        du = None
        for blk, t in b.calls():
            if blk.cleanup or not t.dest:
                continue
            m = re.match(r'^_(\d+)$', t.dest.strip())
            if not m:
                continue
            ty = b.local_type(int(m.group(1))) or ''
            if not ty.startswith('std::result::Result<') or not ERRTY.search(ty):
                continue
            if t.span is not None and not t.span.is_local():
                continue
            du = du or DefUse(b)
            use = classify_result_use(b, du, t)
            n += 1
            if use['kind'] not in ('try', 'returned', 'match', 'unwrap', 'passed'):
                callee = '::'.join(norm_callee(t.func).split('::')[-2:])
                ctx.violation('ERV-4', '%s|%s' % (b.name, callee),
                              'the %s of %s is %s' % (ERRTY.search(ty).group(1) + ' result', callee, use['kind']),
                              where(t))
    ctx.require(n >= 100, 'ERV-4: only %d error-carrying results found (anchor)' % n)
    ctx.ok('ERV-4', 'all-crates|error-results-consumed', '%d call results with an I/O / decode / query error '
           'type are all propagated, matched, unwrapped or returned' % n, None)
