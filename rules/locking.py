"""Lock-discipline rules (C08 LCK-1/2, C10 LCK-3..7, C11 LCK-8/9, CND-1, JOB-1, C18 FLW-13)."""
import re
from collections import defaultdict

from mirlib.cfg import CFG
from mirlib.dataflow import DefUse, base_local, operand_place, typed_path
from mirlib.locks import LockModel, ACQUIRE_RE, WAIT_RE, NOTIFY_RE
from mirlib.program import norm_callee, strip_generic_args
from . import common
from .common import calls_matching, where
from .durability import flush_functions, top_function, S

WAL = 'InnerLocustDB.wal_size.0'
WAL_CV = 'InnerLocustDB.wal_size.1'
GUARD_DEREF = re.compile(r'^<std::sync::(?:poison::)?(MutexGuard|RwLockReadGuard|RwLockWriteGuard)<.*> as .*(Deref|DerefMut|__Deref)>::deref(_mut)?$')


def lockmodel(ctx):
    lm = getattr(ctx, '_lockmodel', None)
    if lm is None:
        lm = LockModel(ctx.P, ctx.ast)
        ctx._lockmodel = lm
    return lm


def ids(facts):
    return {f[0] for f in facts}


def acq_sites(facts, lid):
    return {f[2] for f in facts if f[0] == lid}


def closure_reaches(P, func_text, pred):
    for cb in P.closures_in_text(func_text):
        reach = P.reachable_bodies([cb], follow_async=True)
        for n in reach:
            b = P.body(n)
            if b is not None and calls_matching(b, pred):
                return True
    return False


# ------------------------------------------------------------------------------------ LCK-1 / FLW-13
def lck1_flush_critical_section(ctx, with_reset=True):
    ctx.rule('LCK-1', 'flush: reading the unflushed range, freezing every table buffer, resetting '
                      'the log-size counter and notifying happen in one critical section of the '
                      'ingestion lock', floor=3)
    if with_reset:
        ctx.rule('FLW-13', 'flush resets the accounted log size to 0 under the ingestion lock and '
                           'notifies the waiting ingesters', floor=2)
    P = ctx.P
    lm = lockmodel(ctx)
    for F in flush_functions(ctx):
        fn = F.name
        du = lm.du(F)
        a = lm.analyse(F)
        sites = []   # (role, bid, idx, obj)
        for bid in a['order']:
            blk = F.blocks[bid]
            if blk.cleanup:
                continue
            for idx, s in enumerate(blk.stmts):
                if s.kind == 'assign' and re.match(r'^\(\*_\d+\)$', s.lhs.strip()):
                    ptr = base_local(s.lhs)
                    d = du.single_def(ptr)
                    if d and d[1] == 'term' and GUARD_DEREF.match(d[2].func or '') and \
                            'MutexGuard<\'_, u64>' in d[2].func:
                        sites.append(('reset', bid, idx, s))
            t = blk.term
            if t is None or t.kind != 'call':
                continue
            n = norm_callee(t.func)
            if n == S + 'unflushed_wal_ids' or closure_reaches(P, t.func, S + 'unflushed_wal_ids') \
                    and 'Option' in n:
                sites.append(('read-unflushed-range', bid, None, t))
            elif n == 'mem_store::table::Table::freeze_buffer':
                sites.append(('freeze_buffer', bid, None, t))
            elif NOTIFY_RE.match(t.func or '') and lm.lock_id(F, t.args[0]) == WAL_CV:
                sites.append(('notify', bid, None, t))
        roles = {r for (r, *_x) in sites}
        for need in ('read-unflushed-range', 'freeze_buffer'):
            if need not in roles:
                ctx.violation('LCK-1', '%s|%s-present' % (fn, need),
                              'flush function has no %s step' % need, where(F.blocks[0].term))
        acqs = set()
        for (role, bid, idx, obj) in sites:
            must = lm.must_at(F, bid, idx)
            held = WAL in ids(must)
            acqs |= acq_sites(must, WAL)
            if role in ('reset', 'notify'):
                rule = 'FLW-13' if with_reset else None
                if rule is None:
                    continue
                if role == 'reset':
                    ctx.check('FLW-13', '%s|reset-to-zero' % fn,
                              held and obj.rhs.strip() == 'const 0_u64',
                              'accounted log size is set to the constant 0 while the ingestion '
                              'lock is held (rhs: %s)' % obj.rhs, where(obj))
                else:
                    # notifying right after the guard is released is as good as under it: the state
                    # change happened under the lock, a waiter re-checks it under the lock
                    resets = [(b2, i2) for (r2, b2, i2, _o) in sites if r2 == 'reset']
                    after = any(b2 == bid or a['cfg'].dominates(b2, bid) for (b2, i2) in resets)
                    ctx.check('FLW-13', '%s|notify-under-lock' % fn, held or after,
                              'waiting ingesters are notified after the counter was reset under '
                              'the lock (inside the critical section: %s)' % held, where(obj))
                continue
            ctx.check('LCK-1', '%s|%s-under-ingestion-lock' % (fn, role), held,
                      '%s happens while the ingestion lock (%s) is held on every path' % (role, WAL),
                      where(obj))
        if with_reset:
            if 'reset' not in roles:
                ctx.violation('FLW-13', '%s|reset-to-zero' % fn,
                              'the flush never resets the accounted log size: ingestion blocked by '
                              'max_wal_size_bytes stays blocked', where(F.blocks[0].term))
            if 'notify' not in roles:
                ctx.violation('FLW-13', '%s|notify-under-lock' % fn,
                              'the flush never notifies the condition variable ingesters wait on',
                              where(F.blocks[0].term))
        ctx.check('LCK-1', '%s|one-critical-section' % fn, len(acqs) == 1,
                  'all steps lie in the live range of one acquisition (acquire sites: %s)'
                  % sorted(acqs), where(F.blocks[0].term))


# ------------------------------------------------------------------------------------ LCK-2
def lck2_ingest_critical_section(ctx):
    ctx.rule('LCK-2', 'ingestion: starting the log write, applying the batch to the table buffers '
                      'and joining the log write happen in one critical section of the ingestion '
                      'lock', floor=4)
    P = ctx.P
    lm = lockmodel(ctx)
    sites0 = list(P.call_sites(lambda f: norm_callee(f) == S + 'persist_wal_segment'))
    ctx.require(sites0, 'LCK-2: no caller of persist_wal_segment')
    tops = {top_function(P, b).name for b, _blk, _t in sites0}
    for topname in sorted(tops):
        F = P.body(topname)
        a = lm.analyse(F)
        acqs = set()
        found = defaultdict(int)
        for bid in a['order']:
            blk = F.blocks[bid]
            t = blk.term
            if blk.cleanup or t is None or t.kind != 'call':
                continue
            n = norm_callee(t.func)
            role = None
            if n == S + 'persist_wal_segment' or \
                    (P.closures_in_text(t.func) and closure_reaches(P, t.func, S + 'persist_wal_segment')):
                role = 'start-log-write'
            elif n.endswith('std::thread::JoinHandle::join'):
                role = 'join-log-write'
            elif n in ('mem_store::table::Table::ingest_homogeneous',
                       'mem_store::table::Table::ingest_heterogeneous',
                       'mem_store::table::Table::ingest'):
                role = 'apply-batch'
            if role is None:
                continue
            must = lm.must_at(F, bid, None)
            acqs |= acq_sites(must, WAL)
            found[role] += 1
            ctx.check('LCK-2', '%s|%s-under-ingestion-lock' % (topname, role), WAL in ids(must),
                      '%s happens while the ingestion lock is held on every path' % role, where(t))
        for need in ('start-log-write', 'apply-batch'):
            if not found[need]:
                ctx.violation('LCK-2', '%s|%s-present' % (topname, need),
                              'ingesting function has no %s step' % need, where(F.blocks[0].term))
        ctx.check('LCK-2', '%s|one-critical-section' % topname, len(acqs) == 1,
                  'all steps lie in the live range of one acquisition (acquire sites: %s)'
                  % sorted(acqs), where(F.blocks[0].term))


# ------------------------------------------------------------------------------------ LCK-3..7
TBL = 'mem_store::table::Table::'
FROZEN, PARTS, BUF = 'Table.frozen_buffer', 'Table.partitions', 'Table.buffer'


def lck3_snapshot_atomic(ctx):
    ctx.rule('LCK-3', 'Table::snapshot reads buffer, frozen buffer and partition map only while '
                      'all three locks are held', floor=4)
    P = ctx.P
    lm = lockmodel(ctx)
    F = P.one('Table::snapshot')
    a = lm.analyse(F)
    acquired = {lid for (_t, lid, _m) in a['acq'].values()}
    for need in (FROZEN, PARTS, BUF):
        ctx.check('LCK-3', 'Table::snapshot|acquires-%s' % need, need in acquired,
                  'snapshot takes %s' % need, where(F.blocks[0].term))
    n = 0
    for bid in a['order']:
        blk = F.blocks[bid]
        t = blk.term
        if blk.cleanup or t is None or t.kind != 'call':
            continue
        if GUARD_DEREF.match(t.func or ''):
            must = ids(lm.must_at(F, bid, None))
            n += 1
            ctx.check('LCK-3', 'Table::snapshot|read-under-all-three', {FROZEN, PARTS, BUF} <= must,
                      'a read through a guard happens with all three locks held (held: %s)'
                      % sorted(must), where(t))
    ctx.require(n >= 3, 'LCK-3: fewer than 3 guarded reads in Table::snapshot')



MAP_MUT = ('std::collections::HashMap::insert', 'std::collections::HashMap::remove',
           'std::collections::HashMap::retain', 'std::collections::HashMap::clear')


def partition_map_mutations(ctx, F, _depth=0, _seen=None):
    """Mutations of a `HashMap<_, Arc<Partition>>` that F performs synchronously: in its own body, in
    closures it runs, and in uniquely resolved crate helpers (depth <= 3).
    Returns [(blk in F, term in F, method, write_acqs, must_ids)] where write_acqs is the set of
    acquisition sites of the partitions write lock under which the mutation happens - sites of F for
    mutations under F's own guard (also when the guard is handed to the helper), ('helper', name,
    site) for a helper that takes the lock itself - and must_ids the lock ids F must hold at blk."""
    P = ctx.P
    lm = lockmodel(ctx)
    _seen = _seen or set()
    out = []

    def is_part_map(t):
        return 'mem_store::partition::Partition>' in (t.func or '') and norm_callee(t.func) in MAP_MUT
    for blk, t in F.calls():
        if blk.cleanup or not t.func:
            continue
        must = lm.must_at(F, blk.id, None)
        w = {f[2] for f in must if f[0] == PARTS and f[3] == 'x'}
        if is_part_map(t):
            out.append((blk, t, norm_callee(t.func).split('::')[-1], set(w), ids(must)))
            continue
        is_async = strip_generic_args(t.func).startswith(P.ASYNC_SPAWNERS) if not t.func.startswith('<') else False
        if is_async:
            continue
        for cb in P.closures_in_text(t.func):
            for (cb_blk, ct) in cb.calls():
                if not cb_blk.cleanup and is_part_map(ct):
                    out.append((blk, ct, norm_callee(ct.func).split('::')[-1], set(w), ids(must)))
        if _depth >= 3:
            continue
        cs = [c for c in P.resolve(t.func, F.crate) if c.crate == F.crate and c.kind == 'fn']
        if len(cs) != 1 or cs[0].name == F.name or cs[0].name in _seen:
            continue
        G = cs[0]
        if G._lines is not None and not any('partition::Partition>' in l for l in G._lines):
            continue
        for (_gb, gt, m, gw, _gm) in partition_map_mutations(ctx, G, _depth + 1, _seen | {F.name}):
            if gw:
                acq = {('helper', G.name, a) for a in gw}
            else:
                acq = set(w)      # the helper mutates a map it was handed: under the caller's guard
            out.append((blk, gt, m, acq, ids(must) | ({PARTS} if gw else set())))
    return out


def lck4_batch_no_gap(ctx):
    ctx.rule('LCK-4', 'Table::batch keeps the frozen-buffer lock from taking the rows until the '
                      'new partition is registered', floor=2)
    P = ctx.P
    lm = lockmodel(ctx)
    F = P.one('Table::batch')
    a = lm.analyse(F)
    takes = calls_matching(F, lambda n: n in ('std::mem::take', 'std::mem::replace', 'std::mem::swap'))
    inserts = [(b, t, must_ids) for (b, t, m, _w, must_ids) in partition_map_mutations(ctx, F) if m == 'insert']
    ctx.require(takes and inserts, 'LCK-4: Table::batch has no mem::take / HashMap::insert')
    acqs = set()
    for (b, t) in takes:
        must = lm.must_at(F, b.id, None)
        acqs |= acq_sites(must, FROZEN)
        ctx.check('LCK-4', 'Table::batch|take-frozen-rows', {FROZEN} <= ids(must),
                  'take-frozen-rows with %s held (held: %s)' % ([FROZEN], sorted(ids(must))), where(t))
    for (b, t, must_ids) in inserts:
        must = lm.must_at(F, b.id, None)
        acqs |= acq_sites(must, FROZEN)
        need = {FROZEN, PARTS}
        ctx.check('LCK-4', 'Table::batch|register-partition', need <= set(must_ids),
                  'register-partition with %s held (held: %s)' % (sorted(need), sorted(must_ids)), where(t))
    ctx.check('LCK-4', 'Table::batch|one-critical-section', len(acqs) == 1,
              'rows are taken and the partition registered under one acquisition of the '
              'frozen-buffer lock', where(F.blocks[0].term))


def lck5_compact_swap(ctx):
    ctx.rule('LCK-5', 'Table::compact removes the merged partitions and inserts the new one under '
                      'one write lock', floor=2)
    P = ctx.P
    lm = lockmodel(ctx)
    F = P.one('Table::compact')
    muts = partition_map_mutations(ctx, F)
    kinds = {m for (_b, _t, m, _w, _i) in muts}
    ctx.require(len(muts) >= 2 and 'insert' in kinds and (kinds & {'remove', 'retain', 'clear'}),
                'LCK-5: Table::compact does not remove+insert')
    acqs = set()
    for (b, t, m, w, _i) in muts:
        acqs |= set(w)
        ctx.check('LCK-5', 'Table::compact|%s-under-write-lock' % m,
                  bool(w), 'partition map mutation under the write lock', where(t))
    ctx.check('LCK-5', 'Table::compact|single-swap', len(acqs) == 1,
              'removals and insertion share one write-lock acquisition (sites %s)' % sorted(map(str, acqs)) +
              ('' if len(acqs) == 1 else ': between two acquisitions a snapshot sees the merged partition '
               'together with the partitions it replaces (rows twice) or neither'),
              where(F.blocks[0].term))


def lck7_freeze(ctx):
    ctx.rule('LCK-7', 'Table::freeze_buffer swaps the buffers with both buffer locks held', floor=1)
    P = ctx.P
    lm = lockmodel(ctx)
    F = P.one('Table::freeze_buffer')
    swaps = calls_matching(F, lambda n: n in ('std::mem::swap', 'std::mem::replace', 'std::mem::take'))
    ctx.require(swaps, 'LCK-7: freeze_buffer does not swap')
    for (b, t) in swaps:
        must = ids(lm.must_at(F, b.id, None))
        ctx.check('LCK-7', 'Table::freeze_buffer|swap-under-both', {FROZEN, BUF} <= must,
                  'swap with frozen_buffer and buffer held (held: %s)' % sorted(must), where(t))


# ------------------------------------------------------------------------------------ LCK-6 / 8 / 9
DECLARED_ORDER = [FROZEN, PARTS, BUF]

# edges of the type-level lock-order graph that cannot take part in a deadlock, with reasons
ORDER_EXCEPTIONS = {
    ('Storage.meta_store', 'Table.partitions', 'mem_store::table::Table::restore_tables_from_disk'):
        'start-up only: runs inside InnerLocustDB::new on a private thread that is joined before '
        'the database (and the Storage) is shared with any other thread',
}
BLOCKING_EXCEPTIONS = {
    (WAL, 'thread join', 'scheduler::inner_locustdb::InnerLocustDB::ingest_efficient'):
        'documented design: the ingestion lock serialises ingestion and is held until the '
        'write-ahead thread is joined (required by C08); the joined thread takes only '
        'Storage.meta_store, never the ingestion lock',
    (WAL, 'block_on', 'scheduler::inner_locustdb::InnerLocustDB::ingest_efficient'):
        'lazy load of the column catalogue while ingesting, executed on the ingesting thread: a cold '
        'catalogue column may be read through a remote blob backend (Azure / GCS) whose client calls '
        'are driven with RT.block_on - blocking I/O on the storage runtime, which takes no database lock',
    ('InnerLocustDB.tables', 'block_on', 'scheduler::inner_locustdb::InnerLocustDB::new'):
        'start-up replay: the same blocking read of a cold catalogue column through a remote backend; '
        'writers of the table map do not exist yet',
    (WAL, 'semaphore', 'scheduler::inner_locustdb::InnerLocustDB::ingest_efficient'):
        'lazy load of the column catalogue while ingesting, executed on the ingesting thread: the '
        'catalogue query may read a cold column and takes a read-concurrency token; token holders '
        'never take the ingestion lock',
    (WAL, 'condvar wait', 'scheduler::inner_locustdb::InnerLocustDB::ingest_efficient'):
        'same catalogue query: the wait on background_load_wait_queue is entered only while a '
        'background sequential load is in progress, which no code starts (service_reads has no '
        'caller, see the CND-1 census)',
    ('InnerLocustDB.tables', 'semaphore', 'scheduler::inner_locustdb::InnerLocustDB::new'):
        'start-up replay: read guard on the table map while the catalogue query reads a cold column; '
        'writers of the table map do not exist yet (ingestion starts after new returns)',
    ('InnerLocustDB.tables', 'condvar wait', 'scheduler::inner_locustdb::InnerLocustDB::new'):
        'start-up replay, same query: the background-load wait is never entered (no code starts a '
        'background sequential load)',
}


def lck6_declared_order(ctx):
    ctx.rule('LCK-6', 'no lock-order edge contradicts frozen_buffer -> partitions -> buffer, and '
                      'the ingestion lock precedes every table lock', floor=3)
    lm = lockmodel(ctx)
    edges = lm.order_edges()
    pairs = defaultdict(list)
    for e in edges:
        pairs[(e[0], e[1])].append(e)
    rank = {l: i for i, l in enumerate(DECLARED_ORDER)}
    n = 0
    for (h, a_), lst in sorted(pairs.items()):
        if h in rank and a_ in rank and h != a_:
            n += 1
            e = lst[0]
            ctx.check('LCK-6', '%s->%s|%s' % (h, a_, e[2]), rank[h] < rank[a_],
                      '%s acquired while %s held in %s (%s)' % (a_, h, e[2], e[4]), e[3])
        if a_ == WAL and h.startswith('Table.'):
            n += 1
            e = lst[0]
            ctx.violation('LCK-6', '%s->%s|%s' % (h, a_, e[2]),
                          'ingestion lock acquired while a table lock is held', e[3])
    for (h, a_), lst in sorted(pairs.items()):
        if h == WAL and a_.startswith('Table.'):
            e = lst[0]
            ctx.ok('LCK-6', '%s->%s' % (h, a_), 'ingestion lock precedes %s (%d sites)' % (a_, len(lst)), e[3])


def lck8_acyclic(ctx):
    ctx.rule('LCK-8', 'the lock-order graph over all lock identities of the three crates is '
                      'acyclic (tabled start-up edges excluded)', floor=1)
    lm = lockmodel(ctx)
    edges = lm.order_edges()
    graph = defaultdict(set)
    witness = {}
    used_exc = set()
    selfloops = []
    for e in edges:
        h, a_, fn = e[0], e[1], e[2]
        if (h, a_, fn) in ORDER_EXCEPTIONS:
            used_exc.add((h, a_, fn))
            continue
        if h == a_:
            selfloops.append(e)
            continue
        graph[h].add(a_)
        witness.setdefault((h, a_), e)
    for k in used_exc:
        ctx.exception('LCK-8', '%s -> %s in %s' % k, ORDER_EXCEPTIONS[k])
    # Tarjan SCC
    index = {}
    low = {}
    onstack = set()
    stack = []
    sccs = []
    counter = [0]
    nodes = set(graph) | {x for v in graph.values() for x in v}

    def strong(v):
        index[v] = low[v] = counter[0]
        counter[0] += 1
        stack.append(v)
        onstack.add(v)
        for w in graph.get(v, ()):
            if w not in index:
                strong(w)
                low[v] = min(low[v], low[w])
            elif w in onstack:
                low[v] = min(low[v], index[w])
        if low[v] == index[v]:
            comp = []
            while True:
                w = stack.pop()
                onstack.discard(w)
                comp.append(w)
                if w == v:
                    break
            sccs.append(comp)
    import sys
    sys.setrecursionlimit(10000)
    for v in sorted(nodes):
        if v not in index:
            strong(v)
    cyc = [sorted(c) for c in sccs if len(c) > 1]
    ctx.extra['lock_order_graph'] = {h: sorted(v) for h, v in sorted(graph.items())}
    ctx.extra['lock_identities'] = sorted(nodes)
    if not cyc:
        ctx.ok('LCK-8', 'acyclic', 'lock-order graph: %d identities, %d edges, no cycle'
               % (len(nodes), sum(len(v) for v in graph.values())))
    for c in cyc:
        ws = [witness[(a_, b)] for a_ in c for b in c if (a_, b) in witness]
        ctx.violation('LCK-8', 'cycle|' + '|'.join(c),
                      'lock-order cycle among %s; edges: %s'
                      % (c, ['%s->%s in %s at %s' % (w[0], w[1], w[2], w[3]) for w in ws]),
                      ws[0][3] if ws else None)
    # re-entrant acquisition of the same lock object in one body (same receiver path)
    for e in selfloops:
        h, a_, fn, site, kind, mode = e
        if kind != 'direct':
            continue
        ctx.note('same-identity nesting (different instances or re-entrant read): %s in %s at %s'
                 % (h, fn, site))


def lck9_no_blocking_under_lock(ctx):
    ctx.rule('LCK-9', 'no lock guard is held across a blocking call (channel receive, thread join, '
                      'block_on, sleep, foreign condvar wait), except tabled sites', floor=3)
    lm = lockmodel(ctx)
    seen = set()
    used = set()
    for (h, kind, fn, site, via) in lm.blocking_under_lock():
        k = (h, kind.split(':')[0], fn)
        if k in seen:
            continue
        seen.add(k)
        if k not in BLOCKING_EXCEPTIONS:
            # a helper extracted from a tabled function (called from nowhere else) inherits its entry
            for (h2, k2, f2) in BLOCKING_EXCEPTIONS:
                if (h2, k2) == (k[0], k[1]) and fn in common.helper_closure(ctx.P, {f2}):
                    k = (h2, k2, f2)
                    break
        if k in BLOCKING_EXCEPTIONS:
            used.add(k)
            ctx.exception('LCK-9', '%s across %s in %s' % k, BLOCKING_EXCEPTIONS[k])
            ctx.ok('LCK-9', '%s|%s|%s' % (k[2], h, kind.split(':')[0]),
                   'tabled: ' + BLOCKING_EXCEPTIONS[k] + ('' if fn == k[2] else ' (in its helper %s)' % fn), site)
        else:
            ctx.violation('LCK-9', '%s|%s|%s' % (fn, h, kind.split(':')[0]),
                          'guard of %s may be held across %s (%s)' % (h, kind, via), site)
    # named negative obligations from the source comments
    P = ctx.P
    F = P.one('InnerLocustDB::trigger_wal_flush')
    for (b, t) in calls_matching(F, 'std::sync::mpsc::Receiver::recv'):
        may = ids(lm.may_at(F, b.id, None))
        ctx.check('LCK-9', 'InnerLocustDB::trigger_wal_flush|recv-holds-nothing', not may,
                  'force_flush waits for the flush thread without holding any lock (held: %s)'
                  % sorted(may), where(t))
    G = P.one('Partition::get_cols')
    for (b, t) in calls_matching(G, lambda n: n.endswith('DiskReadScheduler::get_or_load')):
        may = ids(lm.may_at(G, b.id, None))
        ctx.check('LCK-9', 'Partition::get_cols|get_or_load-holds-no-cols-guard',
                  'Partition.cols' not in may,
                  'get_or_load (which write-locks Partition.cols) is called without a cols guard '
                  '(held: %s)' % sorted(may), where(t))


# ------------------------------------------------------------------------------------ CND-1
def cnd1_condvars(ctx):
    ctx.rule('CND-1', 'every waited condition variable is notified after the guarded state '
                      'changed, from a body that took the paired mutex; waits are predicate loops',
             floor=5)
    P = ctx.P
    lm = lockmodel(ctx)
    waits = defaultdict(list)
    notifies = defaultdict(list)
    for b in P.fn_bodies():
        for blk, t in b.calls():
            if blk.cleanup:
                continue
            f = t.func or ''
            if WAIT_RE.match(f):
                cv = lm.lock_id(b, t.args[0])
                holders = [x for a_ in t.args[1:2] for x in re.findall(r'^move _(\d+)$', a_.strip())]
                may = lm.may_at(b, blk.id, None)
                mtx = sorted({fct[0] for fct in may if holders and fct[1] == int(holders[0])})
                waits[cv].append((b, blk, t, mtx))
            elif NOTIFY_RE.match(f):
                cv = lm.lock_id(b, t.args[0])
                notifies[cv].append((b, blk, t))
    ctx.extra['condvars'] = {cv: {'waits': [w[0].name for w in ws],
                                  'notifies': [n[0].name for n in notifies.get(cv, [])]}
                             for cv, ws in waits.items()}
    CENSUS_ONLY = {
        'DiskReadScheduler.background_load_wait_queue':
            'background loading is dead code on this tree: its notifier service_reads has no caller',
        'LoggingClient.flushed.1':
            'client library (separate process); the Arc is shared with BackgroundWorker.flushed, '
            'which a field-based identity cannot unify; no property anchors there',
        'BackgroundWorker.flushed.1': 'see LoggingClient.flushed.1',
    }
    for cv, ws in sorted(waits.items()):
        if cv in CENSUS_ONLY:
            ctx.exception('CND-1', cv, CENSUS_ONLY[cv])
            continue
        if cv.startswith('{async'):
            continue
        mtxs = sorted({m for w in ws for m in w[3]})
        ns = notifies.get(cv, [])
        ctx.check('CND-1', '%s|notified' % cv, bool(ns),
                  'condvar %s (paired with %s) has %d wait sites and %d notify sites'
                  % (cv, mtxs, len(ws), len(ns)), where(ws[0][2]))
        for (b, blk, t, m) in ws:
            f = t.func
            in_loop = bool(re.search(r'wait(_timeout)?_while', f))
            if not in_loop:
                cfg = CFG(b)
                for h in cfg.loop_headers():
                    if blk.id in cfg.natural_loop(h):
                        in_loop = True
            ctx.check('CND-1', '%s|wait-in-loop|%s' % (cv, b.name), in_loop,
                      'wait re-checks its predicate (loop or wait_while)', where(t))
        for (b, blk, t) in ns:
            # the paired mutex is acquired in this body and the acquisition dominates the notify
            a = lm.analyse(b)
            cfg = a['cfg']
            acq_blocks = [bid for bid, (tt, lid, mode) in a['acq'].items() if lid in mtxs]
            okk = any(cfg.dominates(ab, blk.id) for ab in acq_blocks)
            ctx.check('CND-1', '%s|notify-after-locked-update|%s' % (cv, b.name), okk,
                      'notify is dominated by an acquisition of the paired mutex %s in the same '
                      'body' % mtxs, where(t))


# ------------------------------------------------------------------------------------ JOB-1
def job1_pool_jobs(ctx):
    ctx.rule('JOB-1', 'every awaited pool job sends exactly one message on every normal path and '
                      'the spawner counts the replies', floor=3)
    P = ctx.P
    n = 0
    for body, blk, t in P.call_sites(lambda f: strip_generic_args(f) == 'threadpool::ThreadPool::execute'):
        if blk.cleanup:
            continue
        for cb in P.closures_in_text(t.func):
            cb.parse()
            sender_ty = None
            for l, ty in cb.locals.items():
                pass
            capt = cb.args[0][1] if cb.args else ''
            sends = calls_matching(cb, lambda nn: nn == 'std::sync::mpsc::Sender::send')
            has_sender = bool(sends) or any('std::sync::mpsc::Sender<' in (ty or '') for ty in cb.locals.values())
            if not has_sender:
                continue
            n += 1
            cfg = CFG(cb)
            rets = cfg.return_blocks()
            sb = [b.id for (b, tt) in sends]
            once = bool(sb) and all(cfg.must_pass_before(r, sb) for r in rets)
            twice = any(cfg.can_reach(x, y) for x in sb for y in sb)
            ctx.check('JOB-1', '%s|sends-exactly-once' % cb.name, once and not twice,
                      'every normal path of the job sends (once=%s, repeated=%s)' % (once, twice),
                      where(sends[0][1]) if sends else where(t))
            # counting loop in the spawner
            pay = None
            for (b2, t2) in sends:
                mm = re.match(r'^std::sync::mpsc::Sender::<(.*)>::send$', t2.func)
                if mm:
                    pay = mm.group(1)
            top = body
            waits = [1 for (bb, tt) in top.calls() if not bb.cleanup and pay and
                     (('std::sync::mpsc::Iter<' in (tt.func or '') and pay in tt.func and tt.func.endswith('Iterator>::next'))
                      or (tt.func or '').startswith('std::sync::mpsc::Receiver::<%s>::recv' % pay))]
            ctx.check('JOB-1', '%s|spawner-awaits' % cb.name, bool(waits),
                      'the spawning function %s receives the replies' % top.name, where(t))
    ctx.require(n >= 1, 'JOB-1: no pool job with a reply channel found')


# ------------------------------------------------------------------------------------ FLW-16
def _source_tokens(lm, F, du, operand):
    """Where a buffer-typed value comes from: lock guards it was read through, iterator elements,
    mem::take results."""
    toks = set()
    org = du.origins(base_local(operand))
    for (bid, c) in org['calls']:
        f = c.func or ''
        n = norm_callee(f)
        if GUARD_DEREF.match(f):
            holder = base_local(c.args[0])
            for _i in range(10):
                d = du.single_def(holder)
                if d and d[1] == 'stmt' and re.match(r'^(&(mut )?|copy |move )\(?\*?_\d+\)?$', d[2].rhs.strip()):
                    holder = base_local(d[2].rhs)
                else:
                    break
            for fact in lm.may_at(F, bid, None):
                if fact[1] == holder:
                    toks.add('guard:' + fact[0])
            if holder is None:
                toks.add('guard:?')
        elif n.endswith('Iterator>::next'):
            toks.add('iter@bb%d' % bid)
        elif n in ('std::mem::take', 'std::mem::replace'):
            toks.add('take@bb%d' % bid)
    # the operand is the guard itself, by reference (`helper(&frozen_buffer, ..)` with a parameter of
    # type `&MutexGuard<Buffer>`): the token is the lock the guard holds
    holder = base_local(operand)
    for _i in range(10):
        d = du.single_def(holder) if holder is not None else None
        if d and d[1] == 'stmt' and re.match(r'^(&(mut )?|copy |move )\(?\*?_\d+\)?$', d[2].rhs.strip()):
            holder = base_local(d[2].rhs)
        else:
            break
    if holder is not None and 'Guard<' in (F.local_type(holder) or ''):
        for bid in F.blocks:
            for fact in lm.may_at(F, bid, None):
                if fact[1] == holder:
                    toks.add('guard:' + fact[0])
    return toks


def _placement_wrappers(ctx, lm):
    """Crate functions that build a partition from (a filter/clone of) one Buffer-typed parameter:
    {function name: index of that parameter}. Lets FLW-16 follow `Partition::from_buffer` through
    extracted helpers (fixpoint over wrappers of wrappers)."""
    cache = getattr(ctx, '_placement_wrappers', None)
    if cache is not None:
        return cache
    P = ctx.P
    W = {}
    changed = True
    rounds = 0
    while changed and rounds < 4:
        changed = False
        rounds += 1
        for b in P.fn_bodies():
            if b.crate != 'locustdb' or b.name in W or b.name.endswith('Partition::from_buffer'):
                continue
            ops = []
            for blk, t in b.calls():
                if blk.cleanup:
                    continue
                n = norm_callee(t.func or '')
                if n.endswith('Partition::from_buffer') and len(t.args) > 2:
                    ops.append(t.args[2])
                else:
                    for cb in P.resolve(t.func or '', b.crate):
                        if cb.name in W and W[cb.name] < len(t.args):
                            ops.append(t.args[W[cb.name]])
                            break
            if len(ops) != 1:
                continue
            du = lm.du(b)
            org = du.origins(base_local(ops[0]))
            bufargs = [i for i, (ln, ty) in enumerate(b.args)
                       if ln in org['args'] and re.search(r'\bBuffer\b', ty)]
            if len(bufargs) == 1:
                W[b.name] = bufargs[0]
                changed = True
    ctx._placement_wrappers = W
    return W


def flw16_offsets_count_placed_rows(ctx):
    ctx.rule('FLW-16', 'row offsets advance by the length of exactly the rows that were just placed '
                       '(snapshot: ephemeral partitions follow each other without gap or overlap; '
                       'batch: the next partition offset grows by the batched rows)', floor=2)
    P = ctx.P
    lm = lockmodel(ctx)
    for fname in ('Table::snapshot', 'Table::batch'):
        F = P.one('mem_store::table::' + fname)
        du = lm.du(F)
        cfg = CFG(F)
        wrappers = _placement_wrappers(ctx, lm)
        placed = [(pb, pt, pt.args[2]) for (pb, pt) in
                  calls_matching(F, lambda n: n.endswith('Partition::from_buffer'))]
        for blk, t in F.calls():
            if blk.cleanup:
                continue
            for cb in P.resolve(t.func or '', F.crate):
                if cb.name in wrappers and wrappers[cb.name] < len(t.args):
                    placed.append((blk, t, t.args[wrappers[cb.name]]))
                    break
        ctx.require(placed, 'FLW-16: %s does not build a partition from a buffer' % fname)
        # increments: Add on a usize where one side comes from Buffer::len, or fetch_add(len)
        incs = []
        for bid, blk in F.blocks.items():
            if blk.cleanup:
                continue
            for s in blk.stmts:
                if s.kind == 'assign':
                    m = re.match(r'^(AddWithOverflow|Add|AddUnchecked)\((.*), (.*)\)$', s.rhs)
                    if m:
                        for op in (m.group(2), m.group(3)):
                            l = base_local(op) if not op.strip().startswith('const') else None
                            if l is None:
                                continue
                            org = du.origins(l)
                            lens = [c for (_b, c) in org['calls'] if norm_callee(c.func).endswith('Buffer::len')]
                            if lens and len(org['calls']) <= 6:
                                incs.append((bid, s, lens[0]))
            t = blk.term
            if t is not None and t.kind == 'call' and norm_callee(t.func).endswith('AtomicUsize::fetch_add'):
                org = du.origins(base_local(t.args[1]))
                lens = [c for (_b, c) in org['calls'] if norm_callee(c.func).endswith('Buffer::len')]
                if lens:
                    incs.append((bid, t, lens[0]))
        if not incs:
            ctx.violation('FLW-16', '%s|offset-advances' % fname,
                          'no offset is advanced by a buffer length', where(placed[0][1]))
            continue
        for (ibid, site, lencall) in incs:
            ltoks = _source_tokens(lm, F, du, lencall.args[0])
            # the placement this increment belongs to: the from_buffer call in the same branch /
            # iteration (dominating the increment or dominated by it, closest first)
            cands = [x for x in placed if cfg.dominates(x[0].id, ibid) or cfg.dominates(ibid, x[0].id)]
            if not cands:
                cands = placed
            best = None
            for (pb, pt, pop) in cands:
                btoks = _source_tokens(lm, F, du, pop)
                if best is None or (btoks == ltoks):
                    best = (pb, pt, btoks)
                if btoks == ltoks:
                    break
            pb, pt, btoks = best
            ctx.check('FLW-16', '%s|offset-advances-by-placed-rows' % fname, btoks == ltoks and bool(ltoks),
                      'offset grows by len() of %s; the rows placed come from %s'
                      % (sorted(ltoks), sorted(btoks)), where(site))


# ------------------------------------------------------------------------------------ LCK-10
def _self_acquires(ctx):
    """body name -> {lock_id: mode} for locks acquired on `self` (first argument), transitively
    through callees that receive the same `self`."""
    cache = getattr(ctx, '_self_acq', None)
    if cache is not None:
        return cache
    P = ctx.P
    lm = lockmodel(ctx)
    direct = {}
    passes = {}
    for b in P.fn_bodies():
        if b.crate != 'locustdb' or not b.args:
            continue
        du = None
        for blk, t in b.calls():
            if blk.cleanup:
                continue
            f = t.func or ''
            m = ACQUIRE_RE.match(f)
            if m:
                du = du or lm.du(b)
                root, steps = du.access_path(t.args[0])
                if root[0] == 'arg' and root[1] == b.args[0][0]:
                    mode = 'r' if m.group(2) in ('read', 'try_read') else 'x'
                    lid = lm.lock_id(b, t.args[0])
                    d = direct.setdefault(b.name, {})
                    d[lid] = 'x' if 'x' in (mode, d.get(lid)) else 'r'
            elif t.args:
                du = du or lm.du(b)
                root, steps = du.access_path(t.args[0])
                if root[0] == 'arg' and root[1] == b.args[0][0] and not steps:
                    for cb in P.resolve(f, b.crate):
                        passes.setdefault(b.name, set()).add(cb.name)
    acq = {k: dict(v) for k, v in direct.items()}
    changed = True
    while changed:
        changed = False
        for b, cs in passes.items():
            for c in cs:
                for lid, mode in acq.get(c, {}).items():
                    cur = acq.setdefault(b, {}).get(lid)
                    new = 'x' if 'x' in (mode, cur) else 'r'
                    if cur != new:
                        acq[b][lid] = new
                        changed = True
    ctx._self_acq = acq
    return acq


def lck10_no_reentrant_acquisition(ctx, scope_prefixes=None):
    ctx.rule('LCK-10', 'no method is called on `self` while a guard of one of self\'s mutexes is held '
                       'if that method (transitively, on the same self) locks the same mutex again: '
                       'std::sync::Mutex is not re-entrant, the thread deadlocks with itself', floor=1)
    P = ctx.P
    lm = lockmodel(ctx)
    acq = _self_acquires(ctx)
    n_sites = 0
    for b in P.fn_bodies():
        if b.crate != 'locustdb' or not b.args:
            continue
        if scope_prefixes and not b.name.startswith(tuple(scope_prefixes)):
            continue
        if not any(ACQUIRE_RE.match(t.func or '') for _blk, t in b.calls()):
            continue
        a = lm.analyse(b)
        du = lm.du(b)
        for bid in a['order']:
            blk = b.blocks[bid]
            t = blk.term
            if blk.cleanup or t is None or t.kind != 'call' or not t.args:
                continue
            held = lm.may_at(b, bid, None)
            if not held or ACQUIRE_RE.match(t.func or '') or WAIT_RE.match(t.func or ''):
                continue
            root, steps = du.access_path(t.args[0])
            if not (root[0] == 'arg' and root[1] == b.args[0][0] and not steps):
                continue
            for cb in P.resolve(t.func, b.crate):
                ca = acq.get(cb.name, {})
                for h in held:
                    lid, holder, acq_block, mode = h
                    if lid not in ca:
                        continue
                    # was the held guard taken on self?
                    at = b.blocks[acq_block].term
                    r2, s2 = du.access_path(at.args[0])
                    if not (r2[0] == 'arg' and r2[1] == b.args[0][0]):
                        continue
                    n_sites += 1
                    deadlock = (mode == 'x' or ca[lid] == 'x')
                    ctx.check('LCK-10', '%s|%s|%s' % (b.name, cb.name.split('::')[-1], lid), not deadlock,
                              '%s is called while the guard of %s is held, and locks %s again on the '
                              'same object: the worker thread deadlocks with itself; the request '
                              'never gets an answer' % (cb.name.split('::')[-1], lid, lid), where(t))
    ctx.ok('LCK-10', 'scan', '%d bodies with self-locks analysed, %d nested self-call sites'
           % (len(acq), n_sites))


# ------------------------------------------------------------------------------------ CND-2
CND2_TABLE = [
    # (condvar, paired mutex, mutation kind, description)
    (WAL_CV, WAL, 'store', 'a store through the ingestion-lock guard (log size changed)'),
    ('InnerLocustDB.pending_wal_flushes.1', 'InnerLocustDB.pending_wal_flushes.0', 'push',
     'a flush request is queued'),
    ('InnerLocustDB.idle_queue', 'InnerLocustDB.task_queue', 'push_back', 'a task is queued'),
]


def cnd2_every_wakeup_condition_notifies(ctx):
    ctx.rule('CND-2', 'every state change a waiter sleeps on is followed by a notify on every path '
                      '(a forgotten notify leaves ingestion / force_flush / a worker asleep for ever)',
             floor=4)
    P = ctx.P
    lm = lockmodel(ctx)
    waiters = set()
    for b in P.fn_bodies():
        for blk, t in b.calls():
            if WAIT_RE.match(t.func or ''):
                waiters.add(b.name)
    for (cv, mtx, kind, desc) in CND2_TABLE:
        n = 0
        for b in P.fn_bodies():
            if b.crate != 'locustdb':
                continue
            direct = any(ACQUIRE_RE.match(t.func or '') and lm.lock_id(b, t.args[0]) == mtx for _bl, t in b.calls())
            if not direct:
                # the guard may come from a wrapper that returns it (`lock_wal_size_below_limit`)
                if not any('Guard<' in (ty or '') for ty in b.locals.values()):
                    continue
                if not any(lid == mtx for (_t, lid, _m) in lm.analyse(b)['acq'].values()):
                    continue
            a = lm.analyse(b)
            cfg = a['cfg']
            du = lm.du(b)
            muts = []
            for bid in a['order']:
                blk = b.blocks[bid]
                if blk.cleanup:
                    continue
                if kind == 'store':
                    for idx, s in enumerate(blk.stmts):
                        if s.kind == 'assign' and re.match(r'^\(\*_\d+\)$', s.lhs.strip()):
                            d = du.single_def(base_local(s.lhs))
                            if d and d[1] == 'term' and GUARD_DEREF.match(d[2].func or '') and \
                                    mtx in ids(lm.must_at(b, bid, idx)):
                                # the store goes through the guard of this mutex?
                                hl = base_local(d[2].args[0])
                                muts.append((bid, s))
                else:
                    t = blk.term
                    if t is not None and t.kind == 'call' and norm_callee(t.func).endswith('::' + kind) and \
                            mtx in ids(lm.must_at(b, bid, None)):
                        org = du.origins(base_local(t.args[0]))
                        if any(GUARD_DEREF.match(c.func or '') for (_b2, c) in org['calls']):
                            muts.append((bid, t))
            if not muts:
                continue
            notifs = [blk.id for blk, t in b.calls() if not blk.cleanup and NOTIFY_RE.match(t.func or '')
                      and lm.lock_id(b, t.args[0]) == cv]
            rets = set(cfg.return_blocks())
            for (mb, site) in muts:
                if b.name in waiters and kind != 'store':
                    continue
                n += 1
                okk = bool(notifs) and (mb in notifs or cfg.must_pass_after(mb, notifs, rets))
                ctx.check('CND-2', '%s|%s' % (b.name, cv), okk,
                          '%s in %s: every path to return passes a notify on %s'
                          % (desc, b.name.split('::')[-1], cv), where(site))
        ctx.require(n >= 1, 'CND-2: no mutation site found for %s' % cv)


# ------------------------------------------------------------------------------------ FLW-22
FLW22_TABLE = {
    'load_column-none':
        'the `None` arm of Storage::load_column in get_or_load: not reachable - Partition::get_cols asks '
        'partition_has_been_loaded first, which answers true for a name beyond the last column of '
        'every file, so such a column gets an empty handle and no load is attempted',
}


def flw22_busy_flag_released(ctx):
    ctx.rule('FLW-22', 'the per-partition "load in progress" flag that get_or_load sets is cleared on '
                       'every path that leaves the load: a flag left set makes every later load of that '
                       'partition wait for a loader that no longer exists (the query worker spins, the '
                       'reply is never sent)', floor=1)
    P = ctx.P
    F = P.one('DiskReadScheduler::get_or_load')
    F.parse()
    du = DefUse(F)
    cfg = CFG(F)

    def flag_store(B, dB, t, val):
        if t.kind != 'call' or not re.search(r'AtomicBool::store$', norm_callee(t.func or '')):
            return False
        if len(t.args) < 2 or t.args[1].strip() != 'const %s' % val:
            return False
        root, steps = typed_path(B, dB, t.args[0])
        org = dB.origins(base_local(t.args[0]))
        names = field_names_of(ctx, steps)
        return 'load_scheduled' in names or any('load_scheduled' in (st.rhs or '') for (_b, st) in org['stmts']) or \
            _reads_field(ctx, B, dB, org, 'load_scheduled')
    sets = [blk.id for blk, t in F.calls() if not blk.cleanup and flag_store(F, du, t, 'true')]
    clears = [blk.id for blk, t in F.calls() if not blk.cleanup and flag_store(F, du, t, 'false')]
    # the flag may be set / cleared in helpers of the scheduler (`try_claim_load`, `clear_load_scheduled`)
    for blk, t in F.calls():
        if blk.cleanup or not t.func:
            continue
        cs = [c for c in P.resolve(t.func, F.crate) if c.crate == F.crate and c.kind == 'fn' and c.name != F.name]
        if len(cs) != 1:
            continue
        G = cs[0]
        if G._lines is not None and not any('AtomicBool' in l for l in G._lines):
            continue
        G.parse()
        dG = DefUse(G)
        gcfg = CFG(G)
        gset = [b2.id for b2, t2 in G.calls() if not b2.cleanup and flag_store(G, dG, t2, 'true')]
        gclr = [b2.id for b2, t2 in G.calls() if not b2.cleanup and flag_store(G, dG, t2, 'false')]
        rets = [r for r in gcfg.return_blocks() if not G.blocks[r].cleanup]
        if gclr and all(gcfg.must_pass_before(r, gclr) if hasattr(gcfg, 'must_pass_before') else True for r in rets):
            clears.append(blk.id)
        if gset:
            if (G.ret or '').strip() == 'bool':
                # the helper reports whether it set the flag: it is set on the true edge of the caller's test
                r = base_local(t.dest)
                tgt = []
                for (b3, k3, o3) in du.uses.get(r, []):
                    if k3 == 'term' and o3.kind == 'switch':
                        tgt += [tg for (v, tg) in o3.targets if v != '0']
                    if k3 == 'stmt' and (o3.rhs or '').startswith('Not('):
                        nl = base_local(o3.lhs)
                        for (b4, k4, o4) in du.uses.get(nl, []):
                            if k4 == 'term' and o4.kind == 'switch':
                                tgt += [tg for (v, tg) in o4.targets if v == '0']
                # the store must only be followed by `return true`
                ok_true = True
                for sb in gset:
                    for rb in gcfg.reachable_from(sb):
                        for s2 in G.blocks[rb].stmts:
                            if s2.kind == 'assign' and s2.lhs.strip() == '_0' and 'const false' in s2.rhs:
                                ok_true = False
                sets += tgt if (tgt and ok_true) else [blk.id]
            else:
                sets.append(blk.id)
    ctx.require(sets and clears, 'FLW-22: get_or_load does not set / clear the load_scheduled flag '
                                 '(set %s, clear %s)' % (sets, clears))
    # blocks reachable from the set without passing a clear
    leak = set()
    for sb in sets:
        leak |= cfg.reachable_from(sb, avoid=set(clears))
    # the None edge of the load_column result
    none_targets = []
    for blk, t in F.calls():
        if not blk.cleanup and norm_callee(t.func or '').endswith('::load_column'):
            for r in du.forward(base_local(t.dest)):
                if 'Option<std::vec::Vec<mem_store::column::Column>>' not in (F.local_type(r) or ''):
                    continue
                for (b2, k2, o2) in du.uses.get(r, []):
                    if k2 == 'stmt' and o2.rhs.startswith('discriminant('):
                        dl = base_local(o2.lhs)
                        for (b3, k3, o3) in du.uses.get(dl, []):
                            if k3 == 'term' and o3.kind == 'switch':
                                none_targets += [tg for (v, tg) in o3.targets if v == '0']
    n = 0
    for bid in sorted(leak):
        blk = F.blocks[bid]
        if blk.cleanup:
            continue
        for s in blk.stmts:
            if s.kind == 'assign' and s.lhs.strip() == '_0':
                tabled = any(cfg.dominates(nt, bid) for nt in none_targets)
                n += 1
                if tabled:
                    ctx.exception('FLW-22', 'load_column-none', FLW22_TABLE['load_column-none'])
                    ctx.ok('FLW-22', 'get_or_load|return-with-flag-set|load_column-none',
                           'tabled: ' + FLW22_TABLE['load_column-none'], where(s))
                else:
                    ctx.violation('FLW-22', 'get_or_load|return-with-flag-set',
                                  'get_or_load returns (%s) on a path on which the load_scheduled flag it '
                                  'set is still true' % s.rhs[:60], where(s))
    ctx.check('FLW-22', 'get_or_load|flag-cleared-after-load', True,
              '%d set site(s), %d clear site(s); %d return value assignment(s) reachable with the flag set '
              '(all tabled)' % (len(sets), len(clears), n), where(F.blocks[clears[0]].term))


def field_names_of(ctx, steps):
    from .recovery import field_names
    try:
        return field_names(ctx, steps)
    except Exception:
        return []


def _reads_field(ctx, F, du, org, fname):
    """Some local in the origin closure is read from field `fname` of self."""
    lm = lockmodel(ctx)
    for l in org['locals']:
        for d in du.defs.get(l, []):
            if d[1] == 'stmt':
                m = re.search(r'\(\(\*_1\)\.(\d+): ', d[2].rhs or '')
                if m:
                    try:
                        if lm.field_name(F.local_type(1).lstrip('&').strip(), int(m.group(1))) == fname:
                            return True
                    except Exception:
                        pass
    return False


# ------------------------------------------------------------------------------------ LCK-11
def lck11_worker_never_waits_for_its_own_pool(ctx):
    """The worker pool has a fixed number of threads.  A task that, while it runs on a worker, schedules
    another task on the same pool and blocks until that task has answered needs a second free worker;
    with one worker thread - or with every worker in that position, which the ingestion lock makes easy:
    one holds it and waits for the pool, the others wait for the lock - nothing ever runs again."""
    ctx.rule('LCK-11', 'no code that runs on a worker thread schedules a task on the worker pool and blocks on '
                       'its answer', floor=2)
    P = ctx.P
    sched = [b for b in P.find('InnerLocustDB::schedule') if b.kind == 'fn' and '{closure' not in b.name]
    ctx.require(sched, 'LCK-11: InnerLocustDB::schedule not found')
    sched_names = {b.name for b in sched}
    BLOCK = re.compile(r'(futures::executor::block_on|futures_executor::[\w:]*block_on|mpsc::Receiver::recv|'
                       r'mpsc::Receiver::<[^>]*>::recv|Receiver::recv_timeout|Runtime::block_on)$')
    waiting = {}
    for b in P.fn_bodies():
        if b.crate != 'locustdb':
            continue
        if b._lines is not None and not any(('block_on' in l or '::recv' in l) for l in b._lines):
            continue
        b.parse()
        blk_sites = [t for (blk, t) in b.calls() if not blk.cleanup and BLOCK.search(strip_generic_args(norm_callee(t.func or '')))]
        if not blk_sites:
            continue
        reach = P.reachable_bodies([b])
        if sched_names & set(reach):
            waiting[b.name] = blk_sites[0]
    # bodies that run on a worker thread
    roots = []
    for b in P.fn_bodies():
        if b.crate != 'locustdb':
            continue
        if re.search(r' as (scheduler::task::)?Task>::execute$', b.name) or b.name.endswith('Task>::execute'):
            roots.append(b)
    for b in P.fn_bodies():
        if b.crate != 'locustdb':
            continue
        if b._lines is not None and not any('from_fn' in l or 'FnTask' in l for l in b._lines):
            continue
        b.parse()
        for (blk, t) in b.calls():
            if blk.cleanup or not t.func:
                continue
            if re.search(r'Task>?::from_fn|FnTask::<[^>]*>::new|FnTask::new', t.func):
                roots += list(P.closures_in_text(t.func))
    ctx.require(len(roots) >= 2, 'LCK-11: fewer than 2 bodies that run on a worker thread (%d)' % len(roots))
    seen = set()
    for r in sorted(roots, key=lambda x: x.name):
        if r.name in seen:
            continue
        seen.add(r.name)
        reach = P.reachable_bodies([r])
        bad = sorted(set(reach) & set(waiting))
        short = re.sub(r'^.*?(\w+(?:<[^>]*>)?(?: as [\w:]+)?>?::\w+(?:::\{closure#\d+\})*)$', r'\1', r.name)
        if not bad:
            ctx.ok('LCK-11', '%s|does-not-wait-for-the-pool' % short,
                   'runs on a worker thread; reaches no function that schedules a task on the pool and blocks on it',
                   where(r.blocks[0].term) if r.blocks else None)
        for w in bad:
            # the path for the report
            path = [w]
            cur = reach.get(w)
            while cur is not None and len(path) < 12:
                path.append(cur)
                cur = reach.get(cur)
            ctx.violation('LCK-11', '%s|waits-for-pool|%s' % (short, re.sub(r'^.*?(\w+::\w+)$', r'\1', w)),
                          'runs on a worker thread and reaches %s, which schedules a task on the same pool and blocks '
                          'until it answers (path: %s): with one worker, or with every worker queued behind the '
                          'ingestion lock, nothing runs any more' %
                          (re.sub(r'^.*?(\w+::\w+)$', r'\1', w), ' <- '.join(re.sub(r'^.*?(\w+::\w+)$', r'\1', p) for p in path)),
                          where(waiting[w]))
    ctx.note('LCK-11: %d worker-run bodies; functions that schedule on the pool and block: %s' % (len(seen), sorted(waiting)))
