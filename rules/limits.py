"""FLW-1: arithmetic on LIMIT/OFFSET values (the limit carries the sentinel u64::MAX = "no limit")."""
import re
from collections import defaultdict, deque

from mirlib.dataflow import DefUse, base_local, locals_in, operand_place, strip_strings
from mirlib.program import norm_callee
from .common import where

LIMIT_FIELD_RE = re.compile(r': syntax::limit::LimitClause\)\.(\d+): u64\)')
SANITIZERS = re.compile(r'(::saturating_(add|sub|mul)$|::checked_(add|sub|mul)$|^std::cmp::min$|^core::cmp::min$|Ord>::min$|::min$|::wrapping_(add|sub|mul)$|::overflowing_(add|sub|mul)$)')
ARITH_RE = re.compile(r'^(Add|AddWithOverflow|AddUnchecked|Mul|MulWithOverflow|MulUnchecked|Sub|SubWithOverflow|SubUnchecked)\((.*)\)$')


DEREF_FIELD_RE = re.compile(r'\(\(\*_(\d+)\)\.(\d+): u64\)')
DIRECT_FIELD_RE = re.compile(r'\(_(\d+)\.(\d+): u64\)')


def limit_field_reads(body):
    """[(stmt, field index)] for assignments reading a field of a LimitClause."""
    body.parse()
    out = []
    for bid, blk in body.blocks.items():
        if blk.cleanup:
            continue
        for s in blk.stmts:
            if s.kind != 'assign':
                continue
            m = LIMIT_FIELD_RE.search(s.rhs)
            if m:
                out.append((s, int(m.group(1))))
                continue
            for rx in (DEREF_FIELD_RE, DIRECT_FIELD_RE):
                m = rx.search(s.rhs)
                if m:
                    ty = (body.local_type(int(m.group(1))) or '').replace('&', '').strip()
                    ty = re.sub(r"^'[a-z_]+ ", '', ty)
                    if ty.endswith('syntax::limit::LimitClause'):
                        out.append((s, int(m.group(2))))
                        break
    return out


def _split2(s):
    depth = 0
    for i, c in enumerate(s):
        if c in '([{<':
            depth += 1
        elif c in ')]}>':
            depth -= 1
        elif c == ',' and depth == 0:
            return s[:i].strip(), s[i + 1:].strip()
    return s, ''


def limit_taint(ctx):
    """Interprocedural forward taint of values read from LimitClause fields.
    Returns {body name: {local: origin text}}."""
    P = ctx.P
    cache = getattr(ctx, '_limit_taint', None)
    if cache is not None:
        return cache
    du_cache = {}

    def du(b):
        if b.name not in du_cache:
            du_cache[b.name] = DefUse(b)
        return du_cache[b.name]
    taint = defaultdict(dict)      # body name -> local -> origin
    work = deque()
    # seeds
    for b in P.fn_bodies():
        if b.crate != 'locustdb':
            continue
        if re.search(r' as (Debug|Clone|Serialize|Deserialize|PartialEq|Hash)', b.name):
            continue
        for (s, fld) in limit_field_reads(b):
            l = base_local(s.lhs)
            org = 'LimitClause.%s' % ('limit' if fld == 0 else 'offset')
            if l is not None and l not in taint[b.name]:
                taint[b.name][l] = org
                work.append((b, l))
    # propagate
    while work:
        b, l = work.popleft()
        org = taint[b.name][l]
        d = du(b)
        for (bid, kind, obj) in d.uses.get(l, []):
            if kind == 'stmt' and obj.kind == 'assign':
                tgt = base_local(obj.lhs)
                if tgt is None or tgt in taint[b.name]:
                    continue
                # comparisons produce booleans: not a tainted quantity
                if re.match(r'^(Lt|Le|Gt|Ge|Eq|Ne)\(', obj.rhs):
                    continue
                # arithmetic results stay tainted (still derived from the sentinel)
                taint[b.name][tgt] = org
                work.append((b, tgt))
            elif kind == 'term' and obj.kind == 'call':
                n = norm_callee(obj.func)
                if SANITIZERS.search(n):
                    continue
                callees = P.resolve(obj.func, b.crate)
                idxs = [i for i, a in enumerate(obj.args) if l in locals_in(a)
                        and re.match(r'^(move|copy) _\d+$', a.strip())]
                if callees:
                    for cb in callees:
                        cb.parse()
                        for i in idxs:
                            if i < len(cb.args):
                                pl = cb.args[i][0]
                                ty = cb.args[i][1]
                                if not re.match(r'^(usize|u64|u32|i64)$', ty):
                                    continue
                                if pl not in taint[cb.name]:
                                    taint[cb.name][pl] = org + ' via ' + b.name.split('::')[-1]
                                    work.append((cb, pl))
                else:
                    # external pure conversions keep the value
                    m = n.split('::')[-1]
                    if m in ('from', 'into', 'try_into', 'try_from', 'clone', 'unwrap', 'max') and idxs:
                        tgt = base_local(obj.dest)
                        if tgt is not None and tgt not in taint[b.name]:
                            taint[b.name][tgt] = org
                            work.append((b, tgt))
        # returned from this body?
        if l == 0 or 0 in taint[b.name]:
            pass
    # return-value propagation (one more fixpoint round over callers)
    changed = True
    rounds = 0
    while changed and rounds < 5:
        changed = False
        rounds += 1
        for b in P.fn_bodies():
            if 0 in taint.get(b.name, {}):
                for (caller, kind, blkid) in P.callers().get(b.name, []):
                    cb = P.body(caller)
                    if cb is None or kind != 'call':
                        continue
                    t = cb.parse().blocks[blkid].term
                    tgt = base_local(t.dest)
                    if tgt is not None and tgt not in taint[cb.name]:
                        taint[cb.name][tgt] = taint[b.name][0] + ' via ' + b.name.split('::')[-1]
                        changed = True
                        # local propagation inside caller
                        work.append((cb, tgt))
        while work:
            b, l = work.popleft()
            org = taint[b.name][l]
            d = du(b)
            for (bid, kind, obj) in d.uses.get(l, []):
                if kind == 'stmt' and obj.kind == 'assign':
                    tgt = base_local(obj.lhs)
                    if tgt is None or tgt in taint[b.name] or re.match(r'^(Lt|Le|Gt|Ge|Eq|Ne)\(', obj.rhs):
                        continue
                    taint[b.name][tgt] = org
                    work.append((b, tgt))
                    changed = True
    ctx._limit_taint = taint
    return taint


def flw1_limit_arithmetic(ctx, release=False):
    ctx.rule('FLW-1', 'no unchecked + / * on a value derived from LIMIT/OFFSET (the limit may be the '
                      'sentinel u64::MAX) and no unchecked subtraction of such a value', floor=2)
    P = ctx.P
    taint = limit_taint(ctx)
    n_tainted = sum(len(v) for v in taint.values())
    ctx.require(n_tainted >= 4, 'FLW-1: LimitClause field reads not found (anchor)')
    ctx.extra['limit_taint_bodies'] = sorted(k for k, v in taint.items() if v)
    sites = 0
    for bname, tl in sorted(taint.items()):
        b = P.body(bname)
        if b is None or not tl:
            continue
        for bid in sorted(b.blocks):
            blk = b.blocks[bid]
            if blk.cleanup:
                continue
            for s in blk.stmts:
                if s.kind != 'assign':
                    continue
                m = ARITH_RE.match(s.rhs)
                if not m:
                    continue
                op = m.group(1)
                a1, a2 = _split2(m.group(2))
                l1 = base_local(a1) if not a1.startswith('const') else None
                l2 = base_local(a2) if not a2.startswith('const') else None
                bad = None
                if op.startswith(('Add', 'Mul')):
                    if l1 in tl:
                        bad = tl[l1]
                    elif l2 in tl:
                        bad = tl[l2]
                else:
                    if l2 in tl:
                        bad = tl[l2]
                if bad is None:
                    continue
                sites += 1
                ctx.violation('FLW-1', '%s|%s' % (bname, op.replace('WithOverflow', '')),
                              'unchecked %s on a value derived from %s: panics (debug) or wraps '
                              '(release) for OFFSET without LIMIT / offset past the end'
                              % (op, bad), where(s))
    # positive evidence: the sanitised sites
    n_ok = 0
    for bname, tl in sorted(taint.items()):
        b = P.body(bname)
        if b is None:
            continue
        for blk, t in b.calls():
            if blk.cleanup:
                continue
            n = norm_callee(t.func)
            if SANITIZERS.search(n) and any(l in tl for a in t.args for l in locals_in(a)):
                n_ok += 1
                ctx.ok('FLW-1', '%s|%s' % (bname, n.split('::')[-1]),
                       'limit/offset arithmetic goes through %s' % n.split('::')[-1], where(t))
    return sites
