//! Probe for D41 (schema-valid wire messages the ingestion code cannot apply). Not run by any registered check.
use std::sync::{mpsc, Arc};
use std::thread;
use std::time::Duration;
use locustdb::LocustDB;
use locustdb_serialization::event_buffer::EventBuffer;
use locustdb_serialization::wal_segment_capnp::table_segment_list;
fn block_on<F: std::future::Future>(f: F) -> F::Output {
    tokio::runtime::Builder::new_current_thread().enable_all().build().unwrap().block_on(f)
}
fn with_deadline<T: Send + 'static>(secs: u64, f: impl FnOnce() -> T + Send + 'static) -> Option<T> {
    let (tx, rx) = mpsc::channel();
    thread::spawn(move || { let _ = tx.send(f()); });
    rx.recv_timeout(Duration::from_secs(secs)).ok()
}
/// A message every field of which is schema-valid: table `t`, len 4, one sparse float column whose
/// indices are not increasing / beyond the table length, or a dense column longer than the table.
fn message(kind: u8) -> Vec<u8> {
    let mut builder = capnp::message::Builder::new_default();
    {
        let list = builder.init_root::<table_segment_list::Builder>();
        let mut data = list.init_data(1);
        let mut table = data.reborrow().get(0);
        table.set_len(4);
        table.set_name("t");
        let mut cols = table.init_columns(2);
        {
            let mut c = cols.reborrow().get(0);
            c.set_name("id");
            c.get_data().set_i64(&[0i64, 1, 2, 3][..]).unwrap();
        }
        let mut c = cols.reborrow().get(1);
        c.set_name("x");
        match kind {
            0 => { let mut s = c.get_data().init_sparse_f64(); s.reborrow().set_indices(&[3u64, 1][..]).unwrap(); s.reborrow().set_values(&[1.0f64, 2.0][..]).unwrap(); }
            1 => { let mut s = c.get_data().init_sparse_f64(); s.reborrow().set_indices(&[9u64][..]).unwrap(); s.reborrow().set_values(&[1.0f64][..]).unwrap(); }
            _ => { c.get_data().set_f64(&[1.0f64, 2.0, 3.0, 4.0, 5.0, 6.0][..]).unwrap(); }
        }
    }
    let mut buf = Vec::new();
    capnp::serialize_packed::write_message(&mut buf, &builder).unwrap();
    buf
}
#[test]
fn d41_inconsistent_wire_message() {
    for kind in 0..3u8 {
        let dir = tempfile::tempdir().unwrap();
        let mut opts = locustdb::Options::default();
        opts.db_path = Some(dir.path().to_path_buf());
        let bytes = message(kind);
        let decoded = EventBuffer::deserialize(&bytes);
        println!("D41 kind {kind}: deserialize ok = {}", decoded.is_ok());
        if let Ok(events) = decoded {
            {
                let db = Arc::new(LocustDB::new(&opts));
                let db2 = db.clone();
                let r = with_deadline(20, move || std::panic::catch_unwind(std::panic::AssertUnwindSafe(|| block_on(db2.ingest_efficient(events)))).is_ok());
                println!("D41 kind {kind}: ingest ok = {:?}", r);
            }
            let opts2 = opts.clone();
            let r = with_deadline(30, move || std::panic::catch_unwind(std::panic::AssertUnwindSafe(|| { let _db = LocustDB::new(&opts2); })).is_ok());
            println!("D41 kind {kind}: reopen ok = {:?}", r);
        }
    }
}
