//! Probe for D28: one flipped bit in a partition file. Goes to tests/ of a scratch worktree; not run by any check.
use std::collections::HashMap;
use std::sync::{mpsc, Arc};
use std::thread;
use std::time::Duration;
use locustdb::LocustDB;
use locustdb_serialization::api::AnyVal;
use locustdb_serialization::event_buffer::{EventBuffer, TableBuffer};
fn block_on<F: std::future::Future>(f: F) -> F::Output {
    tokio::runtime::Builder::new_current_thread().enable_all().build().unwrap().block_on(f)
}
fn query_deadline(db: &Arc<LocustDB>, q: &str, secs: u64) -> Option<String> {
    let (tx, rx) = mpsc::channel();
    let db = db.clone();
    let q2 = q.to_string();
    thread::spawn(move || {
        let r = block_on(db.run_query(&q2, false, true, vec![]));
        let _ = tx.send(match r { Ok(o) => format!("{:?}", o.rows), Err(e) => format!("ERR {}", format!("{:?}", e).chars().take(160).collect::<String>()) });
    });
    rx.recv_timeout(Duration::from_secs(secs)).ok()
}
fn walk(dir: &std::path::Path, out: &mut Vec<std::path::PathBuf>) {
    for e in std::fs::read_dir(dir).unwrap() { let p = e.unwrap().path(); if p.is_dir() { walk(&p, out) } else { out.push(p) } }
}
#[test]
fn corrupted_partition_file() {
    let dir = tempfile::tempdir().unwrap();
    let mut opts = locustdb::Options::default();
    opts.db_path = Some(dir.path().to_path_buf());
    opts.threads = 2;
    {
        let db = Arc::new(LocustDB::new(&opts));
        let mut tb = TableBuffer::default();
        for i in 0..1000i64 { tb.push_row_and_timestamp(vec![("a".to_string(), AnyVal::Int(i)), ("b".to_string(), AnyVal::Int(i * 2))]); }
        block_on(db.ingest_efficient(EventBuffer { tables: HashMap::from([("t".to_string(), tb)]) }));
        db.force_flush();
    }
    let mut files = vec![]; walk(dir.path(), &mut files);
    let part = files.iter().find(|p| p.to_string_lossy().contains("/tables/t/") && p.extension().map_or(false, |e| e == "part")).expect("partition file").clone();
    let mut bytes = std::fs::read(&part).unwrap();
    let n = bytes.len(); bytes[n - 5] ^= 0x40;
    std::fs::write(&part, bytes).unwrap();
    println!("D28 corrupted {:?}", part);
    let db = Arc::new(LocustDB::new(&opts));
    for q in ["SELECT sum(a) FROM t", "SELECT sum(a) FROM t", "SELECT sum(b) FROM t", "SELECT count(1) FROM _meta_tables"] {
        let r = query_deadline(&db, q, 15);
        println!("D28 {q:?}: {r:?}");
    }
}
