//! Probe for D35 (registry rows that forward a NULL operand). Not run by any registered check.
use std::collections::HashMap;
use std::sync::Arc;
use locustdb::LocustDB;
use locustdb_serialization::api::AnyVal;
use locustdb_serialization::event_buffer::{EventBuffer, TableBuffer};
fn block_on<F: std::future::Future>(f: F) -> F::Output {
    tokio::runtime::Builder::new_current_thread().enable_all().build().unwrap().block_on(f)
}
#[test]
fn d35_null_forwarding() {
    let db = Arc::new(LocustDB::memory_only());
    let mut tb = TableBuffer::default();
    for i in 0..6i64 {
        tb.push_row_and_timestamp(vec![("id".to_string(), AnyVal::Int(i)), ("x".to_string(), AnyVal::Int(i * 10)), ("s".to_string(), AnyVal::Str(format!("s{}", i)))]);
    }
    block_on(db.ingest_efficient(EventBuffer { tables: HashMap::from([("t".to_string(), tb)]) }));
    for q in ["SELECT id, x + missing FROM t ORDER BY id LIMIT 2", "SELECT id, x - missing FROM t ORDER BY id LIMIT 2", "SELECT id, x % missing FROM t ORDER BY id LIMIT 2", "SELECT id, x * missing FROM t ORDER BY id LIMIT 2",
              "SELECT id FROM t WHERE x < missing", "SELECT id FROM t WHERE x <= missing", "SELECT id FROM t WHERE s = missing", "SELECT id FROM t WHERE missing > s", "SELECT id FROM t WHERE x < missing OR id = 1", "SELECT count(1) FROM t"] {
        let r = block_on(db.run_query(q, false, true, vec![]));
        println!("D35 {q}: {}", match r { Ok(o) => format!("{:?}", o.rows), Err(e) => format!("ERR {}", format!("{:?}", e).chars().take(110).collect::<String>()) });
    }
}
