// Scratch probe: confirms candidate defects against the real code. Not part of /verif machinery.
use std::collections::HashMap;
use std::path::PathBuf;
use std::sync::mpsc;
use std::sync::Arc;
use std::thread;
use std::time::Duration;

fn block_on<F: std::future::Future>(f: F) -> F::Output { tokio::runtime::Builder::new_current_thread().enable_all().build().unwrap().block_on(f) }
use locustdb::LocustDB;
use locustdb_serialization::event_buffer::{ColumnBuffer, ColumnData, EventBuffer, TableBuffer};
use tempfile::tempdir;

fn with_deadline<T: Send + 'static, F: FnOnce() -> T + Send + 'static>(
    name: &str,
    secs: u64,
    f: F,
) -> Option<T> {
    let (tx, rx) = mpsc::channel();
    let n = name.to_string();
    thread::spawn(move || {
        let r = std::panic::catch_unwind(std::panic::AssertUnwindSafe(f));
        match r {
            Ok(v) => {
                let _ = tx.send(Some(v));
            }
            Err(e) => {
                let msg = e
                    .downcast_ref::<String>()
                    .cloned()
                    .or_else(|| e.downcast_ref::<&str>().map(|s| s.to_string()))
                    .unwrap_or_default();
                println!("PROBE {}: PANIC-IN-CALLER: {}", n, msg);
                let _ = tx.send(None);
            }
        }
    });
    match rx.recv_timeout(Duration::from_secs(secs)) {
        Ok(v) => v,
        Err(_) => {
            println!("PROBE {}: HANG (> {}s)", name, secs);
            None
        }
    }
}

fn ints(db: &LocustDB, table: &str, cols: Vec<(&str, Vec<i64>)>) {
    let mut columns = HashMap::new();
    for (n, v) in cols {
        columns.insert(n.to_string(), ColumnBuffer { data: ColumnData::I64(v) });
    }
    let eb = EventBuffer {
        tables: HashMap::from([(table.to_string(), TableBuffer::new(columns))]),
    };
    block_on(db.ingest_efficient(eb));
}

fn strs(db: &LocustDB, table: &str, col: &str, v: Vec<String>) {
    let mut columns = HashMap::new();
    columns.insert(col.to_string(), ColumnBuffer { data: ColumnData::String(v) });
    let eb = EventBuffer {
        tables: HashMap::from([(table.to_string(), TableBuffer::new(columns))]),
    };
    block_on(db.ingest_efficient(eb));
}

fn q(_db: &Arc<LocustDB>, name: &str, query: &str) {
    let opts = locustdb::Options { threads: 2, ..locustdb::Options::default() };
    let db = &Arc::new(LocustDB::new(&opts));
    ints(db, "t", vec![("a", (0..10).collect()), ("b", vec![-1; 10]), ("m", vec![i64::MIN; 10]), ("c", (1000..1010).collect())]);
    let db2 = db.clone();
    let query2 = query.to_string();
    let r = with_deadline(name, 10, move || {
        block_on(db2.run_query(&query2, false, true, vec![]))
    });
    match r {
        Some(Ok(out)) => println!(
            "PROBE {}: OK rows={:?}",
            name,
            out.rows.map(|r| r.len())
        ),
        Some(Err(e)) => println!("PROBE {}: ERR {:?}", name, format!("{}", e)),
        None => {}
    }
    // canary
    let db3 = db.clone();
    let c = with_deadline(&format!("{}-canary", name), 10, move || {
        block_on(db3.run_query("select a from t limit 1", false, true, vec![]))
    });
    match c {
        Some(Ok(_)) => {}
        other => println!("PROBE {}: CANARY FAILED {:?}", name, other.map(|r| r.map(|_| ()).map_err(|e| e.to_string()))),
    }
}

#[test]
fn probe_queries() {
    let opts = locustdb::Options {
        threads: 2,
        ..locustdb::Options::default()
    };
    let db = Arc::new(LocustDB::new(&opts));
    ints(
        &db,
        "t",
        vec![
            ("a", (0..10).collect()),
            ("b", vec![-1; 10]),
            ("m", vec![i64::MIN; 10]),
        ],
    );
    q(&db, "E12-const-encode-overflow", "select c from t where c < -9223372036854775807");
    q(&db, "E12b-const-encode-overflow-gt", "select c from t where c > 9223372036854775806 - 0");
    q(&db, "E13-strip-quotes", "select `\"` from t");
    q(&db, "E14-limit-max-offset", "select a from t limit 18446744073709551615 offset 1");
    q(&db, "E1a-empty", "");
    q(&db, "E1b-limit-frac", "select a from t limit 1.5");
    q(&db, "E1c-limit-huge", "select a from t limit 99999999999999999999999");
    q(&db, "E1d-offset-frac", "select a from t limit 1 offset 1.5");
    q(&db, "E2-offset-nolimit", "select a from t offset 5");
    q(&db, "E2b-orderby-offset-nolimit", "select a from t order by a offset 5");
    q(&db, "E3-offset-beyond", "select a from t limit 10 offset 100");
    q(&db, "E4-sum-div-zero", "select sum(a)/0 from t");
    q(&db, "E4b-div-zero", "select a/0 from t");
    q(&db, "E10-min-mod-minus1", "select m % b from t");
    q(&db, "E10b-min-div-minus1", "select m / b from t");
}

#[test]
fn probe_hex_compaction() {
    let db_path: PathBuf = tempdir().unwrap().path().into();
    let opts = locustdb::Options {
        db_path: Some(db_path),
        threads: 2,
        partition_combine_factor: 0,
        metrics_table_name: None,
        ..locustdb::Options::default()
    };
    let db = Arc::new(LocustDB::new(&opts));
    for round in 0..3 {
        let v: Vec<String> = (0..20)
            .map(|i| format!("{:016x}", (i as u64 + 100 * round as u64 + 1).wrapping_mul(0x9e3779b97f4a7c15)))
            .collect();
        strs(&db, "h", "hex", v);
        let db2 = db.clone();
        let r = with_deadline(&format!("E5-hex-flush-{}", round), 20, move || db2.force_flush());
        if r.is_none() {
            println!("PROBE E5: flush {} did not complete", round);
            break;
        } else {
            println!("PROBE E5: flush {} ok", round);
        }
    }
}

#[test]
fn probe_lz4_u16_compaction() {
    let db_path: PathBuf = tempdir().unwrap().path().into();
    let opts = locustdb::Options {
        db_path: Some(db_path),
        threads: 2,
        partition_combine_factor: 0,
        metrics_table_name: None,
        ..locustdb::Options::default()
    };
    let db = Arc::new(LocustDB::new(&opts));
    // 50 pseudo-random u16-range values repeated 200 times: LZ4 should beat pco
    let block: Vec<i64> = (0..50).map(|i| 300 + ((i * 7919 + 13) % 60000) as i64).collect();
    for round in 0..3 {
        let mut v = Vec::new();
        for _ in 0..200 {
            v.extend(block.iter().cloned());
        }
        ints(&db, "u", vec![("x", v)]);
        let db2 = db.clone();
        let r = with_deadline(&format!("E6-lz4u16-flush-{}", round), 20, move || db2.force_flush());
        if r.is_none() {
            println!("PROBE E6: flush {} did not complete", round);
            break;
        } else {
            println!("PROBE E6: flush {} ok", round);
        }
    }
}

#[test]
fn probe_leftover_tempfile_recovery() {
    let dir = tempdir().unwrap();
    let db_path: PathBuf = dir.path().into();
    let opts = locustdb::Options {
        db_path: Some(db_path.clone()),
        threads: 2,
        metrics_table_name: None,
        ..locustdb::Options::default()
    };
    {
        let db = LocustDB::new(&opts);
        ints(&db, "t", vec![("a", (0..10).collect())]);
        drop(db);
    }
    thread::sleep(Duration::from_millis(500));
    // simulate crash in the middle of FileBlobWriter::store of the next wal segment
    let wal = db_path.join("wal");
    let listing: Vec<_> = std::fs::read_dir(&wal).unwrap().map(|e| e.unwrap().file_name()).collect();
    println!("PROBE E7: wal dir before = {:?}", listing);
    std::fs::write(wal.join("7..INCOMPLETE"), b"partial").unwrap();
    let opts2 = opts.clone();
    let r = with_deadline("E7-recover-with-tempfile", 15, move || {
        let db = LocustDB::new(&opts2);
        let out = block_on(db.run_query("select a from t", false, true, vec![]));
        out.map(|o| o.rows.map(|r| r.len())).map_err(|e| e.to_string())
    });
    println!("PROBE E7: result = {:?}", r);
}

#[test]
fn probe_api_int_extremes() {
    use locustdb_serialization::api::{Column, MultiQueryResponse, QueryResponse};
    let r = with_deadline("E9-api-int-extremes", 10, || {
        let resp = MultiQueryResponse {
            responses: vec![QueryResponse {
                columns: HashMap::from([(
                    "x".to_string(),
                    Column::Int(vec![i64::MIN, i64::MAX, 0, i64::MAX]),
                )]),
            }],
        };
        let bytes = resp.serialize();
        let back = MultiQueryResponse::deserialize(&bytes).unwrap();
        format!("{:?}", back.responses[0].columns["x"])
    });
    println!("PROBE E9: {:?}", r);
}

#[test]
fn probe_evict_vs_flush_race() {
    let db_path: PathBuf = tempdir().unwrap().path().into();
    let opts = locustdb::Options {
        db_path: Some(db_path),
        threads: 2,
        partition_combine_factor: 999,
        metrics_table_name: None,
        ..locustdb::Options::default()
    };
    let db = Arc::new(LocustDB::new(&opts));
    let stop = Arc::new(std::sync::atomic::AtomicBool::new(false));
    let mut evictors = vec![];
    for _ in 0..4 {
        let db2 = db.clone();
        let stop2 = stop.clone();
        evictors.push(thread::spawn(move || {
            while !stop2.load(std::sync::atomic::Ordering::SeqCst) {
                db2.evict_cache();
            }
        }));
    }
    let mut hung = false;
    for round in 0..200 {
        let cols: Vec<(String, Vec<i64>)> = (0..300).map(|c| (format!("c{:03}", c), vec![round as i64; 4])).collect();
        let mut columns = HashMap::new();
        for (n, v) in cols {
            columns.insert(n, ColumnBuffer { data: ColumnData::I64(v) });
        }
        let eb = EventBuffer { tables: HashMap::from([("w".to_string(), TableBuffer::new(columns))]) };
        block_on(db.ingest_efficient(eb));
        let db2 = db.clone();
        let r = with_deadline(&format!("E11-evict-race-flush-{}", round), 20, move || db2.force_flush());
        if r.is_none() {
            println!("PROBE E11: flush {} did not complete", round);
            hung = true;
            break;
        }
    }
    stop.store(true, std::sync::atomic::Ordering::SeqCst);
    println!("PROBE E11: hung={}", hung);
}

#[test]
fn probe_meta_columns_compaction_after_restart() {
    let dir = tempdir().unwrap();
    let db_path: PathBuf = dir.path().into();
    let opts = locustdb::Options {
        db_path: Some(db_path.clone()),
        threads: 2,
        partition_combine_factor: 0,
        metrics_table_name: None,
        ..locustdb::Options::default()
    };
    {
        let db = LocustDB::new(&opts);
        ints(&db, "t", vec![("a", (0..10).collect()), ("b", (0..10).collect())]);
        db.force_flush();
        let out = block_on(db.run_query("select * from t", false, true, vec![])).unwrap();
        println!("PROBE E15: before restart colnames={:?}", out.colnames);
        drop(db);
    }
    thread::sleep(Duration::from_millis(500));
    let opts2 = opts.clone();
    let r = with_deadline("E15-meta-compaction", 30, move || {
        let db = LocustDB::new(&opts2);
        ints(&db, "t", vec![("a", (0..10).collect()), ("b", (0..10).collect())]);
        db.force_flush();
        let out = block_on(db.run_query("select * from t", false, true, vec![]));
        let s1 = format!("{:?}", out.map(|o| (o.colnames, o.rows.map(|r| r.len()))).map_err(|e| e.to_string()));
        let out2 = block_on(db.run_query("select column_name from \"_meta_columns_t\"", false, true, vec![]));
        let s2 = format!("{:?}", out2.map(|o| o.rows).map_err(|e| e.to_string()));
        (s1, s2)
    });
    println!("PROBE E15: after restart+flush: {:?}", r);
}
