//! Probe for D8: compaction of a hex-packed string column (`CodecOp::UnhexpackStrings`).
//! Goes to tests/probe_d8.rs of a scratch worktree; public API only.
use std::collections::HashMap;
use std::sync::mpsc;
use std::sync::Arc;
use std::thread;
use std::time::Duration;

use locustdb::value_syntax::*;
use locustdb::{LocustDB, Options, Value};
use locustdb_serialization::api::AnyVal;
use locustdb_serialization::event_buffer::{EventBuffer, TableBuffer};

fn block_on<F: std::future::Future>(f: F) -> F::Output {
    tokio::runtime::Builder::new_current_thread().enable_all().build().unwrap().block_on(f)
}

fn query(db: &LocustDB, q: &str) -> Vec<Vec<Value>> {
    block_on(db.run_query(q, false, true, vec![])).unwrap().rows.unwrap()
}

fn ingest(db: &LocustDB, rows: Vec<Vec<(String, AnyVal)>>) {
    let mut tb = TableBuffer::default();
    for row in rows {
        tb.push_row_and_timestamp(row);
    }
    block_on(db.ingest_efficient(EventBuffer { tables: HashMap::from([("h".to_string(), tb)]) }));
}

fn run(uppercase: bool) {
    let dir = tempfile::tempdir().unwrap();
    let opts = Options {
        db_path: Some(dir.path().join("db")),
        threads: 2,
        partition_combine_factor: 0,
        metrics_table_name: None,
        ..Options::default()
    };
    let db = Arc::new(LocustDB::new(&opts));
    let mut expected: Vec<(i64, String)> = vec![];
    for round in 0..3i64 {
        let rows = (0..20i64)
            .map(|i| {
                let id = round * 20 + i;
                let x = (id as u64 + 1).wrapping_mul(0x9e3779b97f4a7c15);
                let s = if uppercase { format!("{:016X}", x) } else { format!("{:016x}", x) };
                expected.push((id, s.clone()));
                vec![("id".to_string(), AnyVal::Int(id)), ("hex".to_string(), AnyVal::Str(s))]
            })
            .collect();
        ingest(&db, rows);
        let (tx, rx) = mpsc::channel();
        let db2 = db.clone();
        thread::spawn(move || {
            db2.force_flush();
            let _ = tx.send(());
        });
        assert!(
            rx.recv_timeout(Duration::from_secs(30)).is_ok(),
            "D8: force_flush #{round} did not return (compaction job died)"
        );
        let got = query(&db, "SELECT id, hex FROM h ORDER BY id LIMIT 1000");
        let want: Vec<Vec<Value>> = expected.iter().map(|(id, s)| vec![Int(*id), Str(s)]).collect();
        assert_eq!(got, want, "D8: content after flush #{round}");
        println!("D8 uppercase={uppercase}: flush {round} ok, {} rows intact", got.len());
    }
}

#[test]
fn d8_lowercase_hex_column_survives_compaction() {
    run(false)
}

#[test]
fn d8_uppercase_hex_column_survives_compaction() {
    run(true)
}
