//! Probe for D42 (hand-built sparse-only table buffer). Not run by any registered check.
use std::collections::HashMap;
use std::sync::{mpsc, Arc};
use std::thread;
use std::time::Duration;
use locustdb::LocustDB;
use locustdb_serialization::event_buffer::{ColumnBuffer, ColumnData, EventBuffer, TableBuffer};
fn block_on<F: std::future::Future>(f: F) -> F::Output {
    tokio::runtime::Builder::new_current_thread().enable_all().build().unwrap().block_on(f)
}
fn with_deadline<T: Send + 'static>(secs: u64, f: impl FnOnce() -> T + Send + 'static) -> Option<T> {
    let (tx, rx) = mpsc::channel();
    thread::spawn(move || { let _ = tx.send(f()); });
    rx.recv_timeout(Duration::from_secs(secs)).ok()
}
#[test]
fn d42_sparse_only_table_built_with_the_public_constructor() {
    let dir = tempfile::tempdir().unwrap();
    let mut opts = locustdb::Options::default();
    opts.db_path = Some(dir.path().to_path_buf());
    {
        let db = Arc::new(LocustDB::new(&opts));
        let good = TableBuffer::new(HashMap::from([("id".to_string(), ColumnBuffer { data: ColumnData::I64(vec![1, 2, 3]) })]));
        block_on(db.ingest_efficient(EventBuffer { tables: HashMap::from([("good".to_string(), good)]) }));
        // len is taken from the number of entries (2), the row indices are 5 and 9
        let tb = TableBuffer::new(HashMap::from([("a".to_string(), ColumnBuffer { data: ColumnData::Sparse(vec![(5, 1.0), (9, 2.0)]) })]));
        let db2 = db.clone();
        let r = with_deadline(20, move || std::panic::catch_unwind(std::panic::AssertUnwindSafe(|| block_on(db2.ingest_efficient(EventBuffer { tables: HashMap::from([("t".to_string(), tb)]) })))).is_ok());
        println!("D42 ingest ok = {:?}", r);
        let more = TableBuffer::new(HashMap::from([("id".to_string(), ColumnBuffer { data: ColumnData::I64(vec![4]) })]));
        let db3 = db.clone();
        let r = with_deadline(20, move || std::panic::catch_unwind(std::panic::AssertUnwindSafe(|| block_on(db3.ingest_efficient(EventBuffer { tables: HashMap::from([("good".to_string(), more)]) })))).is_ok());
        println!("D42 next ingest ok = {:?}", r);
    }
    let opts2 = opts.clone();
    let r = with_deadline(30, move || std::panic::catch_unwind(std::panic::AssertUnwindSafe(|| {
        let db = Arc::new(LocustDB::new(&opts2));
        let r = block_on(db.run_query("SELECT count(1) FROM good", false, true, vec![]));
        format!("{:?}", r.map(|o| o.rows))
    })).ok());
    println!("D42 reopen: {:?}", r);
}
