//! Probe for D26 (OR is not three-valued, open) and D27 (AND with a Null-typed operand).
//! Goes to tests/ of a scratch worktree; public API only; not run by any registered check.
use std::collections::HashMap;
use std::sync::Arc;
use locustdb::LocustDB;
use locustdb_serialization::api::AnyVal;
use locustdb_serialization::event_buffer::{EventBuffer, TableBuffer};
fn block_on<F: std::future::Future>(f: F) -> F::Output {
    tokio::runtime::Builder::new_current_thread().enable_all().build().unwrap().block_on(f)
}
#[test]
fn or_three_valued() {
    let db = Arc::new(LocustDB::memory_only());
    let mut tb = TableBuffer::default();
    // id 0..20, k = id, a = id when id % 3 != 0 else NULL
    for i in 0..20i64 {
        let mut row = vec![("id".to_string(), AnyVal::Int(i)), ("k".to_string(), AnyVal::Int(i))];
        if i % 3 != 0 { row.push(("a".to_string(), AnyVal::Int(i))); }
        tb.push_row_and_timestamp(row);
    }
    block_on(db.ingest_efficient(EventBuffer { tables: HashMap::from([("t".to_string(), tb)]) }));
    let expect = |p: &dyn Fn(i64, Option<i64>) -> bool| -> Vec<i64> { (0..20i64).filter(|&i| p(i, if i % 3 != 0 { Some(i) } else { None })).collect() };
    let cases: Vec<(&str, Vec<i64>)> = vec![
        ("a IS NULL OR a > 15", expect(&|_, a| a.is_none() || a.map_or(false, |a| a > 15))),
        ("a > 15 OR k < 4", expect(&|k, a| a.map_or(false, |a| a > 15) || k < 4)),
        ("k < 4 OR a > 15", expect(&|k, a| a.map_or(false, |a| a > 15) || k < 4)),
        ("a > 15 AND k > 4", expect(&|k, a| a.map_or(false, |a| a > 15) && k > 4)),
        ("a > 15", expect(&|_, a| a.map_or(false, |a| a > 15))),
        ("nonexist = 1 AND k > 4", vec![]),
        ("k > 4 AND nonexist = 1", vec![]),
        ("nonexist = 1 OR k > 17", vec![18, 19]),
        ("(nonexist = 1 AND k > 4) OR k > 17", vec![18, 19]),
        ("nonexist IS NULL AND k > 17", vec![18, 19]),
    ];
    for (pred, want) in cases {
        let q = format!("SELECT id FROM t WHERE {} ORDER BY id LIMIT 100", pred);
        let r = block_on(db.run_query(&q, false, true, vec![]));
        let got = match r { Ok(o) => format!("{:?}", o.rows.unwrap().iter().map(|r| format!("{:?}", r[0])).collect::<Vec<_>>()), Err(e) => format!("ERR {:?}", e).chars().take(100).collect() };
        println!("OR3 {pred}: got {got}  want {want:?}");
    }
}
