//! Probe for D22 (try_bitpacking filters twice) and D23 (IS [NOT] NULL constant ignores the filter).
//! Goes to tests/probe_d22.rs of a scratch worktree; public API only. Documentation of the demonstration,
//! not run by any registered check.
use std::collections::HashMap;
use std::sync::Arc;
use locustdb::LocustDB;
use locustdb_serialization::api::AnyVal;
use locustdb_serialization::event_buffer::{EventBuffer, TableBuffer};

fn block_on<F: std::future::Future>(f: F) -> F::Output {
    tokio::runtime::Builder::new_current_thread().enable_all().build().unwrap().block_on(f)
}

#[test]
fn gb_two_keys_with_filter() {
    let db = Arc::new(LocustDB::memory_only());
    let mut tb = TableBuffer::default();
    // reference
    let mut reference: std::collections::BTreeMap<(i64,i64),i64> = Default::default();
    for i in 0..1000i64 {
        let a = i % 3; let b = (i / 7) % 4; let c = (i * 37) % 11;
        tb.push_row_and_timestamp(vec![("a".to_string(), AnyVal::Int(a)),("b".to_string(), AnyVal::Int(b)),("c".to_string(), AnyVal::Int(c))]);
        if c > 5 { *reference.entry((a,b)).or_default() += 1; }
    }
    block_on(db.ingest_efficient(EventBuffer { tables: HashMap::from([("t".to_string(), tb)]) }));
    for q in ["SELECT a, b, count(0) FROM t WHERE c > 5", "SELECT a, b, count(0) FROM t WHERE c > 5 AND a < 100", "SELECT a, count(0) FROM t WHERE c > 5", "SELECT a, a IS NULL FROM t WHERE c > 9", "SELECT a IS NOT NULL, count(0) FROM t WHERE c > 5", "SELECT a, a IS NULL FROM t ORDER BY c LIMIT 3", "SELECT count(0) FROM t WHERE c > 5", "SELECT a, b, count(0) FROM t"] {
        let r = block_on(db.run_query(q, true, true, vec![])); let r = match r { Ok(r) => format!("{:?}", r.rows.map(|x| if x.len() > 14 { x[..14].to_vec() } else { x })), Err(e) => format!("ERR {:?}", e) };
        println!("{q}: {:?}", r);
    }
    println!("ref {:?}", reference);
}
