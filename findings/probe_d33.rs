//! Probe for D33 (encode_int overflow) and D34 (floor decodes twice). Not run by any registered check.
use std::collections::HashMap;
use std::sync::{mpsc, Arc};
use std::thread;
use std::time::Duration;
use locustdb::LocustDB;
use locustdb_serialization::api::AnyVal;
use locustdb_serialization::event_buffer::{EventBuffer, TableBuffer};
fn block_on<F: std::future::Future>(f: F) -> F::Output {
    tokio::runtime::Builder::new_current_thread().enable_all().build().unwrap().block_on(f)
}
fn query_deadline(db: &Arc<LocustDB>, q: &str, secs: u64) -> Option<String> {
    let (tx, rx) = mpsc::channel();
    let db = db.clone();
    let q2 = q.to_string();
    thread::spawn(move || {
        let r = block_on(db.run_query(&q2, false, true, vec![]));
        let _ = tx.send(match r { Ok(o) => format!("{:?}", o.rows), Err(e) => format!("ERR {}", format!("{:?}", e).chars().take(120).collect::<String>()) });
    });
    rx.recv_timeout(Duration::from_secs(secs)).ok()
}
#[test]
fn d33_d34() {
    let db = Arc::new(LocustDB::memory_only());
    let mut tb = TableBuffer::default();
    let off = [5000000007i64, 5000000003, 5000000200, 5000000001, 5000000100, 5000000002];
    for (i, v) in off.iter().enumerate() {
        tb.push_row_and_timestamp(vec![("id".to_string(), AnyVal::Int(i as i64)), ("off".to_string(), AnyVal::Int(*v)), ("f".to_string(), AnyVal::Float(*v as f64 / 1e9))]);
    }
    block_on(db.ingest_efficient(EventBuffer { tables: HashMap::from([("t".to_string(), tb)]) }));
    for q in ["SELECT id, floor(off) + 1 FROM t ORDER BY id", "SELECT id, off + 1 FROM t ORDER BY id", "SELECT id, floor(f) + 1 FROM t ORDER BY id", "SELECT id, floor(off) FROM t ORDER BY id",
              "SELECT id FROM t WHERE off > -9223372036854775807 ORDER BY id", "SELECT id FROM t WHERE off < -9223372036854775807 ORDER BY id", "SELECT id FROM t WHERE off = -9223372036854775807", "SELECT count(1) FROM t"] {
        println!("D33 {q}: {:?}", query_deadline(&db, q, 15));
    }
}
