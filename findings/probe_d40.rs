//! Probe for D40 (SQL clauses that are parsed and ignored). Not run by any registered check.
use std::collections::HashMap;
use std::sync::Arc;
use locustdb::LocustDB;
use locustdb_serialization::api::AnyVal;
use locustdb_serialization::event_buffer::{EventBuffer, TableBuffer};
fn block_on<F: std::future::Future>(f: F) -> F::Output {
    tokio::runtime::Builder::new_current_thread().enable_all().build().unwrap().block_on(f)
}
#[test]
fn d40_ignored_clauses() {
    let db = Arc::new(LocustDB::memory_only());
    let mut tb = TableBuffer::default();
    for i in 0..6i64 { tb.push_row_and_timestamp(vec![("id".to_string(), AnyVal::Int(i)), ("g".to_string(), AnyVal::Int(i % 2))]); }
    block_on(db.ingest_efficient(EventBuffer { tables: HashMap::from([("t".to_string(), tb)]) }));
    for q in ["SELECT id FROM t ORDER BY id LIMIT 1, 2", "SELECT id FROM t ORDER BY id FETCH FIRST 2 ROWS ONLY", "SELECT TOP 2 id FROM t ORDER BY id", "SELECT id FROM t ORDER BY ALL", "SELECT count(DISTINCT g) FROM t",
              "WITH x AS (SELECT 1) SELECT id FROM t ORDER BY id LIMIT 2", "SELECT id FROM t ORDER BY id LIMIT 1 BY g", "SELECT id FROM t ORDER BY id LIMIT 2 OFFSET 1", "SELECT id INTO u FROM t", "SELECT id FROM t WHERE id > 1 QUALIFY id > 2", "SELECT id FROM t ORDER BY id DESC NULLS FIRST LIMIT 2", "SELECT id FROM t FOR UPDATE"] {
        let r = block_on(db.run_query(q, false, true, vec![]));
        println!("D40 {q}: {}", match r { Ok(o) => format!("{:?}", o.rows.map(|r| r.iter().map(|x| format!("{:?}", x[0])).collect::<Vec<_>>())), Err(e) => format!("ERR {}", format!("{:?}", e).chars().take(80).collect::<String>()) });
    }
}
