//! Probe for D37 (string column that ends before the table does). Not run by any registered check.
use std::collections::HashMap;
use std::sync::{mpsc, Arc};
use std::thread;
use std::time::Duration;
use locustdb::LocustDB;
use locustdb_serialization::api::AnyVal;
use locustdb_serialization::event_buffer::{EventBuffer, TableBuffer};
fn block_on<F: std::future::Future>(f: F) -> F::Output {
    tokio::runtime::Builder::new_current_thread().enable_all().build().unwrap().block_on(f)
}
fn with_deadline<T: Send + 'static>(secs: u64, f: impl FnOnce() -> T + Send + 'static) -> Option<T> {
    let (tx, rx) = mpsc::channel();
    thread::spawn(move || { let _ = tx.send(f()); });
    rx.recv_timeout(Duration::from_secs(secs)).ok()
}
fn q(db: &Arc<LocustDB>, s: &str) -> String {
    let db = db.clone(); let s2 = s.to_string();
    format!("{:?}", with_deadline(15, move || { let r = block_on(db.run_query(&s2, false, true, vec![])); match r { Ok(o) => format!("{:?}", o.rows), Err(e) => format!("ERR {:?}", e).chars().take(90).collect() } }))
}
#[test]
fn d37_string_column_with_trailing_nulls() {
    let dir = tempfile::tempdir().unwrap();
    let mut opts = locustdb::Options::default();
    opts.db_path = Some(dir.path().to_path_buf());
    {
        let db = Arc::new(LocustDB::new(&opts));
        // built with the client's row API: `s` is logged in the first two rows only
        let mut tb = TableBuffer::default();
        for i in 0..5i64 {
            let mut row = vec![("id".to_string(), AnyVal::Int(i))];
            if i < 2 { row.push(("s".to_string(), AnyVal::Str(format!("v{}", i)))); }
            tb.push_row_and_timestamp(row);
        }
        let db2 = db.clone();
        let r = with_deadline(20, move || std::panic::catch_unwind(std::panic::AssertUnwindSafe(|| {
            block_on(db2.ingest_efficient(EventBuffer { tables: HashMap::from([("t".to_string(), tb)]) }));
        })).is_ok());
        println!("D37 ingest: {:?}", r);
        println!("D37 query: {}", q(&db, "SELECT id, s FROM t ORDER BY id"));
    }
    let opts2 = opts.clone();
    let r = with_deadline(30, move || std::panic::catch_unwind(std::panic::AssertUnwindSafe(|| {
        let db = Arc::new(LocustDB::new(&opts2));
        q(&db, "SELECT id, s FROM t ORDER BY id")
    })).ok());
    println!("D37 reopen: {:?}", r);
}
