//! Probe for D21: a select list that consists of constants only (`SELECT 1 FROM t`).
//! Goes to tests/probe_d21.rs of a scratch worktree; public API only.
use std::collections::HashMap;
use std::sync::mpsc;
use std::sync::Arc;
use std::thread;
use std::time::Duration;

use locustdb::LocustDB;
use locustdb_serialization::api::AnyVal;
use locustdb_serialization::event_buffer::{EventBuffer, TableBuffer};

fn block_on<F: std::future::Future>(f: F) -> F::Output {
    tokio::runtime::Builder::new_current_thread().enable_all().build().unwrap().block_on(f)
}

fn query_deadline(db: &Arc<LocustDB>, q: &str, secs: u64) -> Option<String> {
    let (tx, rx) = mpsc::channel();
    let db = db.clone();
    let q2 = q.to_string();
    thread::spawn(move || {
        let r = block_on(db.run_query(&q2, false, true, vec![]));
        let _ = tx.send(format!("{:?}", r.map(|o| o.rows)));
    });
    rx.recv_timeout(Duration::from_secs(secs)).ok()
}

#[test]
fn d21_constant_only_select_list_gets_an_answer() {
    let db = Arc::new(LocustDB::memory_only());
    let mut tb = TableBuffer::default();
    for i in 0..10i64 {
        tb.push_row_and_timestamp(vec![("a".to_string(), AnyVal::Int(i))]);
    }
    block_on(db.ingest_efficient(EventBuffer { tables: HashMap::from([("t".to_string(), tb)]) }));
    for q in ["SELECT 1 FROM t", "SELECT 1, a FROM t", "SELECT a, 1 FROM t LIMIT 3", "SELECT 'x' FROM t", "SELECT 1 + 2 FROM t", "SELECT 1.5 FROM t", "SELECT 1 FROM t LIMIT 3", "SELECT a, 'x' FROM t LIMIT 2"] {
        let r = query_deadline(&db, q, 20);
        println!("D21 {q:?}: {r:?}");
        assert!(r.is_some(), "D21: {q} got no answer (worker panicked, reply lost)");
        // a result or an error value are both fine; a cancelled reply means the worker thread died
        assert!(!r.unwrap().contains("Canceled"), "D21: {q} was canceled (worker panicked)");
    }
    let r = query_deadline(&db, "SELECT COUNT(1) FROM t", 20);
    println!("D21 afterwards: {r:?}");
    assert!(r.is_some());
}
