use locustdb_serialization::api::{Column, QueryResponse};
use std::collections::HashMap;

#[test]
fn probe_double_delta_extremes() {
    for ints in [
        vec![i64::MIN, 0, i64::MAX],
        vec![i64::MIN, i64::MAX, 0, i64::MAX],
        vec![i64::MAX, i64::MIN, i64::MAX],
        vec![0, i64::MAX, -2],
    ] {
        let ints2 = ints.clone();
        let r = std::panic::catch_unwind(move || {
            let mut columns = HashMap::new();
            columns.insert("a".to_string(), Column::Int(ints2.clone()));
            let resp = QueryResponse { columns };
            let ser = resp.serialize();
            let de = QueryResponse::deserialize(&ser).unwrap();
            match &de.columns["a"] {
                Column::Int(xs) => *xs == ints2,
                _ => false,
            }
        });
        println!("PROBE D15 {:?}: {:?}", ints, r.map_err(|_| "PANIC"));
    }
}
