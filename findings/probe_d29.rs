//! Probes for D29 (zero-row table buffer), D30 (NULL in a mixed column), D31 ([i64::MIN, 0]), D32 (delta step overflow).
//! Go to tests/ of a scratch worktree; public API only; not run by any registered check.
use std::collections::HashMap;
use std::sync::{mpsc, Arc};
use std::thread;
use std::time::Duration;
use locustdb::LocustDB;
use locustdb_serialization::api::AnyVal;
use locustdb_serialization::event_buffer::{ColumnBuffer, ColumnData, EventBuffer, TableBuffer};
fn block_on<F: std::future::Future>(f: F) -> F::Output {
    tokio::runtime::Builder::new_current_thread().enable_all().build().unwrap().block_on(f)
}
fn query_deadline(db: &Arc<LocustDB>, q: &str, secs: u64) -> Option<String> {
    let (tx, rx) = mpsc::channel();
    let db = db.clone();
    let q2 = q.to_string();
    thread::spawn(move || {
        let r = block_on(db.run_query(&q2, false, true, vec![]));
        let _ = tx.send(match r { Ok(o) => format!("{:?}", o.rows), Err(e) => format!("ERR {}", format!("{:?}", e).chars().take(160).collect::<String>()) });
    });
    rx.recv_timeout(Duration::from_secs(secs)).ok()
}
fn with_deadline<T: Send + 'static>(secs: u64, f: impl FnOnce() -> T + Send + 'static) -> Option<T> {
    let (tx, rx) = mpsc::channel();
    thread::spawn(move || { let _ = tx.send(f()); });
    rx.recv_timeout(Duration::from_secs(secs)).ok()
}
fn rows(n: std::ops::Range<i64>, extra: Option<(&str, fn(i64) -> Option<AnyVal>)>) -> TableBuffer {
    let mut tb = TableBuffer::default();
    for i in n {
        let mut row = vec![("id".to_string(), AnyVal::Int(i))];
        if let Some((name, f)) = extra { if let Some(v) = f(i) { row.push((name.to_string(), v)); } }
        tb.push_row_and_timestamp(row);
    }
    tb
}
#[test]
fn d29_zero_row_table() {
    let dir = tempfile::tempdir().unwrap();
    let mut opts = locustdb::Options::default();
    opts.db_path = Some(dir.path().to_path_buf());
    opts.threads = 2;
    {
        let db = Arc::new(LocustDB::new(&opts));
        block_on(db.ingest_efficient(EventBuffer { tables: HashMap::from([("good".to_string(), rows(0..10, None))]) }));
        let db2 = db.clone();
        let r = with_deadline(20, move || std::panic::catch_unwind(std::panic::AssertUnwindSafe(|| {
            block_on(db2.ingest_efficient(EventBuffer { tables: HashMap::from([("empty".to_string(), TableBuffer::default())]) }));
        })).is_ok());
        println!("D29 ingest of a zero-row table: {:?}", r);
        let db3 = db.clone();
        let r = with_deadline(20, move || std::panic::catch_unwind(std::panic::AssertUnwindSafe(|| {
            block_on(db3.ingest_efficient(EventBuffer { tables: HashMap::from([("good".to_string(), rows(10..20, None))]) }));
        })).is_ok());
        println!("D29 next ingest: {:?}", r);
        println!("D29 query: {:?}", query_deadline(&db, "SELECT count(1) FROM good", 15));
    }
    let opts2 = opts.clone();
    let r = with_deadline(30, move || std::panic::catch_unwind(std::panic::AssertUnwindSafe(|| {
        let db = Arc::new(LocustDB::new(&opts2));
        query_deadline(&db, "SELECT count(1) FROM good", 15)
    })).ok());
    println!("D29 reopen: {:?}", r);
}
#[test]
fn d30_mixed_column_with_null() {
    let db = Arc::new(LocustDB::memory_only());
    let tb = TableBuffer::new(HashMap::from([
        ("id".to_string(), ColumnBuffer { data: ColumnData::I64(vec![0, 1, 2, 3]) }),
        ("x".to_string(), ColumnBuffer { data: ColumnData::Mixed(vec![AnyVal::Int(1), AnyVal::Str("a".to_string()), AnyVal::Null, AnyVal::Str("b".to_string())]) }),
    ]));
    let db2 = db.clone();
    let r = with_deadline(20, move || std::panic::catch_unwind(std::panic::AssertUnwindSafe(|| {
        block_on(db2.ingest_efficient(EventBuffer { tables: HashMap::from([("t".to_string(), tb)]) }));
    })).is_ok());
    println!("D30 ingest mixed+null: {:?}", r);
    println!("D30 query: {:?}", query_deadline(&db, "SELECT id, x FROM t", 15));
    println!("D30 query again: {:?}", query_deadline(&db, "SELECT count(1) FROM t", 15));
}
#[test]
fn d31_min_zero() {
    let db = Arc::new(LocustDB::memory_only());
    block_on(db.ingest_efficient(EventBuffer { tables: HashMap::from([("t".to_string(), rows(0..2, Some(("x", |i| Some(AnyVal::Int(if i == 0 { i64::MIN } else { 0 }))))))]) }));
    println!("D31 query: {:?}", query_deadline(&db, "SELECT id, x FROM t", 15));
    println!("D31 query again: {:?}", query_deadline(&db, "SELECT count(1) FROM t", 15));
}
#[test]
fn d32_delta_step_overflow() {
    let db = Arc::new(LocustDB::memory_only());
    block_on(db.ingest_efficient(EventBuffer { tables: HashMap::from([("t".to_string(), rows(0..12, Some(("x", |i| Some(AnyVal::Int(if i == 0 { -5_000_000_000_000_000_000 } else { 5_000_000_000_000_000_000 + i }))))))]) }));
    println!("D32 query: {:?}", query_deadline(&db, "SELECT id, x FROM t LIMIT 3", 15));
    println!("D32 query again: {:?}", query_deadline(&db, "SELECT count(1) FROM t", 15));
}
