//! Probe for D39 (CSV ingestion after a restart waits for its own pool). Not run by any registered check.
use std::sync::{mpsc, Arc};
use std::thread;
use std::time::Duration;
use locustdb::{LocustDB, LoadOptions};
fn block_on<F: std::future::Future>(f: F) -> F::Output {
    tokio::runtime::Builder::new_current_thread().enable_all().build().unwrap().block_on(f)
}
fn with_deadline<T: Send + 'static>(secs: u64, f: impl FnOnce() -> T + Send + 'static) -> Option<T> {
    let (tx, rx) = mpsc::channel();
    thread::spawn(move || { let _ = tx.send(f()); });
    rx.recv_timeout(Duration::from_secs(secs)).ok()
}
#[test]
fn d39_load_csv_after_restart_single_worker() {
    let dir = tempfile::tempdir().unwrap();
    let mut opts = locustdb::Options::default();
    opts.db_path = Some(dir.path().to_path_buf());
    opts.threads = 1;
    {
        let db = Arc::new(LocustDB::new(&opts));
        let db2 = db.clone();
        let r = with_deadline(30, move || block_on(db2.load_csv(LoadOptions::new("test_data/tiny.csv", "default"))).is_ok());
        println!("D39 first load: {:?}", r);
        db.force_flush();
    }
    let db = Arc::new(LocustDB::new(&opts));
    let db2 = db.clone();
    let r = with_deadline(30, move || block_on(db2.load_csv(LoadOptions::new("test_data/tiny.csv", "default"))).is_ok());
    println!("D39 load after restart: {:?}", r);
    let db3 = db.clone();
    let r = with_deadline(20, move || { let r = block_on(db3.run_query("SELECT count(1) FROM default", false, true, vec![])); format!("{:?}", r.map(|o| o.rows)) });
    println!("D39 count: {:?}", r);
}
