//! Probe for D36 (range arithmetic of the grouping planner). Not run by any registered check.
use std::collections::HashMap;
use std::sync::{mpsc, Arc};
use std::thread;
use std::time::Duration;
use locustdb::LocustDB;
use locustdb_serialization::api::AnyVal;
use locustdb_serialization::event_buffer::{EventBuffer, TableBuffer};
fn block_on<F: std::future::Future>(f: F) -> F::Output {
    tokio::runtime::Builder::new_current_thread().enable_all().build().unwrap().block_on(f)
}
fn query_deadline(db: &Arc<LocustDB>, q: &str, secs: u64) -> Option<String> {
    let (tx, rx) = mpsc::channel();
    let db = db.clone();
    let q2 = q.to_string();
    thread::spawn(move || {
        let r = block_on(db.run_query(&q2, false, true, vec![]));
        let _ = tx.send(match r { Ok(o) => format!("{:?}", o.rows), Err(e) => format!("ERR {}", format!("{:?}", e).chars().take(100).collect::<String>()) });
    });
    rx.recv_timeout(Duration::from_secs(secs)).ok()
}
#[test]
fn d36_range_arithmetic() {
    let mut opts = locustdb::Options::default();
    opts.threads = 8;
    let db = Arc::new(LocustDB::new(&opts));
    let mut tb = TableBuffer::default();
    let p = [-3_000_000_000i64, 1, 3_000_000_000, 2];
    let r = [1i64, 4_000_000_000, 1, -4_000_000_000];
    let a = [i64::MIN + 1, i64::MAX - 1, 0, 5];
    for i in 0..4usize {
        tb.push_row_and_timestamp(vec![("id".to_string(), AnyVal::Int(i as i64)), ("x".to_string(), AnyVal::Int(i as i64 * 10)), ("p".to_string(), AnyVal::Int(p[i])), ("r".to_string(), AnyVal::Int(r[i])), ("a".to_string(), AnyVal::Int(a[i])), ("b".to_string(), AnyVal::Int(i as i64 % 2)), ("w1".to_string(), AnyVal::Int(i as i64 * 1_000_000_000)), ("w2".to_string(), AnyVal::Int(i as i64 * 1_100_000_000)), ("w3".to_string(), AnyVal::Int(i as i64 * 1_200_000_000))]);
    }
    block_on(db.ingest_efficient(EventBuffer { tables: HashMap::from([("t".to_string(), tb)]) }));
    for q in ["SELECT x / 0, count(1) FROM t", "SELECT p * r, count(1) FROM t", "SELECT a, b, count(1) FROM t", "SELECT a, count(1) FROM t", "SELECT a + 1, count(1) FROM t", "SELECT w1, w2, w3, count(1) FROM t", "SELECT w1, w2, count(1) FROM t", "SELECT x / -1, count(1) FROM t", "SELECT count(1) FROM t"] {
        println!("D36 {q}: {:?}", query_deadline(&db, q, 15));
    }
}
