//! Probe for D24 (least_upper_bound unimplemented!) and D25 (I64_NULL leaks through Cast<Val> for i64).
//! Goes to tests/ of a scratch worktree; public API only; not run by any registered check.
use std::collections::HashMap;
use std::sync::{mpsc, Arc};
use std::thread;
use std::time::Duration;
use locustdb::LocustDB;
use locustdb_serialization::api::AnyVal;
use locustdb_serialization::event_buffer::{EventBuffer, TableBuffer};

fn block_on<F: std::future::Future>(f: F) -> F::Output {
    tokio::runtime::Builder::new_current_thread().enable_all().build().unwrap().block_on(f)
}
fn query_deadline(db: &Arc<LocustDB>, q: &str, secs: u64) -> Option<String> {
    let (tx, rx) = mpsc::channel();
    let db = db.clone();
    let q2 = q.to_string();
    thread::spawn(move || {
        let r = block_on(db.run_query(&q2, false, true, vec![]));
        let _ = tx.send(match r { Ok(o) => format!("{:?}", o.rows), Err(e) => format!("ERR {}", format!("{:?}", e).chars().take(160).collect::<String>()) });
    });
    rx.recv_timeout(Duration::from_secs(secs)).ok()
}
fn ingest(db: &Arc<LocustDB>, rows: Vec<Vec<(&str, AnyVal)>>) {
    let mut tb = TableBuffer::default();
    for r in rows { tb.push_row_and_timestamp(r.into_iter().map(|(k, v)| (k.to_string(), v)).collect::<Vec<_>>()); }
    block_on(db.ingest_efficient(EventBuffer { tables: HashMap::from([("t".to_string(), tb)]) }));
    db.force_flush();
}
#[test]
fn lub_layouts() {
    let mut opts = locustdb::Options::default();
    opts.threads = 2;
    opts.partition_combine_factor = 999;
    let db = Arc::new(LocustDB::new(&opts));
    // partition 1: no `ls`, `x` int, `late` absent
    ingest(&db, (0..8).map(|i| vec![("id", AnyVal::Int(i)), ("g", AnyVal::Int(i % 2)), ("x", AnyVal::Int(i))]).collect());
    // partition 2: `ls` string, `x` float, late int
    ingest(&db, (8..16).map(|i| vec![("id", AnyVal::Int(i)), ("g", AnyVal::Int(i % 2)), ("x", AnyVal::Float(i as f64 + 0.5)), ("ls", AnyVal::Str(format!("s{}", i % 3))), ("late", AnyVal::Int(i * 10))]).collect());
    // partition 3: `x` string
    ingest(&db, (16..20).map(|i| vec![("id", AnyVal::Int(i)), ("g", AnyVal::Int(i % 2)), ("x", AnyVal::Str(format!("v{}", i)))]).collect());
    // y: nullable int in partition 4, float in partition 5
    ingest(&db, (20..26).map(|i| if i % 2 == 0 { vec![("id", AnyVal::Int(i)), ("y", AnyVal::Int(i))] } else { vec![("id", AnyVal::Int(i))] }).collect());
    ingest(&db, (26..30).map(|i| vec![("id", AnyVal::Int(i)), ("y", AnyVal::Float(i as f64 + 0.25))]).collect());
    for q in ["SELECT y, count(1) FROM t WHERE id >= 20", "SELECT id, y FROM t WHERE id >= 20 ORDER BY y LIMIT 30", "SELECT max(y), min(y), sum(y) FROM t WHERE id >= 20", "SELECT ls, count(1) FROM t", "SELECT g, ls, count(1) FROM t", "SELECT late, g, count(1) FROM t", "SELECT x, count(1) FROM t", "SELECT g, sum(late) FROM t", "SELECT id, x FROM t ORDER BY x LIMIT 30", "SELECT id, ls FROM t ORDER BY g, ls, id LIMIT 30", "SELECT count(1) FROM t"] {
        let r = query_deadline(&db, q, 20);
        println!("LUB {q:?}: {r:?}");
    }
}
