use std::collections::HashMap;
use std::sync::atomic::{AtomicBool, Ordering};
use std::sync::Arc;
use std::thread;
use std::time::{Duration, Instant};

use locustdb::LocustDB;
use locustdb_serialization::event_buffer::{ColumnBuffer, ColumnData, EventBuffer, TableBuffer};

fn block_on<F: std::future::Future>(f: F) -> F::Output {
    tokio::runtime::Builder::new_current_thread().enable_all().build().unwrap().block_on(f)
}

fn ingest(db: &LocustDB, table: &str, n: usize, base: i64) {
    let mut columns = HashMap::new();
    for c in 0..40 {
        columns.insert(format!("c{:02}", c), ColumnBuffer { data: ColumnData::I64((0..n as i64).map(|i| base + i * (c + 1)).collect()) });
    }
    let eb = EventBuffer { tables: HashMap::from([(table.to_string(), TableBuffer::new(columns))]) };
    block_on(db.ingest_efficient(eb));
}

#[test]
fn probe_evict_then_query_during_flush() {
    let dir = tempfile::tempdir().unwrap();
    let mut opts = locustdb::Options::default();
    opts.db_path = Some(dir.path().to_path_buf());
    opts.threads = 4;
    opts.partition_combine_factor = 999;
    let db = Arc::new(LocustDB::new(&opts));
    let stop = Arc::new(AtomicBool::new(false));
    let errors = Arc::new(std::sync::Mutex::new(Vec::<String>::new()));
    let db2 = db.clone();
    let stop2 = stop.clone();
    let errs2 = errors.clone();
    let q = thread::spawn(move || {
        let mut n = 0;
        while !stop2.load(Ordering::SeqCst) {
            db2.evict_cache();
            let (tx, rx) = std::sync::mpsc::channel();
            let db3 = db2.clone();
            thread::spawn(move || {
                let r = block_on(db3.run_query("SELECT c00, c39 FROM t", false, true, vec![]));
                let _ = tx.send(r.map(|o| o.rows.map(|r| r.len())).map_err(|e| format!("{}", e)));
            });
            match rx.recv_timeout(Duration::from_secs(20)) {
                Ok(Ok(_)) => {}
                Ok(Err(e)) => errs2.lock().unwrap().push(e),
                Err(_) => { errs2.lock().unwrap().push("HANG".to_string()); break; }
            }
            n += 1;
        }
        n
    });
    let start = Instant::now();
    let mut round = 0;
    while start.elapsed() < Duration::from_secs(25) {
        ingest(&db, "t", 2000, round * 10_000);
        db.force_flush();
        round += 1;
    }
    stop.store(true, Ordering::SeqCst);
    let n = q.join().unwrap();
    let errs = errors.lock().unwrap();
    println!("PROBE D16: rounds={} queries={} errors={} distinct={:?}", round, n, errs.len(), errs.iter().collect::<std::collections::BTreeSet<_>>());
}
