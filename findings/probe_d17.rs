use std::collections::HashMap;
use std::sync::mpsc;
use std::thread;
use std::time::Duration;

use locustdb::LocustDB;
use locustdb_serialization::event_buffer::{ColumnBuffer, ColumnData, EventBuffer, TableBuffer};

fn block_on<F: std::future::Future>(f: F) -> F::Output {
    tokio::runtime::Builder::new_current_thread().enable_all().build().unwrap().block_on(f)
}

#[test]
fn probe_packed_string_lz4_compaction() {
    let dir = tempfile::tempdir().unwrap();
    let mut opts = locustdb::Options::default();
    opts.db_path = Some(dir.path().to_path_buf());
    opts.partition_combine_factor = 0;
    let db = std::sync::Arc::new(LocustDB::new(&opts));
    for round in 0..3 {
        // many distinct (not dictionary encoded), non-hex, highly compressible strings
        let strs: Vec<String> = (0..2000).map(|i| format!("some_long_common_prefix_that_compresses_well_{:06}_{}", i, round)).collect();
        let mut columns = HashMap::new();
        columns.insert("s".to_string(), ColumnBuffer { data: ColumnData::String(strs) });
        let eb = EventBuffer { tables: HashMap::from([("t".to_string(), TableBuffer::new(columns))]) };
        block_on(db.ingest_efficient(eb));
        let (tx, rx) = mpsc::channel();
        let db2 = db.clone();
        thread::spawn(move || { db2.force_flush(); let _ = tx.send(()); });
        match rx.recv_timeout(Duration::from_secs(20)) {
            Ok(()) => println!("PROBE D17: flush {} ok", round),
            Err(_) => { println!("PROBE D17: flush {} HANG (> 20s)", round); return; }
        }
    }
    let r = block_on(db.run_query("SELECT count(1) FROM t", false, true, vec![]));
    println!("PROBE D17: count = {:?}", r.map(|o| o.rows));
}
