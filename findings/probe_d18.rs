//! Probes for D18 (compaction drops NULLs of partially-NULL narrow integer columns),
//! D19 (`ORDER BY k LIMIT 0` panics in the top-n operator) and
//! D20 (`ORDER BY nullable_string DESC LIMIT n` top-n uses an ascending `ordering`).
//! Goes to tests/probe_d18.rs of a scratch worktree; public API only. Each probe prints what it
//! observed and fails when the defect is present.
use std::collections::HashMap;
use std::path::Path;
use std::time::Duration;

use locustdb::value_syntax::*;
use locustdb::{LocustDB, Options, Value};
use locustdb_serialization::api::AnyVal;
use locustdb_serialization::event_buffer::{EventBuffer, TableBuffer};

fn block_on<F: std::future::Future>(f: F) -> F::Output {
    tokio::runtime::Builder::new_current_thread()
        .enable_all()
        .build()
        .unwrap()
        .block_on(f)
}

fn query(db: &LocustDB, q: &str) -> Result<Vec<Vec<Value>>, String> {
    match block_on(async {
        tokio::time::timeout(Duration::from_secs(30), db.run_query(q, false, true, vec![])).await
    }) {
        Err(_) => Err("TIMEOUT".to_string()),
        Ok(Err(e)) => Err(format!("query error: {e:?}")),
        Ok(Ok(out)) => Ok(out.rows.unwrap()),
    }
}

fn ingest(db: &LocustDB, table: &str, rows: Vec<Vec<(String, AnyVal)>>) {
    let mut tb = TableBuffer::default();
    for row in rows {
        tb.push_row_and_timestamp(row);
    }
    let events = EventBuffer {
        tables: HashMap::from([(table.to_string(), tb)]),
    };
    block_on(db.ingest_efficient(events));
}

fn options(path: &Path) -> Options {
    Options {
        db_path: Some(path.to_path_buf()),
        threads: 2,
        read_threads: 2,
        partition_combine_factor: 0,
        metrics_table_name: None,
        ..Options::default()
    }
}

/// D18: a column that is NULL in some rows of a partition; two flushes with combine factor 0 merge
/// the two partitions. Content must not change.
#[test]
fn d18_compaction_keeps_nulls_of_partially_null_columns() {
    let dir = tempfile::tempdir().unwrap();
    let db = LocustDB::new(&options(&dir.path().join("db")));
    let mut expected = vec![];
    for batch in 0..2i64 {
        let mut rows = vec![];
        for k in 0..20i64 {
            let id = batch * 20 + k;
            let mut row = vec![("id".to_string(), AnyVal::Int(id))];
            if id % 3 != 0 {
                row.push(("x".to_string(), AnyVal::Int(100 + id)));
                expected.push(vec![Int(id), Int(100 + id)]);
            } else {
                expected.push(vec![Int(id), Null]);
            }
            rows.push(row);
        }
        ingest(&db, "t", rows);
        let before = query(&db, "SELECT id, x FROM t ORDER BY id LIMIT 1000").unwrap();
        assert_eq!(before, expected, "before flush {batch}");
        db.force_flush();
        let after = query(&db, "SELECT id, x FROM t ORDER BY id LIMIT 1000").unwrap();
        println!("D18 after flush {batch}: {:?}", &after[..7.min(after.len())]);
        assert_eq!(after, expected, "D18: table content changed across force_flush #{batch}");
    }
}

/// D18b: the same for a dictionary-encoded string column that is absent from the second batch
/// ingested into the same open buffer (NULL in the last 20 rows of the partition).
#[test]
fn d18b_compaction_keeps_nulls_of_partially_null_string_columns() {
    let dir = tempfile::tempdir().unwrap();
    let db = LocustDB::new(&options(&dir.path().join("db")));
    let mut expected = vec![];
    let rows = (0..20i64)
        .map(|id| {
            let s = format!("kind{}", id % 4);
            expected.push(vec![Int(id), Str(Box::leak(s.clone().into_boxed_str()))]);
            vec![("id".to_string(), AnyVal::Int(id)), ("s".to_string(), AnyVal::Str(s))]
        })
        .collect();
    ingest(&db, "t", rows);
    let rows = (20..40i64)
        .map(|id| {
            expected.push(vec![Int(id), Null]);
            vec![("id".to_string(), AnyVal::Int(id))]
        })
        .collect();
    ingest(&db, "t", rows);
    let before = query(&db, "SELECT id, s FROM t ORDER BY id LIMIT 1000").unwrap();
    assert_eq!(before, expected, "before flush");
    for round in 0..2 {
        db.force_flush();
        let after = query(&db, "SELECT id, s FROM t ORDER BY id LIMIT 1000").unwrap();
        println!("D18b after flush {round}: {:?}", &after[18..23]);
        assert_eq!(after, expected, "D18b: table content changed across force_flush #{round}");
        // a second batch so that the next flush merges two partitions
        if round == 0 {
            let rows = (40..50i64)
                .map(|id| {
                    expected.push(vec![Int(id), Str("late")]);
                    vec![("id".to_string(), AnyVal::Int(id)), ("s".to_string(), AnyVal::Str("late".to_string()))]
                })
                .collect();
            ingest(&db, "t", rows);
        }
    }
}

/// D19: LIMIT 0 with a single ORDER BY key on a partition with more than 0 rows.
#[test]
fn d19_order_by_limit_zero_returns() {
    let db = LocustDB::memory_only();
    let rows = (0..50i64)
        .map(|i| vec![("k".to_string(), AnyVal::Int((i * 37) % 50))])
        .collect();
    ingest(&db, "t", rows);
    let r = query(&db, "SELECT k FROM t ORDER BY k LIMIT 0");
    println!("D19 LIMIT 0: {r:?}");
    assert_eq!(r, Ok(vec![]), "D19: ORDER BY .. LIMIT 0 must return no rows");
    // the database still answers
    let r = query(&db, "SELECT COUNT(1) FROM t");
    assert_eq!(r, Ok(vec![vec![Int(50)]]));
}

/// D20: DESC top-n over a nullable string key.
#[test]
fn d20_desc_top_n_over_nullable_strings() {
    let db = LocustDB::memory_only();
    let mut strs: Vec<Option<String>> = vec![];
    // two batches into the same open buffer: `s` is present in the first 40 rows and absent in
    // the last 20, which makes the buffer's `s` column a nullable string column
    let rows = (0..40i64)
        .map(|i| {
            let s = format!("s{:03}", (i * 17) % 40);
            strs.push(Some(s.clone()));
            vec![("id".to_string(), AnyVal::Int(i)), ("s".to_string(), AnyVal::Str(s))]
        })
        .collect();
    ingest(&db, "t", rows);
    let rows = (40..60i64)
        .map(|i| {
            strs.push(None);
            vec![("id".to_string(), AnyVal::Int(i))]
        })
        .collect();
    ingest(&db, "t", rows);
    let mut present: Vec<String> = strs.iter().flatten().cloned().collect();
    present.sort();
    present.reverse();
    let got = query(&db, "SELECT s FROM t WHERE s IS NOT NULL ORDER BY s DESC LIMIT 5").unwrap();
    let want: Vec<Vec<Value>> = present[..5].iter().map(|s| vec![Str(s)]).collect();
    println!("D20 filtered DESC LIMIT 5: got {got:?}");
    assert_eq!(got, want, "D20 (filtered): top 5 descending");
    let got = query(&db, "SELECT s FROM t ORDER BY s DESC LIMIT 20").unwrap();
    println!("D20 DESC LIMIT 20: got {got:?}");
    // whatever the NULL placement, the non-NULL strings in the answer must be descending and, if
    // fewer than 20 NULLs exist, start with the greatest strings
    let nn: Vec<String> = got
        .iter()
        .filter_map(|r| match &r[0] {
            Value::Str(s) => Some(s.to_string()),
            _ => None,
        })
        .collect();
    let mut sorted = nn.clone();
    sorted.sort();
    sorted.reverse();
    assert_eq!(nn, sorted, "D20: non-NULL keys of a DESC result are not descending");
    let nulls = got.len() - nn.len();
    if nulls == 0 {
        assert_eq!(nn, present[..20].to_vec(), "D20: wrong rows in DESC top 20");
    } else {
        assert_eq!(nn, present[..nn.len()].to_vec(), "D20: wrong non-NULL rows next to the NULLs");
    }
}
