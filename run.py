#!/usr/bin/env python3
"""Entry point: python3 run.py <property-id> [--tier quick|thorough]

exit 0: every rule instance of the property holds on the current /repo tree (known findings are
        printed as KNOWN-FINDING lines)
exit 1: a violation not listed in known_findings.json (VIOLATION line printed)
exit 2: the checker could not decide (tree does not compile, anchor missing, floor missed)
"""
import argparse
import importlib
import os
import sys
import traceback

HERE = os.path.dirname(os.path.abspath(__file__))
sys.path.insert(0, HERE)

from mirlib import core, facts  # noqa: E402


def main():
    ap = argparse.ArgumentParser()
    ap.add_argument('prop')
    ap.add_argument('--tier', default=os.environ.get('VERIF_TIER', 'quick'))
    args = ap.parse_args()
    tier = args.tier if args.tier in ('quick', 'thorough') else 'quick'
    seed = int(os.environ.get('VERIF_SEED', '0') or 0)
    try:
        mod = importlib.import_module('checks.%s' % args.prop)
    except ImportError:
        print('CHECKER-ERROR no check module for %s' % args.prop)
        traceback.print_exc()
        return 2
    ctx = core.Ctx(args.prop, tier, seed)
    try:
        from rules import selftest
        ctx.extra['engine_selftest'] = selftest.run()
        if tier == 'thorough':
            from checks import thorough
            thorough.before(ctx)
        rc = mod.run(ctx)
    except (core.CheckerError, facts.FactsError) as e:
        print('CHECKER-ERROR property=%s %s' % (args.prop, e))
        return 2
    except Exception:
        print('CHECKER-ERROR property=%s internal error' % args.prop)
        traceback.print_exc()
        return 2
    return rc


if __name__ == '__main__':
    sys.exit(main())
